"""Generic check engine: build + audit + correspondence + verdict (DESIGN §6)."""
import concurrent.futures as cf
import hashlib
import json
import os
import signal
import sys
import time
import traceback

from . import lean
from .prng import Rng

VERIF = lean.VERIF
REPO = os.environ.get("COBA_REPO", "/repo")
TRUSTED_COMMON = [
    "Lean 4.33 kernel; axioms propext, Classical.choice, Quot.sound only (audited by #print axioms on every run)",
    "hand-written Lean model; tied to /repo by the correspondence check (differential execution on generated cases)",
    "Python harness (generators, canonicalisers, monitors) and CPython 3.12",
]


def strict_json(x):
    """Make x safe for strict JSON parsers (jq, jsonschema CLIs): lone surrogates in strings are written out as
    text, NaN/Infinity (not JSON) become strings, keys become strings."""
    if isinstance(x, str):
        try:
            x.encode("utf-8")
            return x
        except UnicodeEncodeError:
            return "".join(c if not (0xD800 <= ord(c) <= 0xDFFF) else "\\u%04x" % ord(c) for c in x)
    if isinstance(x, float):
        return x if x == x and x not in (float("inf"), float("-inf")) else repr(x)
    if isinstance(x, bool) or x is None or isinstance(x, int):
        return x
    if isinstance(x, dict):
        return {strict_json(k if isinstance(k, str) else str(k)): strict_json(v) for k, v in x.items()}
    if isinstance(x, (list, tuple)):
        return [strict_json(v) for v in x]
    return strict_json(str(x))


class Property:
    id = "C00"
    prop_modules = []          # Lean modules holding the property theorems
    extra_targets = []         # further lake targets needed
    quick_n = 500
    thorough_n = 10000
    search_n = 3000
    case_timeout = 60
    workers = 12
    rule = ""
    trusted_base = []
    assumptions = []
    partial_theorems = {}      # name -> why partial

    def pre_build(self):
        """(re)generate Lean files from /repo's current source; return notes (list of str)"""
        return []

    def corpus(self):
        return []

    def generate(self, rng, tier):
        raise NotImplementedError

    def search(self, rng, tier):
        return self.generate(rng, tier)

    def evaluate(self, case, driver):
        """-> dict(fails=[{kind,what,sig}], nontrivial=bool, tags=[..], impl=.., model=..)"""
        raise NotImplementedError

    def shrink(self, case):
        return []

    def snippet(self, case):
        return ""

    def exhaustive(self, tier):
        """optional finite sweep: iterable of cases enumerated completely (thorough tier)"""
        return None


def F(kind, what, sig=None):
    return {"kind": kind, "what": what, "sig": sig or what}


# ---------------------------------------------------------------- worker side
_W = {}


class CaseTimeout(BaseException):  # not an Exception: code under test that catches Exception (Experiment.run does) must not swallow the timer
    pass


def _alarm(signum, frame):
    raise CaseTimeout()


def _w_init(modname, use_driver):
    import importlib
    mod = importlib.import_module(modname)
    _W["prop"] = mod.PROPERTY
    _W["driver"] = None
    if use_driver:
        try:
            _W["driver"] = lean.Driver(_W["prop"].id)
        except Exception:
            _W["driver"] = None
    signal.signal(signal.SIGALRM, _alarm)


def _w_eval(item):
    # the alarm may go off between the end of evaluate() and signal.alarm(0) (seen once under heavy load in the
    # thorough tier): a CaseTimeout escaping the inner try must stay a timed-out CASE, not a crashed run
    try:
        return _w_eval_inner(item)
    except CaseTimeout:
        signal.alarm(0)
        return item[0], {"fails": [F("T", "case timed out after %ss" % _W["prop"].case_timeout, "timeout")], "nontrivial": False, "tags": ["timeout"]}


def _w_eval_inner(item):
    idx, case, b_only = item
    prop = _W["prop"]
    drv = None if b_only else _W["driver"]
    signal.alarm(int(prop.case_timeout))
    try:
        out = prop.evaluate(case, drv)
    except CaseTimeout:
        out = {"fails": [F("T", "case timed out after %ss" % prop.case_timeout, "timeout")], "nontrivial": False, "tags": ["timeout"]}
    except lean.DriverError as e:
        out = {"fails": [F("A", "driver rejected the case: %s" % e, "driver-error")], "nontrivial": False, "tags": ["driver-error"]}
    except RuntimeError as e:
        if "driver died" in str(e):
            try:
                _W["driver"] = lean.Driver(_W["prop"].id)
            except Exception:
                _W["driver"] = None
            out = {"fails": [F("A", "driver died on the case", "driver-died")], "nontrivial": False, "tags": ["driver-died"]}
        else:
            out = {"fails": [F("H", "harness error: " + traceback.format_exc()[-1500:], "harness-error")], "nontrivial": False, "tags": ["harness-error"]}
    except Exception:
        out = {"fails": [F("H", "harness error: " + traceback.format_exc()[-1500:], "harness-error")], "nontrivial": False, "tags": ["harness-error"]}
    finally:
        signal.alarm(0)
    out.setdefault("fails", [])
    out.setdefault("tags", [])
    out.setdefault("nontrivial", False)
    return idx, out


def canon(x):
    return json.dumps(x, sort_keys=True, separators=(",", ":"), default=str)


# ---------------------------------------------------------------- main side
class Engine:
    def __init__(self, prop, modname, tier, seed):
        self.prop, self.modname, self.tier, self.seed = prop, modname, tier, seed
        self.t0 = time.time()
        self.lines = []
        self.known = [k for k in load_known() if k.get("property") == prop.id and k.get("status", "open") == "open"]

    def say(self, s):
        print(s, flush=True)

    # -- lean part
    def lean_phase(self):
        p = self.prop
        notes = []
        try:
            notes = p.pre_build() or []
        except Exception:
            notes = ["pre_build failed: " + traceback.format_exc()[-800:]]
        ok, log, secs = lean.build(list(p.prop_modules) + list(p.extra_targets) + ["drv_" + p.id.lower()])
        res = {"build_ok": bool(ok), "build_s": round(secs, 1), "notes": notes, "build_log_tail": "" if ok else log[-3000:]}
        if ok is None:
            res["infra"] = "lake build timed out"
        res["forbidden"] = lean.grep_forbidden(p.prop_modules)
        names = []
        for m in p.prop_modules:
            names += lean.theorems_in(m)
        res["theorems"] = names
        res["axioms"] = {}
        res["discharged"] = 0
        if ok:
            ax, raw = lean.audit(p.prop_modules)
            res["axioms"] = ax
            good = [n for n in names if ax.get(n) is not None and set(ax[n]) <= lean.ALLOWED_AXIOMS]
            res["discharged"] = len(good) if not res["forbidden"] else 0
            res["undischarged"] = [n for n in names if n not in good]
            if res["undischarged"]:
                res["audit_tail"] = raw
        else:
            res["undischarged"] = names
        if ok and self.tier == "thorough":
            # independent re-check of the compiled proof modules by leanchecker
            import subprocess
            try:
                t1 = time.time()
                cp = subprocess.run(["lake", "env", "leanchecker"] + list(p.prop_modules), cwd=lean.LEAN_DIR, stdout=subprocess.PIPE,
                                    stderr=subprocess.STDOUT, text=True, timeout=1200)
                res["leanchecker"] = {"rc": cp.returncode, "s": round(time.time() - t1, 1), "tail": cp.stdout[-400:]}
                if cp.returncode != 0:
                    res["undischarged"] = names
                    res["discharged"] = 0
            except Exception as e:
                res["leanchecker"] = {"rc": None, "error": str(e)}
        return res

    # -- running cases
    def run_cases(self, pool, cases, b_only=False):
        """cases: list of (label, case). returns list of (label, case, outcome)"""
        items = [(i, c, b_only) for i, (_, c) in enumerate(cases)]
        outs = [None] * len(items)
        chunk = max(1, min(64, len(items) // (self.prop.workers * 4) or 1))
        for idx, out in pool.map(_w_eval, items, chunksize=chunk):
            outs[idx] = out
        return [(cases[i][0], cases[i][1], outs[i]) for i in range(len(cases))]

    def eval_one(self, pool, case, b_only=False):
        return self.run_cases(pool, [("x", case)], b_only)[0][2]

    def shrink(self, pool, case, sigs, b_only):
        """greedy shrink while a failure with one of `sigs` (kind-restricted) persists"""
        best = case
        deadline = time.time() + 90
        improved = True
        rounds = 0
        while improved and time.time() < deadline and rounds < 200:
            improved = False
            rounds += 1
            try:
                cands = list(self.prop.shrink(best))[:400]
            except Exception:
                break
            if not cands:
                break
            step = max(16, self.prop.workers * 2)
            for c0 in range(0, len(cands), step):
                if time.time() > deadline:
                    break
                res = self.run_cases(pool, [("s", c) for c in cands[c0:c0 + step]], b_only)
                for _, c, out in res:
                    if any(f["sig"] in sigs for f in out["fails"]) and len(canon(c)) < len(canon(best)):
                        best = c
                        improved = True
                        break
                if improved:
                    break
        return best

    def write_replay(self, name, payload):
        d = os.path.join(VERIF, "replays")
        os.makedirs(d, exist_ok=True)
        path = os.path.join(d, name)
        with open(path, "w", encoding="utf-8") as f:
            json.dump(payload, f, indent=1, sort_keys=True, default=str)  # replays keep the case verbatim (Python reads them back)
        return os.path.relpath(path, VERIF)

    def main(self):
        p = self.prop
        tier = self.tier
        leanres = self.lean_phase()
        if leanres.get("infra"):
            self.say("INFRA: " + leanres["infra"])
            return 2
        lean_ok = leanres["build_ok"] and not leanres["forbidden"] and not leanres["undischarged"]
        use_driver = leanres["build_ok"] and os.path.exists(lean.driver_bin(p.id))
        broken = []   # proof obligations / correspondences that no longer check
        if not leanres["build_ok"]:
            broken.append("lake build of %s failed: %s" % (p.prop_modules, leanres["build_log_tail"][-600:]))
        if leanres["forbidden"]:
            broken.append("forbidden tokens in proof files: %s" % leanres["forbidden"])
        if leanres["build_ok"] and leanres["undischarged"]:
            broken.append("theorems with inadmissible or unknown axioms: %s" % leanres["undischarged"])

        n = p.quick_n if tier == "quick" else p.thorough_n
        cases = []
        for i, c in enumerate(p.corpus()):
            cases.append(("corpus/%d" % i, c))
        for k in self.known:
            if k.get("case") is not None:
                cases.append(("known/" + k["id"], k["case"]))
        for k in load_known("fixed_cases"):
            # failing inputs of repaired defects stay in the corpus: a regression is reported again
            if k.get("case") is not None and str(k.get("id", "")).startswith(p.id):
                cases.append(("fixed/" + k["id"], k["case"]))
        exhaustive_done = False
        if tier == "thorough":
            ex = p.exhaustive(tier)
            if ex is not None:
                for i, c in enumerate(ex):
                    cases.append(("exh/%d" % i, c))
                exhaustive_done = True
        for i in range(n):
            cases.append(("gen/%d" % i, p.generate(Rng(self.seed, p.id, tier, i), tier)))

        stats = {"evaluations": 0, "tags": {}, "nontrivial": set(), "samples": []}
        viol = []      # unmatched B failures: (label, case, out, fail)
        knownhits = {}  # id -> (label, case, fail)
        afails = []    # A / C failures
        infra = []
        with cf.ProcessPoolExecutor(max_workers=p.workers, initializer=_w_init, initargs=(self.modname, use_driver)) as pool:
            # evaluate in batches so that a tree on which (nearly) every case fails or times out does not
            # make the check run for hours: stop once enough violating cases are in hand, or when the wall
            # budget is used up (the evidence then says how many cases were actually evaluated)
            results = []
            budget = float(os.environ.get("VERIF_BUDGET_S", "1500" if tier == "quick" else "14400"))
            bsize = max(256, p.workers * 16, len(cases) // 8 + 1)
            truncated = None
            for b0 in range(0, len(cases), bsize):
                results += self.run_cases(pool, cases[b0:b0 + bsize])
                nviol = sum(1 for _, _, o in results if any(f["kind"] == "B" and not self.match_known(f) for f in o["fails"]))
                ntime = sum(1 for _, _, o in results if any(f["kind"] == "T" for f in o["fails"]))
                if nviol >= 25:
                    truncated = "stopped after %d of %d cases: %d violating cases already found" % (len(results), len(cases), nviol)
                    break
                if ntime >= 10:
                    truncated = "stopped after %d of %d cases: %d cases timed out" % (len(results), len(cases), ntime)
                    break
                if time.time() - self.t0 > budget and b0 + bsize < len(cases):
                    truncated = "stopped after %d of %d cases: wall budget of %ds used up" % (len(results), len(cases), budget)
                    break
            self.truncated = truncated
            for label, case, out in results:
                stats["evaluations"] += 1
                for t in out["tags"]:
                    stats["tags"][t] = stats["tags"].get(t, 0) + 1
                if out["nontrivial"]:
                    stats["nontrivial"].add(hashlib.sha1(canon(case).encode()).hexdigest())
                if len(stats["samples"]) < 3 and label.startswith("gen/") and out["nontrivial"]:
                    stats["samples"].append({"label": label, "case": case, "impl": out.get("impl"), "model": out.get("model")})
                for f in out["fails"]:
                    if f["kind"] == "B":
                        kid = self.match_known(f)
                        if kid:
                            knownhits.setdefault(kid, (label, case, f))
                        else:
                            viol.append((label, case, out, f))
                    elif f["kind"] in ("A", "C"):
                        afails.append((label, case, out, f))
                    else:
                        infra.append((label, case, out, f))

            if not stats["samples"] and cases:
                label, case, out = results[0]
                stats["samples"].append({"label": label, "case": case, "impl": out.get("impl"), "model": out.get("model")})

            rc = 0
            violations = 0
            for kid, (label, case, f) in sorted(knownhits.items()):
                k = [x for x in self.known if x["id"] == kid][0]
                self.say("KNOWN-FINDING: property=%s %s [%s]" % (p.id, k["what_fails"], kid))

            if viol:
                # report each distinct signature once, shrunk
                seen = set()
                for label, case, out, f in viol:
                    if f["sig"] in seen:
                        continue
                    seen.add(f["sig"])
                    small = self.shrink(pool, case, {f["sig"]}, b_only=not use_driver)
                    sout = self.eval_one(pool, small, b_only=not use_driver)
                    path = self.write_replay("%s-%s.json" % (p.id, hashlib.sha1(f["sig"].encode()).hexdigest()[:10]), {
                        "property": p.id, "seed": self.seed, "tier": tier, "label": label, "failed": "B (property violated on the implementation)",
                        "failure": f, "case": small, "original_case": case, "observed": {"impl": sout.get("impl"), "model": sout.get("model"), "fails": sout.get("fails")},
                        "snippet": p.snippet(small)})
                    self.say("VIOLATION property=%s replay=%s" % (p.id, path))
                    self.say("  " + f["what"][:400])
                    violations += 1
                    if len(seen) >= 5:
                        break
                rc = 1
            elif afails or broken:
                # correspondence / obligation broken but the property not visibly so: search the implementation
                what = broken + ["correspondence (%s): %s" % (f["kind"], f["what"][:300]) for _, _, _, f in afails[:5]]
                found = None
                scases = [("search/c%d" % i, c) for i, (_, c) in enumerate(cases[:200])]
                scases += [("search/%d" % i, p.search(Rng(self.seed, p.id, "search", i), tier)) for i in range(p.search_n if tier == "quick" else p.search_n * 5)]
                # first: shrink the diverging cases themselves looking for B
                for label, case, out in self.run_cases(pool, scases, b_only=True):
                    for f in out["fails"]:
                        if f["kind"] == "B" and not self.match_known(f):
                            found = (label, case, out, f)
                            break
                    if found:
                        break
                if found:
                    label, case, out, f = found
                    small = self.shrink(pool, case, {f["sig"]}, b_only=True)
                    sout = self.eval_one(pool, small, b_only=True)
                    path = self.write_replay("%s-%s.json" % (p.id, hashlib.sha1(f["sig"].encode()).hexdigest()[:10]), {
                        "property": p.id, "seed": self.seed, "tier": tier, "label": label, "failed": "B (found by failing-input search after: %s)" % what[:3],
                        "failure": f, "case": small, "original_case": case, "observed": {"impl": sout.get("impl"), "fails": sout.get("fails")},
                        "snippet": p.snippet(small)})
                    self.say("VIOLATION property=%s replay=%s" % (p.id, path))
                    self.say("  " + f["what"][:400])
                else:
                    first = afails[0] if afails else None
                    small = None
                    if first:
                        small = self.shrink(pool, first[1], {first[3]["sig"]}, b_only=False)
                    path = self.write_replay("%s-nofail.json" % p.id, {
                        "property": p.id, "seed": self.seed, "tier": tier,
                        "failed": "proof obligation / correspondence no longer checks; no input violating the property itself was found",
                        "no_longer_checks": what, "theorems": leanres["theorems"],
                        "diverging_case": small, "diverging_detail": first[3] if first else None,
                        "observed": self.eval_one(pool, small) if small is not None else None,
                        "snippet": p.snippet(small) if small is not None else ""})
                    self.say("VIOLATION property=%s replay=%s no-failing-input-found" % (p.id, path))
                    for w in what[:3]:
                        self.say("  " + w[:400])
                violations += 1
                rc = 1
            elif infra:
                for label, case, out, f in infra[:5]:
                    self.say("INFRA: %s %s" % (label, f["what"][:600]))
                rc = 2

        ev = {
            "property_id": p.id, "tier": tier, "seed": self.seed, "level": "proof",
            "coverage": {
                "obligations": max(1, len(leanres["theorems"])),
                "discharged": leanres["discharged"],
                "checker_cmd": "cd lean && lake build %s && lake env lean <generated #print axioms file>  (run by harness/vcheck.py %s)" % (" ".join(p.prop_modules), p.id),
                "trusted_base": TRUSTED_COMMON + list(p.trusted_base),
                "theorems": leanres["theorems"],
                "axioms": leanres["axioms"],
                "partial_theorems": p.partial_theorems,
                "leanchecker": leanres.get("leanchecker"),
                "build_ok": leanres["build_ok"], "build_s": leanres["build_s"], "pre_build_notes": leanres["notes"],
                "evaluations": stats["evaluations"],
                "distinct_nontrivial": len(stats["nontrivial"]),
                "rule": p.rule,
                "samples": stats["samples"],
                "input_distribution": dict(sorted(stats["tags"].items())),
                "disagreements_checked": stats["evaluations"] if use_driver else 0,
                "known_findings_reobserved": sorted(knownhits),
                "exhaustive": bool(exhaustive_done) and not getattr(self, "truncated", None),
                "truncated": getattr(self, "truncated", None),
                "explanation": "theorems about the Lean model (obligations/discharged, measured from #print axioms) + correspondence model=implementation and direct property monitor on every generated case",
            },
            "assumptions": list(p.assumptions),
            "wall_s": round(time.time() - self.t0, 2),
            "violations": violations,
        }
        # evidence/ only ever describes runs against /repo itself; a run against a scratch copy (COBA_REPO, used
        # for the seeded-change self-tests) leaves its record under replays/ (ignored by git)
        evdir = os.path.join(VERIF, "evidence") if os.path.realpath(REPO) == os.path.realpath("/repo") else os.path.join(VERIF, "replays", "_scratch_evidence")
        os.makedirs(evdir, exist_ok=True)
        with open(os.path.join(evdir, p.id + ".json"), "w", encoding="utf-8") as f:
            json.dump(strict_json(ev), f, indent=1, allow_nan=False)
        self.say("%s tier=%s seed=%d: %d cases, %d distinct non-trivial, theorems %d/%d, build_ok=%s, B-fails %d (known %d), A/C-fails %d, exit %d, %.1fs" % (
            p.id, tier, self.seed, stats["evaluations"], len(stats["nontrivial"]), leanres["discharged"], len(leanres["theorems"]),
            leanres["build_ok"], len(viol), len(knownhits), len(afails), rc, time.time() - self.t0))
        if os.environ.get("VERIF_TAGS"):
            for k, v in sorted(stats["tags"].items()):
                self.say("  tag %-40s %d" % (k, v))
        return rc

    def match_known(self, f):
        for k in self.known:
            if k.get("sig") == f["sig"]:
                return k["id"]
        return None


def load_known(section="findings"):
    """known_findings.json (index) + known/*.json (per property); committed, never written at run time"""
    out = []
    paths = [os.path.join(VERIF, "known_findings.json")]
    kd = os.path.join(VERIF, "known")
    if os.path.isdir(kd):
        paths += [os.path.join(kd, n) for n in sorted(os.listdir(kd)) if n.endswith(".json")]
    for path in paths:
        if os.path.exists(path):
            with open(path, encoding="utf-8") as f:
                out += json.load(f).get(section, [])
    return out


def replay(prop, modname, path):
    with open(path, encoding="utf-8") as f:
        payload = json.load(f)
    case = payload.get("case") or payload.get("diverging_case")
    if case is None:
        print("replay file names no concrete case: %s" % payload.get("no_longer_checks"))
        return 1
    _w_init(modname, os.path.exists(lean.driver_bin(prop.id)))
    _, out = _w_eval((0, case, False))
    print(json.dumps({"case": case, "outcome": out}, indent=1, default=str))
    known = [k for k in load_known() if k.get("property") == prop.id and k.get("status", "open") == "open"]
    bad = [f for f in out["fails"] if f["kind"] in ("A", "B", "C")]
    unk = [f for f in bad if not any(k.get("sig") == f["sig"] for k in known)]
    for f in bad:
        if f not in unk:
            print("KNOWN-FINDING: property=%s %s" % (prop.id, f["what"][:200]))
    if unk:
        print("VIOLATION property=%s replay=%s" % (prop.id, path))
        return 1
    return 0
