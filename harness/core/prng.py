"""Deterministic PRNG for the harness (splitmix64). Never uses `random` (coba tests touch it)."""

MASK = (1 << 64) - 1


def _mix(z):
    z = (z + 0x9E3779B97F4A7C15) & MASK
    z = ((z ^ (z >> 30)) * 0xBF58476D1CE4E5B9) & MASK
    z = ((z ^ (z >> 27)) * 0x94D049BB133111EB) & MASK
    return z ^ (z >> 31)


def derive(*parts):
    """Derive a 64-bit state from a tuple of ints/strings."""
    s = 0x243F6A8885A308D3
    for p in parts:
        if isinstance(p, str):
            for b in p.encode():
                s = _mix(s ^ b)
        else:
            s = _mix(s ^ (int(p) & MASK))
            s = _mix(s ^ ((int(p) >> 64) & MASK))
    return s


class Rng:
    def __init__(self, *parts):
        self.s = derive(*parts)

    def u64(self):
        self.s = (self.s + 0x9E3779B97F4A7C15) & MASK
        z = self.s
        z = ((z ^ (z >> 30)) * 0xBF58476D1CE4E5B9) & MASK
        z = ((z ^ (z >> 27)) * 0x94D049BB133111EB) & MASK
        return z ^ (z >> 31)

    def below(self, n):
        """uniform int in [0,n)"""
        if n <= 0:
            raise ValueError("below(%r)" % n)
        return self.u64() % n

    def randint(self, a, b):
        return a + self.below(b - a + 1)

    def chance(self, p):
        return self.u64() < p * (1 << 64)

    def choice(self, seq):
        return seq[self.below(len(seq))]

    def wchoice(self, pairs):
        """pairs: [(weight, value)] with int weights"""
        tot = sum(w for w, _ in pairs)
        r = self.below(tot)
        for w, v in pairs:
            if r < w:
                return v
            r -= w
        return pairs[-1][1]

    def shuffle(self, xs):
        xs = list(xs)
        for i in range(len(xs) - 1, 0, -1):
            j = self.below(i + 1)
            xs[i], xs[j] = xs[j], xs[i]
        return xs

    def sample(self, xs, k):
        return self.shuffle(xs)[:k]

    def subset(self, xs, p=0.5):
        return [x for x in xs if self.chance(p)]

    def fork(self, *parts):
        return Rng(self.u64(), *parts)
