"""Lean side: incremental build, forbidden-token grep, axiom audit, line-protocol driver."""
import json
import os
import re
import subprocess
import time

VERIF = os.path.dirname(os.path.dirname(os.path.dirname(os.path.abspath(__file__))))
LEAN_DIR = os.path.join(VERIF, "lean")
DRIVER_DIR = os.path.join(LEAN_DIR, ".lake", "build", "bin")
ALLOWED_AXIOMS = {"propext", "Classical.choice", "Quot.sound"}
FORBIDDEN = re.compile(r"\b(sorry|admit|native_decide|bv_decide|implemented_by|unsafe)\b|^\s*axiom\s|maxHeartbeats\s+0\b", re.M)


def driver_bin(prop):
    return os.path.join(DRIVER_DIR, "drv_" + prop.lower())


def _env():
    e = dict(os.environ)
    e.setdefault("LEAN_NUM_THREADS", "8")
    return e


def strip_comments(src):
    """remove /- -/ (nested) and -- comments and string literals (approximately)"""
    out = []
    i, n, depth = 0, len(src), 0
    while i < n:
        if src.startswith("/-", i):
            depth += 1
            i += 2
            continue
        if depth and src.startswith("-/", i):
            depth -= 1
            i += 2
            continue
        if depth:
            if src[i] == "\n":
                out.append("\n")
            i += 1
            continue
        if src.startswith("--", i):
            while i < n and src[i] != "\n":
                i += 1
            continue
        if src[i] == '"':
            i += 1
            while i < n and src[i] != '"':
                i += 2 if src[i] == "\\" else 1
            i += 1
            out.append('""')
            continue
        out.append(src[i])
        i += 1
    return "".join(out)


def module_path(mod):
    return os.path.join(LEAN_DIR, *mod.split(".")) + ".lean"


def imports_closure(mods):
    """all project modules (CobaVerif.*) transitively imported by mods"""
    seen, todo = [], list(mods)
    while todo:
        m = todo.pop()
        if m in seen:
            continue
        p = module_path(m)
        if not os.path.exists(p):
            continue
        seen.append(m)
        for line in open(p, encoding="utf-8"):
            mm = re.match(r"\s*(?:public\s+)?import\s+(CobaVerif[\w.]*)", line)
            if mm:
                todo.append(mm.group(1))
    return seen


def grep_forbidden(mods):
    hits = []
    for m in imports_closure(mods):
        src = strip_comments(open(module_path(m), encoding="utf-8").read())
        for mm in FORBIDDEN.finditer(src):
            line = src.count("\n", 0, mm.start()) + 1
            hits.append("%s:%d:%s" % (m, line, mm.group(0).strip()))
    return hits


def build(targets, timeout=1500):
    """lake build of the given module targets + driver. Returns (ok, log, seconds)."""
    t0 = time.time()
    cmd = ["lake", "build"] + list(targets)
    try:
        p = subprocess.run(cmd, cwd=LEAN_DIR, env=_env(), stdout=subprocess.PIPE, stderr=subprocess.STDOUT,
                           timeout=timeout, text=True)
    except subprocess.TimeoutExpired as e:
        return None, "lake build timed out: %s" % e, time.time() - t0
    return p.returncode == 0, p.stdout[-6000:], time.time() - t0


def theorems_in(mod):
    """names of `theorem`s declared in a Props module (fully qualified by enclosing namespaces)"""
    src = strip_comments(open(module_path(mod), encoding="utf-8").read())
    names, ns = [], []
    for line in src.splitlines():
        m = re.match(r"\s*namespace\s+([\w.]+)", line)
        if m:
            ns.append(m.group(1))
            continue
        m = re.match(r"\s*end\s+([\w.]+)\s*$", line)
        if m and ns and ns[-1] == m.group(1):
            ns.pop()
            continue
        m = re.match(r"\s*(?:@\[[^\]]*\]\s*)?(?:protected\s+|private\s+)?theorem\s+([\w.'!?₀-₉]+)", line)
        if m:
            names.append(".".join(ns + [m.group(1)]))
    return names


def audit(prop_mods, timeout=900):
    """#print axioms on every theorem of the Props modules.
    Returns dict name -> sorted list of axioms (or None when the name is unknown / errors)."""
    names = []
    for m in prop_mods:
        names += theorems_in(m)
    adir = os.path.join(LEAN_DIR, ".lake", "audit")
    os.makedirs(adir, exist_ok=True)
    path = os.path.join(adir, "Audit_%d_%s.lean" % (os.getpid(), "_".join(x.split(".")[-1] for x in prop_mods)))
    with open(path, "w", encoding="utf-8") as f:
        for m in prop_mods:
            f.write("import %s\n" % m)
        for nm in names:
            f.write("#print axioms %s\n" % nm)
    try:
        p = subprocess.run(["lake", "env", "lean", path], cwd=LEAN_DIR, env=_env(), stdout=subprocess.PIPE,
                           stderr=subprocess.STDOUT, timeout=timeout, text=True)
        out = p.stdout
    except subprocess.TimeoutExpired:
        out = ""
    finally:
        try:
            os.remove(path)
        except OSError:
            pass
    res = {nm: None for nm in names}
    flat = re.sub(r"\s+", " ", out)
    for nm in names:
        m = re.search(r"'%s' depends on axioms: \[([^\]]*)\]" % re.escape(nm), flat)
        if m:
            res[nm] = sorted(a.strip() for a in m.group(1).split(",") if a.strip())
        elif re.search(r"'%s' does not depend on any axioms" % re.escape(nm), flat):
            res[nm] = []
    return res, out[-3000:]


class Driver:
    """One driver subprocess; `ask` is synchronous."""

    def __init__(self, prop):
        self.prop = prop
        binp = driver_bin(prop)
        if os.path.exists(binp):
            cmd = [binp]
        else:
            cmd = ["lake", "env", "lean", "--run", os.path.join("Driver", prop + ".lean")]
        self.p = subprocess.Popen(cmd, cwd=LEAN_DIR, env=_env(), stdin=subprocess.PIPE, stdout=subprocess.PIPE,
                                  text=True, bufsize=1)
        self.n = 0

    def ask(self, req):
        self.n += 1
        msg = dict(req)
        msg["id"] = self.n
        self.p.stdin.write(json.dumps(msg, separators=(",", ":")) + "\n")
        self.p.stdin.flush()
        line = self.p.stdout.readline()
        if not line:
            raise RuntimeError("driver died")
        ans = json.loads(line)
        if "error" in ans:
            raise DriverError(ans["error"])
        return ans["ok"]

    def close(self):
        try:
            self.p.stdin.close()
            self.p.wait(timeout=5)
        except Exception:
            self.p.kill()


class DriverError(Exception):
    pass
