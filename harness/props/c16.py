"""C16 Built-in learners always return a valid, self-consistent distribution."""
import json
import math
import os
import signal
from fractions import Fraction

from core.engine import Property, F

A_, C_, M_ = 116646453, 9, 2 ** 30
AINV = pow(A_, -1, M_)


def seed_for(k, target):
    """an int seed whose k-th uniform (k>=1) has numerator `target`"""
    s = target
    for _ in range(k):
        s = ((s - C_) * AINV) % M_
    return s


def q(x):
    """exact rational [num,den] of an int/float/Fraction"""
    if isinstance(x, bool):
        x = int(x)
    if isinstance(x, int):
        return [x, 1]
    f = x if isinstance(x, Fraction) else Fraction(x)
    return [f.numerator, f.denominator]


def unq(p):
    return Fraction(p[0], p[1])


def num(p):
    """the Python number handed to coba for the rational p: ints stay ints, the rest are floats"""
    return p[0] if p[1] == 1 else p[0] / p[1]


def fnum(p):
    return float(p[0]) if p[1] == 1 else p[0] / p[1]


# ---------------------------------------------------------------- action values
def mk_val(d):
    k, v = d[0], d[1]
    if k == "i":
        return int(v)
    if k == "f":
        return float(v)
    if k == "b":
        return bool(v)
    if k == "s":
        return str(v)
    if k == "l":
        return [mk_val(x) for x in v]
    if k == "t":
        return tuple(mk_val(x) for x in v)
    if k == "d":
        return {mk_val(a): mk_val(b) for a, b in v}
    if k == "n":
        return None
    if k == "w":          # the value wrapped in one of coba's own Dense/Sparse row classes or another Sequence/Mapping flavour
        inner = mk_val(d[2])
        w = wrap_row(d[1], inner)
        same = (list(w) == list(inner) and len(w) == len(inner)) if d[1] in DENSE_WRAPS else (dict(w.items()) == dict(inner) and len(w) == len(inner))
        if not same:
            raise RuntimeError("harness: %s does not present %r" % (d[1], inner))
        return w
    raise ValueError(d)


DENSE_WRAPS = ["LazyDense", "LazyDenseCallable", "HeadDense", "EncodeDense", "KeepDense", "LabelDenseFeats", "HashableDense"]
SPARSE_WRAPS = ["LazySparse", "HeadSparse", "EncodeSparse", "DropSparse", "HashableSparse", "MappingProxyType", "OrderedDict", "UserDict"]


def ident(x):
    return x


def wrap_row(kind, v):
    from coba.pipes import rows as R
    from coba.primitives import HashableDense, HashableSparse
    if kind in DENSE_WRAPS:
        v = list(v)
        n = len(v)
        if kind == "LazyDense":
            return R.LazyDense(v)
        if kind == "LazyDenseCallable":
            return R.LazyDense(lambda v=v: v)
        if kind == "HeadDense":
            return R.HeadDense(R.LazyDense(v), {"h%d" % i: i for i in range(n)})
        if kind == "EncodeDense":
            return R.EncodeDense(R.LazyDense(v), [ident] * n)
        if kind == "KeepDense":
            return R.KeepDense(R.LazyDense(v + ["dropped"]), dict(zip(range(n), range(n))), [True] * n + [False], n, None)
        if kind == "LabelDenseFeats":
            return R.LabelDense(R.LazyDense(v + ["label"]), n, "c").feats
        return HashableDense(v)
    v = dict(v)
    if kind == "LazySparse":
        return R.LazySparse(v)
    if kind == "HeadSparse":
        return R.HeadSparse(R.LazySparse(v), {k: k for k in v}, {k: k for k in v})
    if kind == "EncodeSparse":
        return R.EncodeSparse(R.LazySparse(v), {}, set())
    if kind == "DropSparse":
        return R.DropSparse(R.LazySparse(v), set())
    if kind == "HashableSparse":
        return HashableSparse(v)
    if kind == "MappingProxyType":
        from types import MappingProxyType
        return MappingProxyType(v)
    if kind == "OrderedDict":
        from collections import OrderedDict
        return OrderedDict(v)
    if kind == "UserDict":
        from collections import UserDict
        return UserDict(v)
    raise ValueError(kind)


WRAP_SRC = {"LazyDense": "R.LazyDense(%s)", "LazyDenseCallable": "R.LazyDense(lambda: %s)",
            "HeadDense": "(lambda v: R.HeadDense(R.LazyDense(v), {'h%%d' %% i: i for i in range(len(v))}))(%s)",
            "EncodeDense": "(lambda v: R.EncodeDense(R.LazyDense(v), [lambda x: x] * len(v)))(%s)",
            "KeepDense": "(lambda v: R.KeepDense(R.LazyDense(v + ['dropped']), dict(zip(range(len(v)), range(len(v)))), [True] * len(v) + [False], len(v), None))(%s)",
            "LabelDenseFeats": "(lambda v: R.LabelDense(R.LazyDense(v + ['label']), len(v), 'c').feats)(%s)",
            "HashableDense": "HashableDense(%s)", "LazySparse": "R.LazySparse(%s)",
            "HeadSparse": "(lambda v: R.HeadSparse(R.LazySparse(v), {k: k for k in v}, {k: k for k in v}))(%s)",
            "EncodeSparse": "R.EncodeSparse(R.LazySparse(%s), {}, set())", "DropSparse": "R.DropSparse(R.LazySparse(%s), set())",
            "HashableSparse": "HashableSparse(%s)", "MappingProxyType": "MappingProxyType(%s)", "OrderedDict": "OrderedDict(%s)", "UserDict": "UserDict(%s)"}
SNIPPET_IMPORTS = ("import coba.pipes.rows as R; from coba.primitives import HashableDense, HashableSparse; "
                   "from types import MappingProxyType; from collections import OrderedDict, UserDict")


def py_lit(d):
    """Python source of the value"""
    if d[0] == "w":
        inner = mk_val(d[2])
        return WRAP_SRC[d[1]] % repr(list(inner) if d[1] in DENSE_WRAPS else dict(inner))
    return repr(mk_val(d))


# classes of pairwise-unequal actions; the members of a class are equal under == after make_hashable
CATALOG = [
    [["i", 0], ["f", "0.0"], ["b", False]],
    [["i", 1], ["f", "1.0"], ["b", True]],
    [["i", 2], ["f", "2.0"]],
    [["i", 5]],
    [["i", -3]],
    [["f", "0.5"]],
    [["f", "-1.25"]],
    [["s", "a"]],
    [["s", "b"]],
    [["s", "action_c"]],
    [["s", ""]],
    [["l", [["i", 1], ["i", 2]]], ["t", [["i", 1], ["i", 2]]], ["l", [["f", "1.0"], ["f", "2.0"]]]],
    [["l", [["i", 0], ["i", 0], ["i", 1]]], ["t", [["i", 0], ["i", 0], ["i", 1]]]],
    [["t", [["i", 0], ["i", 1], ["i", 0]]], ["l", [["i", 0], ["i", 1], ["i", 0]]]],
    [["t", [["i", 1], ["i", 0], ["i", 0]]], ["l", [["b", True], ["i", 0], ["i", 0]]]],
    [["l", [["s", "x"], ["i", 3]]], ["t", [["s", "x"], ["i", 3]]]],
    [["l", []], ["t", []]],
    [["l", [["f", "0.25"]]]],
    [["d", [[["s", "a"], ["i", 1]]]], ["d", [[["s", "a"], ["f", "1.0"]]]]],
    [["d", [[["s", "a"], ["i", 1]], [["s", "b"], ["i", 2]]]], ["d", [[["s", "b"], ["i", 2]], [["s", "a"], ["i", 1]]]]],
    [["d", [[["s", "b"], ["i", 2]]]]],
    [["d", [[["i", 1], ["f", "2.5"]]]], ["d", [[["f", "1.0"], ["f", "2.5"]]]]],
    [["d", []]],
    [["d", [[["s", "x"], ["s", "y"]]]]],
    # 24.. : DIFFERENT actions whose hashes coincide in CPython (hash(-1) == hash(-2) == -2, hash(2**61-1) == hash(0) == 0); the learners' tables are
    # keyed by make_hashable(action), so these land in one hash bucket and only `==` keeps them apart
    [["i", -1], ["f", "-1.0"]],
    [["i", -2], ["f", "-2.0"]],
    [["i", 2 ** 61 - 1]],
    [["l", [["i", -1]]], ["t", [["i", -1]]], ["l", [["f", "-1.0"]]]],
    [["l", [["i", -2]]], ["t", [["i", -2]]]],
    [["l", [["i", 0], ["i", -1]]], ["t", [["i", 0], ["i", -1]]]],
    [["l", [["i", 0], ["i", -2]]], ["t", [["f", "0.0"], ["i", -2]]]],
    [["d", [[["s", "k"], ["i", -1]]]], ["d", [[["s", "k"], ["f", "-1.0"]]]]],
    [["d", [[["s", "k"], ["i", -2]]]]],
    # (two items each: coba's Dense.__eq__ iterates the other operand, so the ROW [-2] == {-2: 'v'} -- such a pair would be one action offered twice)
    [["d", [[["i", -1], ["s", "v"]], [["s", "z"], ["i", 0]]]]],
    [["d", [[["i", -2], ["s", "v"]], [["s", "z"], ["i", 0]]]]],
    [["d", [[["s", "k"], ["i", 0]]]]],
    [["d", [[["s", "k"], ["i", 2 ** 61 - 1]]]]],
    # 37.. (phase 6): STRINGS that are the str() / repr() of another catalogue action or of its table key -- different actions for every learner
    # (1 != '1'), one action for anything that keys on str(action) / repr(action) / an f-string of it
    [["s", "1"]],            # str(1), str(make_hashable(1))
    [["s", "1.0"]],          # str(1.0): the alias 1.0 of class 1
    [["s", "True"]],         # str(True): the alias True of class 1
    [["s", "'a'"]],          # repr('a')
    [["s", "(1, 2)"]],       # str((1, 2)) = str of the key HashableDense((1, 2)) of [1, 2]
    [["s", "[1, 2]"]],       # str([1, 2])
]
# groups of catalogue classes whose make_hashable keys hash alike although the actions differ
COLLIDE_HASH = [[24, 25], [0, 26], [27, 28], [29, 30], [31, 32], [33, 34], [35, 36]]
# (phase 6) groups of different actions one of which is the str() / repr() of (a spelling of) the other
COLLIDE_STR = [[1, 37], [1, 38], [1, 39], [7, 40], [11, 41], [11, 42]]
# every group of "different actions that a careless key would merge"; offered together by the generators and the deterministic corpus families
COLLIDE = COLLIDE_HASH + COLLIDE_STR
for _cls in CATALOG:
    _base = _cls[0]
    if not _base[1]:
        continue          # an empty row object equals every empty container ('' == [] == {} for coba's Dense): would duplicate classes
    if _base[0] in ("l", "t"):
        _cls.extend([["w", w_, _base] for w_ in DENSE_WRAPS])
    elif _base[0] == "d":
        _cls.extend([["w", w_, _base] for w_ in SPARSE_WRAPS])
CONTEXTS = [["n", None], ["i", 1], ["s", "ctx"], ["l", [["i", 1], ["f", "2.5"]]], ["d", [[["s", "u"], ["i", 1]]]], ["t", [["i", 0], ["i", 1]]]]


# ---------------------------------------------------------------- learners
def mk_base(spec):
    """the real coba learner for a spec (without Misguided wrappers)"""
    from coba.learners import BanditEpsilonLearner, BanditUCBLearner, FixedLearner, RandomLearner
    t = spec["type"]
    if t == "eps":
        return BanditEpsilonLearner(num(spec["eps"]), seed=spec["seed"])
    if t == "ucb":
        return BanditUCBLearner(seed=spec["seed"])
    if t == "fixed":
        return FixedLearner([num(p) for p in spec["pmf"]], seed=spec["seed"])
    if t == "random":
        return RandomLearner(seed=spec["seed"])
    if t == "corral":      # a Corral as base learner of another Corral (its own bases are plain learners)
        from coba.learners import CorralLearner
        return CorralLearner([mk_learner(b) for b in spec["bases"]], eta=num(spec["eta"]), T=math.inf if spec["T"] == "inf" else num(spec["T"]),
                             mode=spec["mode"], seed=spec["seed"])
    raise ValueError(t)


def wrap_mis(inner, mis):
    from coba.learners import MisguidedLearner
    for sh, sc in reversed(mis):
        inner = MisguidedLearner(inner, num(sh), num(sc))
    return inner


def mk_learner(spec):
    return wrap_mis(mk_base(spec), spec.get("mis", []))


def misguide_float(mis, r):
    for sh, sc in mis:
        r = num(sh) + num(sc) * r
    return r


def seed_json(v):
    """how CobaRandom normalises a seed, for the model"""
    if isinstance(v, int) or (isinstance(v, float) and v.is_integer()):
        return {"int": int(v)}
    return {"bytes": list(str(v).encode("utf-8"))}


def model_learner(spec):
    d = {"type": spec["type"], "seed": seed_json(spec["seed"]), "mis": spec.get("mis", [])}
    if spec["type"] == "eps":
        d["eps"] = q(num(spec["eps"]))
    if spec["type"] == "fixed":
        d["pmf"] = [q(num(p)) for p in spec["pmf"]]
    return d


def learner_src(spec):
    t = spec["type"]
    if t == "eps":
        s = "BanditEpsilonLearner(%r, seed=%r)" % (num(spec["eps"]), spec["seed"])
    elif t == "ucb":
        s = "BanditUCBLearner(seed=%r)" % spec["seed"]
    elif t == "fixed":
        s = "FixedLearner(%r, seed=%r)" % ([num(p) for p in spec["pmf"]], spec["seed"])
    elif t == "corral":
        s = "CorralLearner([%s], eta=%r, T=%s, mode=%r, seed=%r)" % (", ".join(learner_src(b) for b in spec["bases"]), num(spec["eta"]),
                                                                      "math.inf" if spec["T"] == "inf" else repr(num(spec["T"])), spec["mode"], spec["seed"])
    else:
        s = "RandomLearner(seed=%r)" % spec["seed"]
    for sh, sc in reversed(spec.get("mis", [])):
        s = "MisguidedLearner(%s, %r, %r)" % (s, num(sh), num(sc))
    return s


class UcbMirror:
    """float re-computation of BanditUCBLearner's index (same formulas, same order of operations);
    supplies the `val` oracle of the model (the model's theorems hold for every oracle)"""

    def __init__(self):
        self.t = 0
        self.m, self.s, self.v = {}, {}, {}

    def learn(self, a, r):
        self.t += 1
        if a not in self.m:
            self.m[a] = r
            self.s[a] = 1
            self.v[a] = [0., 0., 0., float("nan")]
        else:
            self.m[a] = (1 - 1 / self.s[a]) * self.m[a] + 1 / self.s[a] * r
            self.s[a] += 1
            count, mean, M2, var = self.v[a]
            count += 1
            delta = r - mean
            mean += delta / count
            delta2 = r - mean
            M2 += delta * delta2
            if count > 1:
                var = M2 / (count - 1)
            self.v[a] = [count, mean, M2, var]

    def val(self, a):
        ln = math.log
        t, s, var = self.t, self.s[a], self.v[a][3]
        V = var + math.sqrt(2 * ln(t) / s)
        return self.m[a] + math.sqrt(ln(t) / s * min(1 / 4, V))


class StepTimeout(BaseException):
    pass


class step_limit:
    """per-step limit in CPU time of this process (ITIMER_VIRTUAL): a learn that spins is caught, a machine that is merely busy is not
    (a wall-clock limit produced one spurious time-out at load average 50); independent of the engine's per-case SIGALRM"""

    def __init__(self, secs):
        self.secs = secs

    def __enter__(self):
        self.old = signal.signal(signal.SIGVTALRM, self._raise)
        signal.setitimer(signal.ITIMER_VIRTUAL, self.secs)

    @staticmethod
    def _raise(signum, frame):
        raise StepTimeout()

    def __exit__(self, *exc):
        signal.setitimer(signal.ITIMER_VIRTUAL, 0)
        signal.signal(signal.SIGVTALRM, self.old)
        return False


def find_idx(actions, a):
    """position of the returned action in the offered list: identity first, then equality"""
    for i, x in enumerate(actions):
        if x is a:
            return i
    for i, x in enumerate(actions):
        try:
            if x == a:
                return i
        except Exception:
            pass
    return None


def is_real(x):
    return isinstance(x, (int, float)) and not isinstance(x, bool) and math.isfinite(x)


def close(a, b, rel=1e-9, ab=1e-12):
    return abs(a - b) <= ab + rel * max(abs(a), abs(b))


class Rec:
    """transparent recorder around a base learner of Corral"""

    def __init__(self, inner):
        self.inner = inner
        self.preds = []
        self.learns = []

    @property
    def params(self):
        return self.inner.params

    def score(self, context, actions, action):
        return self.inner.score(context, actions, action)

    def predict(self, context, actions):
        out = self.inner.predict(context, actions)
        self.preds.append((list(actions), out))
        return out

    def learn(self, context, action, reward, probability, **kw):
        self.learns.append((action, reward, probability, kw))
        return self.inner.learn(context, action, reward, probability, **kw)


# ---------------------------------------------------------------- bandit histories (Random, Fixed, BanditEpsilon, BanditUCB, Misguided)
def resolve(case, ref):
    return mk_val(case["pool"][ref[0]][ref[1]])


def renamed(ids):
    """the same action set under an injective renaming of the actions (class k -> the string 'class-k'): a policy that is a function of which
    actions were taught / are offered gives position i the same probability under it"""
    return ["class-%d" % i for i in ids]


def hash_collide_pool(pool):
    return len(pool) >= 2 and any(pool[0][0] in CATALOG[g_[0]] + CATALOG[g_[1]] and pool[1][0] in CATALOG[g_[0]] + CATALOG[g_[1]] for g_ in COLLIDE)


def hash_colliding(actions):
    """True when two different offered actions have table keys (make_hashable) with one hash"""
    try:
        from coba.learners.bandit import make_hashable
        ks = [make_hashable(a) for a in actions]
        return any(hash(x) == hash(y) and not (x == y) for i, x in enumerate(ks) for y in ks[i + 1:])
    except Exception:
        return False


def str_colliding(actions):
    """True when two different offered actions are told apart by == but not by str() / repr() (one is the text of the other or of its table key)"""
    try:
        from coba.learners.bandit import make_hashable
        ks = [make_hashable(a) for a in actions]
        txt = [{str(a), repr(a), str(k), repr(k)} for a, k in zip(actions, ks)]
        return any(not (ks[i] == ks[j]) and (txt[i] & txt[j]) for i in range(len(ks)) for j in range(i + 1, len(ks)))
    except Exception:
        return False


def run_bandit(case, driver):
    """run the history on the real learner; (B) on every output; then (A) against the Lean model"""
    spec = case["learner"]
    lt = spec["type"]
    mis = spec.get("mis", [])
    malformed = bool(case.get("malformed"))
    fails, tags, impl = [], ["kind:bandit", "learner:" + lt], []
    if mis:
        tags.append("misguided:%d" % len(mis))
    if lt == "eps":
        e = num(spec["eps"])
        tags.append("eps:0" if e == 0 else "eps:1" if e == 1 else "eps:tiny" if e < 1e-6 else "eps:mid")
    if lt == "fixed" and any(p[0] == 0 for p in spec["pmf"]):
        tags.append("fixed:zero-entry")
    for kk in (1, 2, 3, 4):
        st = spec["seed"] % M_
        for _ in range(kk):
            st = (A_ * st + C_) % M_
        if st in (0, M_ - 1):
            tags.append("seed:uniform-%s-at-draw-%d" % ("0" if st == 0 else "max", kk))
    seen = set()
    L = mk_learner(spec)
    if case.get("safe"):       # the learner as an experiment holds it: inside coba's SafeLearner (keeps a private copy of action lists with 0/1)
        from coba.safety import SafeLearner
        L = SafeLearner(L)
        tags.append("wrapped:SafeLearner")
    actions = None
    # reference for "the probability with which the current policy selects it": a second learner of the same construction that is
    # taught exactly the same (action, reward) sequence and is only ever asked through fresh action lists that are all kept alive
    shadow = mk_learner(spec)
    # second reference: the same learner taught the same sequence with every action RENAMED (class k -> 'class-k'). What the policy gives the
    # i-th offered action cannot depend on how the actions are spelt, hashed or compared, only on which of them were taught what.
    twin = mk_learner(spec) if case.get("twin", True) else None
    keep = []
    shared = []           # one list object refilled in place when the case says so (callers do reuse their action list)
    if case.get("shared_list"):
        tags.append("actions:same-list-object-refilled")
    since_learn = 0
    eqm = bool(case.get("eqm"))      # phase 5: offered lists with EQUAL members are inside the (B) family for eps / ucb / random (positional reading)
    if eqm:
        tags.append("family:equal-members")
    observed = set()      # classes the learner has been taught successfully
    safe_state_seen = False
    taught = []           # the rewards the wrapped learner was taught (after the Misguided wrappers)
    mirror = UcbMirror() if lt == "ucb" else None
    mhist = []            # the history as the model sees it
    fidx = {}             # model call -> (index into the offered list, the implementation's float) for the float-faithful pmf
    cmp = []              # (index into model outs, kind, impl value, description)
    last = None           # (class id) of the last predicted action
    n_pred = n_learn = 0
    maxn = 0

    def B(what, sig):
        if not malformed:
            fails.append(F("B", what, "%s-%s" % (lt, sig)))

    def vals_for(ids):
        if mirror is None or any(i not in mirror.m for i in ids):
            return []
        return [[i, q(mirror.val(i))] for i in sorted(set(ids))]

    stop = False
    for k, op in enumerate(case["hist"]):
        if stop:
            break
        actions = None      # the caller drops its list before it builds the next one (CPython then reuses the address)
        name = op["op"]
        ctx = mk_val(op.get("ctx", ["n", None]))
        if name in ("predict", "scores", "score"):
            refs = op["actions"]
            ids = [r[0] for r in refs]
            actions = [resolve(case, r) for r in refs]
            if op.get("as_tuple"):
                actions = tuple(actions)
            elif case.get("shared_list"):
                shared[:] = actions
                actions = shared
            since_learn += 1
            if since_learn >= 2:
                tags.append("calls:consecutive-without-learn")
            maxn = max(maxn, len(actions))
            tags.append("n:%d" % min(len(actions), 6))
            if seen and not set(ids) <= seen:
                tags.append("actions:new-action-appears")
            if seen and not seen <= set(ids):
                tags.append("actions:action-disappears")
            seen.update(ids)
            if any(r_[1] != 0 for r_ in refs):
                tags.append("actions:alias-spelling")
            if len(set(ids)) == len(ids) and hash_colliding(actions):
                tags.append("actions:hash-colliding-distinct")
            if str_colliding(actions):
                tags.append("actions:str-colliding-distinct")
            for r_ in refs:
                d_ = case["pool"][r_[0]][r_[1]]
                if d_[0] == "w":
                    tags.append("rows:" + d_[1])
            if len(set(ids)) != len(ids):
                tags.append("dup-actions")
                if eqm:
                    tags.append("eqm:equal-members-offered")
                    if any(r1[0] == r2[0] and r1[1] != r2[1] for i1, r1 in enumerate(refs) for r2 in refs[i1 + 1:]):
                        tags.append("eqm:equal-members-in-different-spellings")
                    if hash_colliding([actions[ids.index(i_)] for i_ in sorted(set(ids))]):
                        tags.append("eqm:hash-colliding-members")
                    if lt == "ucb":
                        tags.append("eqm:ucb-all-offered-observed" if all(i_ in observed for i_ in ids) else "eqm:ucb-some-offered-unobserved")
        if name == "predict":
            n_pred += 1
            try:
                out = L.predict(ctx, actions)
            except Exception as e:
                impl.append({"op": name, "err": type(e).__name__})
                B("%s.predict(%r, %r) raised %r at call #%d" % (learner_src(spec), ctx, actions, e, k), "predict-raises-" + type(e).__name__)
                mhist.append({"op": "predict", "actions": ids, "vals": vals_for(ids)})
                cmp.append((len(mhist) - 1, "err", type(e).__name__, "predict #%d" % k))
                stop = True
                continue
            if case.get("safe") and isinstance(out, tuple) and len(out) == 3 and out[2] == {}:
                out = out[:2]
            ok = isinstance(out, tuple) and len(out) == 2
            a, p = (out if ok else (None, None))
            idx = find_idx(actions, a) if ok else None
            impl.append({"op": name, "idx": idx, "p": p if is_real(p) else repr(p)})
            if not ok:
                B("predict returned %r, not (action, probability)" % (out,), "predict-shape")
                stop = True
                continue
            if idx is None:
                B("predict(%r, %r) returned action %r which is not one of the offered actions (call #%d)" % (ctx, actions, a, k), "predict-not-in-actions")
                stop = True
                continue
            if not is_real(p):
                B("predict returned probability %r" % (p,), "predict-prob-not-real")
                stop = True
                continue
            if not (0 < p <= 1 + 1e-9):
                B("predict(%r, %r) returned (%r, %r): the reported probability is not in (0,1] (call #%d)" % (ctx, actions, a, p, k), "predict-prob-not-positive" if p <= 0 else "predict-prob-above-one")
            try:
                sc = L.score(ctx, actions, a)
                if not (is_real(sc) and close(sc, p)):
                    B("predict(%r, %r) returned (%r, %r) but score of that action is %r (call #%d)" % (ctx, actions, a, p, sc, k), "predict-prob-differs-from-score")
                elif sc != p:      # self-consistent means the same double, not a neighbouring one
                    B("predict(%r, %r) returned (%r, %r) but score of that action in the same state is %r: not the same float (call #%d)" % (
                        ctx, actions, a, p, sc, k), "predict-prob-not-identical-to-score")
            except Exception as e:
                B("score of the predicted action raised %r (call #%d)" % (e, k), "score-raises-" + type(e).__name__)
            if not malformed:
                try:
                    keep.append(list(actions))
                    ref_p = shadow.score(ctx, keep[-1], keep[-1][idx])
                    if is_real(ref_p) and close(ref_p, p) and ref_p != p:
                        B("predict(%r, %r) returned (%r, %r) but an identically taught %s scores that action %r: not the same float (call #%d)" % (
                            ctx, list(actions), a, p, learner_src(spec), ref_p, k), "predict-prob-not-identical-to-policy")
                    if not (is_real(ref_p) and close(ref_p, p)):
                        B("predict(%r, %r) returned (%r, %r) but an identically taught %s gives that action probability %r (call #%d, %d calls since the last learn%s)" % (
                            ctx, list(actions), a, p, learner_src(spec), ref_p, k, since_learn, ", the same list object refilled in place" if case.get("shared_list") else ""),
                          "predict-prob-differs-from-policy")
                except Exception:
                    pass
                if len(set(ids)) == len(ids) and twin is not None:
                    try:
                        keep.append(renamed(ids))
                        ref_q = twin.score(ctx, keep[-1], keep[-1][idx])
                    except Exception:
                        ref_q = None
                    if ref_q is not None and not (is_real(ref_q) and close(ref_q, p)):
                        B("predict(%r, %r) returned (%r, %r) but the same %s taught the same rewards for consistently renamed actions gives the action at that "
                          "position probability %r (call #%d): the policy confuses or loses actions" % (ctx, list(actions), a, p, learner_src(spec), ref_q, k),
                          "predict-prob-differs-from-renamed-policy")
            last = ids[idx]
            if case.get("safe") and not safe_state_seen and not malformed:
                # theorem safe_state_after (stAfter of safe_wrapper_identity): _pred_batch 'not', _pred_kwargs False, _pred_format 'AP'
                safe_state_seen = True
                memo = (getattr(L, "_pred_batch", None), bool(getattr(L, "_pred_kwargs", None)), getattr(L, "_pred_format", None))
                tags.append("A:safe-memo-state")
                if memo != ("not", False, "AP"):
                    fails.append(F("A", "SafeLearner(%s) after its first predict(%r, %r) memoised (_pred_batch, _pred_kwargs, _pred_format) = %r, the model's stAfter is "
                                   "('not', False, 'AP')" % (learner_src(spec), ctx, list(actions), memo), "A:safe-memo-state"))
            mhist.append({"op": "predict", "actions": ids, "vals": vals_for(ids)})
            cmp.append((len(mhist) - 1, "pred", (idx, p, ids), "predict #%d" % k))
            fidx[len(mhist) - 1] = (idx, p)
        elif name == "scores":
            vec = []
            err = None
            for a in actions:
                try:
                    vec.append(L.score(ctx, actions, a))
                except Exception as e:
                    err = e
                    break
            if err is not None:
                impl.append({"op": name, "err": type(err).__name__})
                B("%s.score(%r, %r, %r) raised %r at call #%d" % (learner_src(spec), ctx, actions, a, err, k), "score-raises-" + type(err).__name__)
                mhist.append({"op": "score", "actions": ids, "a": ids[len(vec)], "vals": vals_for(ids)})
                cmp.append((len(mhist) - 1, "err", type(err).__name__, "score #%d" % k))
                stop = True
                continue
            impl.append({"op": name, "scores": [v if is_real(v) else repr(v) for v in vec]})
            if not all(is_real(v) for v in vec):
                B("score returned a non-number: %r" % (vec,), "score-not-real")
                stop = True
                continue
            if any(v < 0 for v in vec):
                B("score(%r, %r, .) = %r has a negative entry (call #%d)" % (ctx, actions, vec, k), "score-negative")
            if not malformed:
                try:
                    keep.append(list(actions))
                    ref_v = [shadow.score(ctx, keep[-1], x) for x in keep[-1]]
                    if not all(is_real(x) and close(x, y) for x, y in zip(ref_v, vec)):
                        B("score(%r, %r, .) = %r but an identically taught %s scores the same actions %r (call #%d, %d calls since the last learn%s)" % (
                            ctx, list(actions), vec, learner_src(spec), ref_v, k, since_learn, ", the same list object refilled in place" if case.get("shared_list") else ""),
                          "score-differs-from-policy")
                except Exception:
                    pass
                if len(set(ids)) == len(ids) and twin is not None:
                    try:
                        keep.append(renamed(ids))
                        ref_w = [twin.score(ctx, keep[-1], x) for x in keep[-1]]
                    except Exception:
                        ref_w = None
                    if ref_w is not None and not all(is_real(x) and close(x, y) for x, y in zip(ref_w, vec)):
                        B("score(%r, %r, .) = %r but the same %s taught the same rewards for consistently renamed actions scores them %r (call #%d): "
                          "the policy confuses or loses actions" % (ctx, list(actions), vec, learner_src(spec), ref_w, k), "score-differs-from-renamed-policy")
            if len(vec) > 1 and sum(1 for v in vec if v == max(vec)) > 1:
                tags.append("pmf:tie")
            if any(v == 0 for v in vec):
                tags.append("pmf:zero-entry")
            if eqm and lt == "ucb" and len(set(ids)) != len(ids):
                # BanditUCB over a list with equal members (theorem ucb_pmf_equal_members_partial): one entry per position, each in [0,1], total >= 1 (so a
                # position can always be drawn with a positive reported weight), and exactly a distribution once every offered action has been observed
                unobs = [i_ for i_ in ids if i_ not in observed]
                if any(v > 1 + 1e-9 for v in vec):
                    B("score(%r, %r, .) = %r has an entry above 1 (call #%d)" % (ctx, actions, vec, k), "eqm-score-above-one")
                elif sum(vec) < 1 - 1e-9:
                    B("score(%r, %r, .) = %r sums to %r < 1 over a list with equal members (call #%d)" % (ctx, actions, vec, sum(vec), k), "eqm-score-sum-below-one")
                elif not unobs and abs(sum(vec) - 1) > 1e-9:
                    B("score(%r, %r, .) = %r sums to %r, not 1, although every offered action has been observed (call #%d)" % (ctx, actions, vec, sum(vec), k),
                      "eqm-score-sum-not-one-all-observed")
                elif any(vec[i1] != vec[i2] for i1 in range(len(ids)) for i2 in range(i1 + 1, len(ids)) if ids[i1] == ids[i2]):
                    B("score(%r, %r, .) = %r gives equal members different probabilities (call #%d)" % (ctx, actions, vec, k), "eqm-equal-members-differ")
                tags.append("eqm:ucb-score-sum>1" if sum(vec) > 1 + 1e-9 else "eqm:ucb-score-sum=1")
            elif abs(sum(vec) - 1) > 1e-9:
                B("score(%r, %r, .) = %r sums to %r, not 1 (call #%d)" % (ctx, actions, vec, sum(vec), k), "score-sum-not-one")
            elif eqm and len(set(ids)) != len(ids) and any(vec[i1] != vec[i2] for i1 in range(len(ids)) for i2 in range(i1 + 1, len(ids)) if ids[i1] == ids[i2]):
                B("score(%r, %r, .) = %r gives equal members different probabilities (call #%d)" % (ctx, actions, vec, k), "eqm-equal-members-differ")
            v = vals_for(ids)
            for j_, (i, sv) in enumerate(zip(ids, vec)):
                mhist.append({"op": "score", "actions": ids, "a": i, "vals": v})
                cmp.append((len(mhist) - 1, "score", sv, "score #%d of action %d" % (k, i)))
                fidx[len(mhist) - 1] = (j_, sv)
        elif name == "score":      # a single score, possibly of an action that is not offered (malformed stream: only (A))
            aref = op["a"]
            try:
                sv = L.score(ctx, actions, resolve(case, aref))
                impl.append({"op": name, "score": sv if is_real(sv) else repr(sv)})
                kind, val = "score", sv
            except Exception as e:
                impl.append({"op": name, "err": type(e).__name__})
                kind, val = "err", type(e).__name__
                if aref[0] in ids:
                    B("score(%r, %r, %r) raised %r (call #%d)" % (ctx, actions, resolve(case, aref), e, k), "score-raises-" + type(e).__name__)
                stop = True
            if kind == "score" and aref[0] in ids and not (is_real(sv) and -1e-12 <= sv <= 1 + 1e-9):
                B("score(%r, %r, %r) = %r is not a probability (call #%d)" % (ctx, actions, resolve(case, aref), sv, k), "score-not-probability")
            mhist.append({"op": "score", "actions": ids, "a": aref[0], "vals": vals_for(ids)})
            cmp.append((len(mhist) - 1, kind, val, "score #%d" % k))
        elif name == "learn":
            n_learn += 1
            if op["a"] == "last":
                if last is None:
                    continue
                aid = last
                aval = mk_val(case["pool"][aid][op.get("alias", 0) % len(case["pool"][aid])])
            else:
                aid = op["a"][0]
                aval = resolve(case, op["a"])
            r = num(op["r"])
            if aid not in seen:
                tags.append("learn:never-offered-action")
            if not 0 <= r <= 1:
                tags.append("reward:outside-[0,1]")
            since_learn = 0
            try:
                shadow.learn(ctx, aval, r, num(op.get("p", [1, 2])))
            except Exception:
                pass
            try:
                if twin is not None:
                    twin.learn(ctx, "class-%d" % aid, r, num(op.get("p", [1, 2])))
            except Exception:
                pass
            try:
                L.learn(ctx, aval, r, num(op.get("p", [1, 2])))
                impl.append({"op": name, "ok": True})
                kind, val = "learned", True
            except Exception as e:
                impl.append({"op": name, "err": type(e).__name__})
                B("%s.learn(%r, %r, %r, .) raised %r at call #%d" % (learner_src(spec), ctx, aval, r, e, k), "learn-raises-" + type(e).__name__)
                kind, val = "err", type(e).__name__
                stop = True
            if kind == "learned":
                taught.append(misguide_float(mis, r))
                observed.add(aid)
            if mirror is not None and kind == "learned":
                mirror.learn(aid, misguide_float(mis, r))
            mhist.append({"op": "learn", "a": aid, "r": q(r)})
            cmp.append((len(mhist) - 1, kind, val, "learn #%d" % k))
    model = None
    if driver is not None and mhist:
        ans = driver.ask({"kind": "bandit", "learner": model_learner(spec), "hist": mhist})
        model = ans["outs"]
        if not malformed and not any(f["kind"] == "B" for f in fails):
            # the float-faithful pmf (every operation through flDouble) equals the implementation's doubles exactly
            pf = ans.get("pmfF", [])
            for pos, (j_, got) in sorted(fidx.items()):
                if pos < len(pf) and j_ < len(pf[pos]) and is_real(got) and Fraction(got) != unq(pf[pos][j_]):
                    fails.append(F("A", "%s call %d: probability of offered action #%d implementation %r, float-faithful model %r" % (
                        learner_src(spec), pos, j_, got, float(unq(pf[pos][j_]))), "A:%s-float-pmf" % lt))
                    break
        if not malformed:      # (C) run-time guard of the theorems: the model's own answers are what the spec demands
            for pos_, mo in enumerate(model):
                if "err" in mo:
                    fails.append(F("C", "model raises %s inside the quantifier" % mo["err"], "C:%s-err" % lt))
                elif "pred" in mo:
                    pm = [unq(x) for x in mo["pmf"]]
                    i_, p_ = mo["pred"][0], unq(mo["pred"][1])
                    ma_ = mhist[pos_]["actions"]
                    if eqm and lt == "ucb" and len(set(ma_)) != len(ma_):      # ucb_pmf_equal_members_partial: `Drawable`, not `Valid`
                        if sum(pm) < 1 or min(pm) < 0 or max(pm) > 1 or not (i_ < len(pm) and pm[i_] == p_ and p_ > 0):
                            fails.append(F("C", "model predict %s over a list with equal members is not drawable" % json.dumps(mo), "C:ucb-eqm-pred"))
                    elif sum(pm) != 1 or min(pm) < 0 or not (i_ < len(pm) and pm[i_] == p_ and p_ > 0):
                        fails.append(F("C", "model predict %s is not (index, pmf[index] > 0) of a distribution" % json.dumps(mo), "C:%s-pred" % lt))
                elif "score" in mo and unq(mo["score"]) < 0:
                    fails.append(F("C", "model score negative", "C:%s-score" % lt))
        for pos, kind, val, desc in cmp:
            if pos >= len(model):
                fails.append(F("A", "%s: the model stopped earlier (%s)" % (desc, json.dumps(model[-1:])), "A:%s-model-stopped" % lt))
                break
            mo = model[pos]
            d = None
            if kind == "err":
                if mo.get("err") != val:
                    d = "implementation raised %s, model %s" % (val, json.dumps(mo))
            elif "err" in mo:
                d = "model raises %s, implementation returned %r" % (mo["err"], val)
            elif kind == "pred":
                mi, mp = mo["pred"][0], unq(mo["pred"][1])
                if (mi >= len(val[2]) or val[2][mi] != val[2][val[0]]) and lt != "random" and not malformed and pos < len(ans.get("pmfF", [])):
                    # the model draws with the exact pmf, the implementation with the doubles: when the uniform sits on a cumulative boundary
                    # (e.g. u = 1/2 exactly) the two can differ; the implementation's choice is then re-derived from the float-faithful pmf
                    n_draws = sum(1 for p_, k_, _, _ in cmp if k_ == "pred" and p_ <= pos)
                    st_ = spec["seed"] % M_
                    for _ in range(n_draws):
                        st_ = (A_ * st_ + C_) % M_
                    w_ = [fnum(x) for x in ans["pmfF"][pos]]
                    r_ = (st_ / M_) * sum(w_)
                    acc_, exp_i = 0.0, None
                    for i_, x_ in enumerate(w_):
                        acc_ = x_ if i_ == 0 else acc_ + x_
                        if r_ < acc_:
                            exp_i = i_
                            break
                    if exp_i == val[0]:
                        tags.append("choice:uniform-on-cumulative-boundary")
                        mi = val[0]
                        mp = unq(mo["pmf"][mi])
                if mi >= len(val[2]) or val[2][mi] != val[2][val[0]]:      # compared as actions (an action listed twice has two indexes)
                    d = "chosen index: implementation %d, model %d (model pmf %s)" % (val[0], mi, [float(unq(x)) for x in mo["pmf"]])
                elif not close(float(mp), val[1]):
                    d = "reported probability: implementation %r, model %r (compared at 1e-9)" % (val[1], float(mp))
            elif kind == "score":
                if not close(float(unq(mo["score"])), val):
                    d = "score: implementation %r, model %r (compared at 1e-9)" % (val, float(unq(mo["score"])))
            if d:
                fails.append(F("A", "%s %s: %s" % (learner_src(spec), desc, d), "A:%s-%s" % (lt, kind)))
                break
    if driver is not None and taught and all(math.isfinite(x) for x in taught):
        # coba.statistics.OnlineVariance on the taught rewards = the model's Welford recurrence through flDouble (compared at 1e-12)
        from coba.statistics import OnlineVariance
        ov = OnlineVariance()
        for x in taught:
            ov.update(x)
        mv = driver.ask({"kind": "welford", "xs": [q(float(x)) for x in taught]})["var"]
        got = ov.variance
        if any(abs(x) >= 1e6 for x in taught):
            tags.append("reward:large-offset")
        if (mv is None) != (isinstance(got, float) and math.isnan(got)) or (mv is not None and not close(float(unq(mv)), got, 1e-12, 0)):
            fails.append(F("A", "OnlineVariance over %s: implementation %r, model %s" % (taught[:8], got, None if mv is None else float(unq(mv))), "A:online-variance"))
    nontrivial = n_pred >= 1 and n_learn >= 1 and maxn >= 2 and len(case["hist"]) >= 3
    return {"fails": fails, "nontrivial": nontrivial, "tags": sorted(set(tags)), "impl": impl, "model": model}


# ---------------------------------------------------------------- action lists with EQUAL members (round g, C05-gm2)
def mk_dup_learner(spec, safe=False):
    """learners whose pmf is a given vector over the POSITIONS of the offered list (so equal members may carry different weights)"""
    from coba.learners.utilities import PMFPredictor, PMFInfoPredictor
    t = spec["type"]
    w = [num(p) for p in spec.get("pmf", [])]
    if t == "pmfpred":
        L = PMFPredictor(lambda c, A: w, spec["seed"])
    elif t == "pmfinfo":
        L = PMFInfoPredictor(lambda c, A: (w, {"k": 1}), spec["seed"])
    else:
        L = mk_learner(spec)
    if safe:
        from coba.safety import SafeLearner
        L = SafeLearner(L)
    return L


def dup_src(spec, safe=False):
    w = [num(p) for p in spec.get("pmf", [])]
    if spec["type"] == "pmfpred":
        s_ = "PMFPredictor(lambda c, A: %r, %r)" % (w, spec["seed"])
    elif spec["type"] == "pmfinfo":
        s_ = "PMFInfoPredictor(lambda c, A: (%r, {'k': 1}), %r)" % (w, spec["seed"])
    else:
        s_ = learner_src(spec)
    return "SafeLearner(%s)" % s_ if safe else s_


def run_dups(case, driver):
    """An offered list may contain EQUAL members (the same feature vector twice, or 1 / 1.0 / True). The learners whose policy is a weight vector over
    the positions of the list (Fixed, Random, PMFPredictor / PMFInfoPredictor themselves) must still return one of the offered objects together with the
    weight of the position that was sampled, which is never 0. (score() identifies an action by ==, i.e. the first equal member: it is not consulted here.)"""
    spec = case["learner"]
    lt = spec["type"]
    safe = bool(case.get("safe"))
    fails, tags, impl = [], ["kind:dups", "learner:" + lt + ("+safe" if safe else "") + ("+mis" if spec.get("mis") else "")], []
    L = mk_dup_learner(spec, safe)
    mhist, cmp = [], []
    last = None
    n_pred = 0

    def B(what, sig):
        fails.append(F("B", what, "dups-%s-%s" % (lt, sig)))

    actions = None
    for k, op in enumerate(case["hist"]):
        if op["op"] == "learn":
            if last is None or not hasattr(L, "learn"):
                continue
            try:
                L.learn(None, last[1], num(op["r"]), last[2])
            except Exception as e:
                B("%s.learn(None, %r, %r, %r) raised %r (call #%d)" % (dup_src(spec, safe), last[1], num(op["r"]), last[2], e, k), "learn-raises-" + type(e).__name__)
                break
            mhist.append({"op": "learn", "a": last[0], "r": q(num(op["r"]))})
            continue
        refs = op["actions"]
        ids = [r[0] for r in refs]
        actions = None
        actions = [resolve(case, r) for r in refs]
        n = len(actions)
        w = [num(p) for p in spec["pmf"]] if lt != "random" else [1 / n] * n
        n_pred += 1
        try:
            out = L.predict(None, actions)
        except Exception as e:
            B("%s.predict(None, %r) raised %r (call #%d)" % (dup_src(spec, safe), actions, e, k), "predict-raises-" + type(e).__name__)
            break
        if not (isinstance(out, tuple) and len(out) >= 2):
            B("predict returned %r" % (out,), "predict-shape")
            break
        a, p = out[0], out[1]
        J = [j for j, x in enumerate(actions) if x is a]
        if safe and not J:       # SafeLearner hands its learner a private copy of the list (ints 0/1 as floats; kept while the offered lists compare equal)
            J = [j for j, x in enumerate(actions) if find_idx([x], a) == 0]
        impl.append({"op": "predict", "pos": J, "p": p if is_real(p) else repr(p)})
        if not J:
            B("predict(None, %r) returned %r, which is none of the offered objects (call #%d)" % (actions, a, k), "predict-not-an-offered-object")
            break
        dup_cls = len([i for i in ids if i == ids[J[0]]])
        tags.append("drawn:member-with-an-equal-twin" if dup_cls > 1 else "drawn:unique-member")
        if dup_cls > 1 and J[0] != ids.index(ids[J[0]]):
            tags.append("drawn:later-equal-member")
        if len(J) > 1:
            tags.append("drawn:same-object-offered-twice")
        if not is_real(p) or p <= 0:
            B("%s.predict(None, %r) returned (%r, %r): the played action is reported with probability %r although position %s was drawn with weight %s "
              "(weights by position %s; call #%d)" % (dup_src(spec, safe), actions, a, p, p, J, [w[j] for j in J], w, k), "predict-prob-not-positive")
            break
        if not any(p == w[j] for j in J):
            B("%s.predict(None, %r) returned (%r, %r) but the weight of the drawn position %s is %s (weights by position %s; call #%d): the reported "
              "probability is that of another, merely equal, member" % (dup_src(spec, safe), actions, a, p, J, [w[j] for j in J], w, k), "predict-prob-of-another-member")
            break
        last = (ids[J[0]], a, p)
        mhist.append({"op": "predict", "actions": ids, "vals": []})
        cmp.append((len(mhist) - 1, J, p, ids, k))
    model = None
    if driver is not None and mhist and not any(f["kind"] == "B" for f in fails):
        mspec = dict(spec, type="random" if lt == "random" else "fixed")
        model = driver.ask({"kind": "bandit", "learner": model_learner(mspec), "hist": mhist})["outs"]
        for pos, J, p, ids, k in cmp:
            mo = model[pos] if pos < len(model) else {"err": "stopped"}
            if "pred" not in mo:
                fails.append(F("A", "%s predict #%d: model %s" % (dup_src(spec, safe), k, json.dumps(mo)), "A:dups-model"))
                break
            if mo["pred"][0] not in J and not (mo["pred"][0] < len(ids) and ids[mo["pred"][0]] == ids[J[0]] and close(float(unq(mo["pred"][1])), p)):
                fails.append(F("A", "%s predict #%d: drawn position implementation %s, model %d" % (dup_src(spec, safe), k, J, mo["pred"][0]), "A:dups-index"))
                break
            if not close(float(unq(mo["pred"][1])), p):
                fails.append(F("A", "%s predict #%d: probability implementation %r, model %r" % (dup_src(spec, safe), k, p, float(unq(mo["pred"][1]))), "A:dups-prob"))
                break
    return {"fails": fails, "nontrivial": n_pred >= 2 and "drawn:member-with-an-equal-twin" in tags, "tags": sorted(set(tags)), "impl": impl, "model": model}


def gen_dups(rng, tier):
    """a list of n positions filled from fewer classes (each repeated class in different spellings where it has them), weights by position"""
    pool = gen_pool(rng, 4)
    n = rng.randint(2, 6)
    cls = [rng.below(len(pool)) for _ in range(n)]
    cls[rng.below(n - 1) + 1] = cls[0]           # at least one equal pair
    refs = []
    for c in cls:
        used = [r[1] for r in refs if r[0] == c]
        free = [j for j in range(len(pool[c])) if j not in used]
        refs.append([c, rng.choice(free) if free and rng.chance(0.8) else rng.below(len(pool[c]))])
    lt = rng.choice(["fixed", "fixed", "pmfpred", "pmfinfo", "random"])
    kind = rng.below(3)
    if kind == 0:
        pmf = [[0, 1]] * n
        pmf[max(j for j, c in enumerate(cls) if c == cls[0])] = [1, 1]        # all weight on the LAST of the equal members
    elif kind == 1:
        cuts = sorted(rng.randint(0, 16) for _ in range(n - 1))
        pts = [0] + cuts + [16]
        pmf = [q(Fraction(b - a, 16)) for a, b in zip(pts[:-1], pts[1:])]
    else:
        pmf = [[0, 1]] + [q(Fraction(1, 2 ** min(j, n - 2))) for j in range(1, n)]      # first member never played
    spec = {"type": lt, "seed": rng.choice([0, 1, 2, 3, 5, 7, rng.randint(0, 10 ** 6), seed_for(1, M_ - 1), seed_for(2, M_ - 1)])}
    if lt != "random":
        spec["pmf"] = pmf
    if lt == "fixed" and rng.chance(0.2):
        spec["mis"] = [[q(0.5), q(-1)]]
    hist = []
    for _ in range(rng.choice([2, 4, 8, 12])):
        hist.append({"op": "predict", "actions": rng.shuffle(refs) if rng.chance(0.2) and lt == "random" else refs})
        if rng.chance(0.5):
            hist.append({"op": "learn", "a": "last", "r": gen_reward(rng, False)})
    case = {"t": "dups", "learner": spec, "pool": pool, "hist": hist}
    if lt in ("fixed", "random") and rng.chance(0.3):
        case["safe"] = True
    return case


def snippet_dups(case):
    spec = case["learner"]
    lines = ["import sys, os, math; sys.path.insert(0, os.environ.get('COBA_REPO', '/repo'))", "from coba.learners import *", "from coba.learners import MisguidedLearner",
             "from coba.learners.utilities import PMFPredictor, PMFInfoPredictor; from coba.safety import SafeLearner", SNIPPET_IMPORTS,
             "L = " + dup_src(spec, bool(case.get("safe"))), "W = %r   # the policy's weights by position (None: uniform)" % ([num(p) for p in spec["pmf"]] if "pmf" in spec else None)]
    for op in case["hist"]:
        if op["op"] == "predict":
            lit = lambda d: "tuple(%r)" % (list(mk_val(d)),) if d[0] == "t" else py_lit(d)      # equal tuple literals would be folded into ONE object
            lines += ["A = [" + ", ".join(lit(case["pool"][r[0]][r[1]]) for r in op["actions"]) + "]", "out = L.predict(None, A); a, p = out[0], out[1]",
                      "J = [j for j, x in enumerate(A) if x is a or (type(a) is float and type(x) is int and x == a)]; print('drawn position', J, 'reported', p)",
                      "assert J and p > 0 and (W is None or p in [W[j] for j in J]), (a, p)"]
        else:
            lines += ["if hasattr(L, 'learn'): L.learn(None, a, %r, p)" % num(op["r"])]
    return "\n".join(lines) + "\n"


# ---------------------------------------------------------------- Corral histories
def corral_T(case):
    return math.inf if case["T"] == "inf" else num(case["T"])


def mk_corral(case):
    from coba.learners import CorralLearner
    recs = [Rec(mk_learner(b)) for b in case["bases"]]
    c = CorralLearner(recs, eta=num(case["eta"]), T=corral_T(case), mode=case["mode"], seed=case["seed"])
    return c, recs, wrap_mis(c, case.get("mis", []))


def corral_src(case):
    s = "CorralLearner([%s], eta=%r, T=%s, mode=%r, seed=%r)" % (", ".join(learner_src(b) for b in case["bases"]), num(case["eta"]),
                                                                  "math.inf" if case["T"] == "inf" else repr(num(case["T"])), case["mode"], case["seed"])
    for sh, sc in reversed(case.get("mis", [])):
        s = "MisguidedLearner(%s, %r, %r)" % (s, num(sh), num(sc))
    return s


def corral_state(c, rng):
    T = None
    return {"ps": [q(float(x)) for x in c._ps], "pbars": [q(float(x)) for x in c._p_bars], "etas": [q(float(x)) for x in c._etas],
            "rhos": [q(float(x)) for x in c._rhos], "rng": rng}


def weights_ok(c):
    """(B) Corral's weights are a strictly positive distribution to 1e-4"""
    bad = []
    for nm, w in (("weights", c._ps), ("smoothed weights", c._p_bars)):
        if not all(is_real(x) for x in w):
            bad.append(("%s are not finite numbers: %r" % (nm, list(w)), "weights-not-real"))
        elif min(w) <= 0:
            bad.append(("%s are not strictly positive: %r" % (nm, list(w)), "weight-not-positive"))
        elif abs(sum(w) - 1) > 1e-4:
            bad.append(("%s sum to %r, not 1 within 1e-4: %r" % (nm, sum(w), list(w)), "weights-sum"))
    return bad


FLOAT_RUN_MAX = 30          # (cost) learn calls per history led through the float-faithful model


def float_run_check(driver, st0, fl_ops, fl_states, fails, tags):
    """(A) phase 5: ONE run of `runCF flDouble` (Corral.learnF: instant losses, float root search, normalisation, p-bar smoothing, eta/rho schedule, every
    operation rounded to binary64) from the initial state against the implementation's _ps / _p_bars / _etas / _rhos after every learn of the history.
    Expected bit for bit; a difference below 1e-12 (relative) ends the comparison (later rounds start from different doubles), a larger one is reported."""
    ans = driver.ask({"kind": "corral_runF", "state": st0, "ops": fl_ops})
    outs = ans["outs"]
    tags.append("A:corral-float-whole-history")
    tags.append("float-run:rounds>=10" if len(fl_ops) >= 10 else "float-run:rounds<10")
    exact = True
    for k, (mo, got) in enumerate(zip(outs, fl_states)):
        if "err" in mo:
            fails.append(F("A", "learn #%d: the float-faithful model of CorralLearner.learn raises %s, the implementation did not" % (k, mo["err"]), "A:corral-float-learn-err"))
            return
        if not mo["halted"]:
            fails.append(F("C", "model: the float root search did not leave by its own exits (learn #%d)" % k, "C:corral-search-fuel"))
        for key, nm in (("ps", "_ps"), ("pbars", "_p_bars"), ("etas", "_etas"), ("rhos", "_rhos")):
            exp = [unq(v) for v in mo[key]]
            if exp == got[key]:
                continue
            exact = False
            if len(exp) != len(got[key]) or any(not close(float(g), float(e), 1e-12, 0) for g, e in zip(got[key], exp)):
                fails.append(F("A", "learn #%d (base choices %s, action %s, reward %r, probability %r): %s implementation %s, float-faithful model %s" % (
                    k, fl_ops[k]["bacts"], fl_ops[k]["a"], fnum(fl_ops[k]["r"]), fnum(fl_ops[k]["p"]), nm, [float(g) for g in got[key]], [float(e) for e in exp]),
                    "A:corral-float-" + key))
                return
        if k > 0 and got["etas"] != fl_states[k - 1]["etas"]:
            tags.append("float-run:eta-rho-updated")
        if min(got["pbars"]) < Fraction(1, 1000):
            tags.append("float-run:pbar<1e-3")
        if not exact:
            tags.append("float-run:ulp-difference(comparison-ended)")
            return
    if len(outs) != len(fl_states):
        fails.append(F("A", "the float-faithful model stopped after %d of %d learn calls" % (len(outs), len(fl_states)), "A:corral-float-learn-err"))
        return
    tags.append("float-run:bit-exact")
    # (C) the theorem's conclusion on the model's own float states: strictly positive, sums within 1e-4
    for k, mo in enumerate(outs):
        ps_, pb_, et_ = [unq(v) for v in mo["ps"]], [unq(v) for v in mo["pbars"]], [unq(v) for v in mo["etas"]]
        if min(ps_) <= 0 or min(pb_) <= 0 or min(et_) <= 0 or abs(sum(ps_) - 1) > Fraction(1, 10000) or abs(sum(pb_) - 1) > Fraction(1, 10000):
            fails.append(F("C", "model: float Corral state after learn #%d is not in the float simplex" % k, "C:corral-float-simplex"))
            return


def run_corral(case, driver):
    fails, tags, impl = [], ["kind:corral", "mode:" + case["mode"], "T:" + str(case["T"] if case["T"] == "inf" else num(case["T"])),
                             "M:%d" % len(case["bases"])], []
    mis = case.get("mis", [])
    if mis:
        tags.append("misguided-corral")
    eta = num(case["eta"])
    T = corral_T(case)
    gamma = 1 / T
    beta = 1 / math.exp(1 / math.log(T))
    for b in case["bases"]:
        tags.append("base:" + b["type"] + ("+mis" if b.get("mis") else ""))
        if b["type"] == "corral":
            tags.append("nested:%s-over-%s" % (case["mode"], b["mode"]))
    c, recs, top = mk_corral(case)
    # reference for the policy: the same composition asked / taught the same history with every action RENAMED (class k -> 'class-k'); the position
    # it plays and the probability it reports cannot depend on how actions are spelt, hashed or compared (all randomness comes from the fixed seeds)
    try:
        twin = mk_corral(case)[2] if case.get("twin", True) else None
    except Exception:
        twin = None
    inner = []            # (index, the CorralLearner inside base learner #index)
    for j, r_ in enumerate(recs):
        x = r_.inner
        while hasattr(x, "_learner"):
            x = x._learner
        if hasattr(x, "_ps") and hasattr(x, "_p_bars"):
            inner.append((j, x))
    M = len(recs)
    # benign = learning rate at most 1 and every update so far used the probability the learner's own pmf gives the action
    benign = eta <= 1
    tags.append("eta<=1" if eta <= 1 else "eta>1")

    def B(what, sig):
        fails.append(F("B", what, "corral-%s-%s" % (sig, "benign" if benign else "extreme")))

    rng = None
    st0 = None
    if driver is not None:
        st0 = driver.ask({"kind": "corral_init", "M": M, "eta": q(eta), "gamma": q(gamma), "beta": q(beta), "imp": case["mode"] == "importance",
                          "seed": seed_json(case["seed"] * 1.234)})["state"]
        rng = st0["rng"]
        mine = corral_state(c, rng)
        for key in ("ps", "pbars", "etas", "rhos"):
            if [unq(x) for x in st0[key]] != [unq(x) for x in mine[key]]:
                fails.append(F("A", "initial %s: implementation %s, model %s" % (key, mine[key], st0[key]), "A:corral-init"))

    def full_state():
        s = corral_state(c, rng)
        s.update({"gamma": q(gamma), "beta": q(beta), "imp": case["mode"] == "importance"})
        return s

    def A(what, sig):
        fails.append(F("A", what, "A:corral-" + sig))

    rounds = 0
    actions = None
    fl_ops, fl_states = [], []      # phase 5: every learn call / the implementation's (_ps, _p_bars, _etas, _rhos) after it, as exact rationals
    played = []           # (index of the learnt action, probability, reward) of every completed round, for the whole-history tower run
    a_on = driver is not None
    for k, op in enumerate(case["hist"]):
        refs = op["actions"]
        ids = [r[0] for r in refs]
        actions = None      # the caller drops its list before it builds the next one (CPython then reuses the address)
        actions = [resolve(case, r) for r in refs]
        if any(type(x) is int and x in (0, 1) for x in actions):
            tags.append("actions:int-0/1-offered")
        ctx = mk_val(op.get("ctx", ["n", None]))
        tags.append("n:%d" % min(len(actions), 6))
        for r_ in refs:
            d_ = case["pool"][r_[0]][r_[1]]
            if d_[0] == "w":
                tags.append("rows:" + d_[1])
        if len(set(ids)) != len(ids):
            twin = None
        elif hash_colliding(actions):
            tags.append("actions:hash-colliding-distinct")
        if str_colliding(actions):
            tags.append("actions:str-colliding-distinct")
        names = renamed(ids)
        # ---- score of one action (draws from the base learners)
        if op.get("score") is not None:
            sa = op["score"] % len(actions)
            if twin is not None:
                try:
                    twin.score(ctx, names, names[sa])
                except Exception:
                    twin = None
            for r_ in recs:
                r_.preds.clear()
            try:
                sv = top.score(ctx, actions, actions[sa])
            except Exception as e:
                B("%s.score(%r, %r, %r) raised %r in round %d" % (corral_src(case), ctx, actions, actions[sa], e, k), "score-raises-" + type(e).__name__)
                break
            impl.append({"op": "score", "v": sv if is_real(sv) else repr(sv)})
            if not (is_real(sv) and 0 <= sv <= 1 + 2e-4):
                B("score(%r, %r, %r) = %r is not a probability (round %d)" % (ctx, actions, actions[sa], sv, k), "score-not-probability")
            elif a_on and all(len(r_.preds) == 1 for r_ in recs):
                bidx = [find_idx(r_.preds[0][0], r_.preds[0][1][0]) for r_ in recs]
                if all(i is not None for i in bidx):
                    ans = driver.ask({"kind": "corral", "state": full_state(), "op": {"op": "score", "actions": ids, "bacts": [ids[i] for i in bidx], "a": ids[sa]}})
                    mo = ans["out"]
                    if "err" in mo or not close(float(unq(mo["score"])), sv):
                        A("round %d score: implementation %r, model %s" % (k, sv, json.dumps(mo)), "score")
        # ---- predict
        for r_ in recs:
            r_.preds.clear()
            r_.learns.clear()
        pbars = [float(x) for x in c._p_bars]
        try:
            out = top.predict(ctx, actions)
        except Exception as e:
            B("%s.predict(%r, %r) raised %r in round %d" % (corral_src(case), ctx, actions, e, k), "predict-raises-" + type(e).__name__)
            break
        if not (isinstance(out, tuple) and len(out) == 3 and isinstance(out[2], dict) and "info" in out[2]):
            B("predict returned %r, not (action, probability, {'info':…})" % (out,), "predict-shape")
            break
        a, p, info = out
        idx = find_idx(actions, a)
        bacts_v = list(info["info"][0])
        bidx = [find_idx(actions, x) for x in bacts_v]
        impl.append({"op": "predict", "idx": idx, "p": p if is_real(p) else repr(p), "base": bidx})
        if idx is None:
            B("predict(%r, %r) returned action %r which is not offered (round %d)" % (ctx, actions, a, k), "predict-not-in-actions")
            break
        if any(i is None for i in bidx):
            B("a base learner of Corral chose %r, not among the offered %r (round %d)" % (bacts_v, actions, k), "base-not-in-actions")
            break
        if k == 0 and a_on:
            # theorem safe_state_after: what the SafeLearner around every base learner has memoised after its first predict (kwargs exactly for a nested Corral's info)
            tags.append("A:safe-memo-state")
            for j, sl in enumerate(getattr(c, "_base_lrns", [])):
                memo = (getattr(sl, "_pred_batch", None), bool(getattr(sl, "_pred_kwargs", None)), getattr(sl, "_pred_format", None))
                if memo != ("not", case["bases"][j]["type"] == "corral", "AP"):
                    A("the SafeLearner around base learner %d (%s) memoised (_pred_batch, _pred_kwargs, _pred_format) = %r after its first predict, the model's stAfter is %r" % (
                        j, learner_src(case["bases"][j]), memo, ("not", case["bases"][j]["type"] == "corral", "AP")), "safe-memo-state")
                    break
        pmf = [sum([pb * int(bi == i) for pb, bi in zip(pbars, bidx)]) for i in range(len(actions))]      # the source's own expression
        if not is_real(p) or p <= 0:
            B("predict(%r, %r) reported probability %r for %r (round %d)" % (ctx, actions, p, a, k), "predict-prob-not-positive")
            break
        if not close(p, pmf[idx], 1e-9):
            B("predict reported probability %r for %r but the mixture of the base learners' choices gives it %r (round %d)" % (p, a, pmf[idx], k), "predict-prob-differs-from-mixture")
        elif p != pmf[idx]:
            B("predict reported probability %r for %r but the mixture of the base learners' choices (smoothed weights %s) is %r: not the same float (round %d)" % (
                p, a, pbars, pmf[idx], k), "predict-prob-not-identical-to-mixture")
        tinfo = None
        if twin is not None:
            try:
                ta, tp, tinfo = twin.predict(ctx, names)
                ti = names.index(ta)
            except Exception:
                twin = None
            if twin is not None and (ti != idx or not (is_real(tp) and close(tp, p))):
                B("predict(%r, %r) returned (%r, %r) [position %d] but the same %s led through the same history with consistently renamed actions plays position %d "
                  "with probability %r (round %d): the policy confuses or loses actions" % (ctx, actions, a, p, idx, corral_src(case), ti, tp, k),
                  "predict-differs-from-renamed-policy")
                break
        if a_on:
            ans = driver.ask({"kind": "corral", "state": full_state(), "op": {"op": "predict", "actions": ids, "bacts": [ids[i] for i in bidx]}})
            mo = ans["out"]
            if "err" in mo:
                A("round %d predict: model raises %s, implementation returned (%r,%r)" % (k, mo["err"], a, p), "predict")
            else:
                rng = ans["state"]["rng"]
                if mo["pred"][0] != idx:
                    A("round %d predict: chosen index implementation %d, model %d (pmf %s)" % (k, idx, mo["pred"][0], pmf), "predict-index")
                elif not close(float(unq(mo["pred"][1])), p):
                    A("round %d predict: probability implementation %r, model %r" % (k, p, float(unq(mo["pred"][1]))), "predict-prob")
        # ---- which (action, probability) is learnt
        how = op.get("how", "on")
        tags.append("how:" + how)
        if how == "least":
            la = min((v, i) for i, v in enumerate(pmf) if v > 0)[1]
            lp = pmf[la]
        elif how == "logged":
            la = op["la"] % len(actions)
            lp = num(op["lp"])
            if not (pmf[la] > 0 and close(lp, pmf[la])):
                benign = False
        else:
            la, lp = idx, p
        r = num(op["r"])
        r_in = misguide_float(mis, r)
        if not (0 <= r_in <= 1):
            tags.append("reward-outside-unit-interval")   # outside the quantifier: Corral requires [0,1]
            break
        # a base learner that is itself a Corral requires rewards in [0,1]: in importance mode the outer Corral hands it
        # reward*1[A==action]/probability, which can exceed 1 -> that round is outside the quantifier (not run, not judged)
        outside = False
        for j, b in enumerate(case["bases"]):
            if b["type"] == "corral":
                rj = (r_in * int(bidx[j] == la) / lp) if case["mode"] == "importance" else r_in
                rj = misguide_float(b.get("mis", []), rj)
                if not (0 <= rj <= 1):
                    outside = True
        before = full_state() if a_on else None
        nested_before = None
        if a_on and inner:
            # the states of the nested Corrals (and the info of their last predict) for the composite model `tower 2`
            nested_before = [{"leaf": True} for _ in case["bases"]]
            for j, x in inner:
                b = case["bases"][j]
                try:
                    iinfo = recs[j].preds[-1][1][2]["info"]
                    iacts = [find_idx(actions, v) for v in iinfo[0]]
                except Exception:
                    iacts = [None]
                if any(i is None for i in iacts):
                    nested_before = None
                    break
                Tj = math.inf if b["T"] == "inf" else num(b["T"])
                stj = corral_state(x, 0)
                stj.update({"gamma": q(1 / Tj), "beta": q(1 / math.exp(1 / math.log(Tj))), "imp": b["mode"] == "importance"})
                nested_before[j] = {"mis": b.get("mis", []), "state": stj, "lastActs": [ids[i] for i in iacts],
                                    "lastProbs": [q(float(v)) for v in iinfo[1]]}
        bprobs = list(info["info"][1])
        binfos = list(info["info"][2])
        if a_on and nested_before is not None:
            # phase 5: the decidable recursive predicate `acceptsB` (= the forced hypothesis `accepts` of corral_nested_valid, theorem accepts_iff_acceptsB)
            # against the harness's own reading of "every nested Corral is handed a reward in [0,1]" and, below, against the real learn
            acc = driver.ask({"kind": "accepts", "a": ids[la], "r": q(r), "p": q(lp),
                              "node": {"mis": mis, "state": before, "lastActs": [ids[i] for i in bidx],
                                       "lastProbs": [q(float(x)) for x in bprobs], "bases": nested_before}})
            tags.append("A:accepts-predicate:%s:%s" % (case["mode"], "accepted" if acc["accepts"] else "rejected"))
            if acc["accepts"] == outside:
                A("round %d: model acceptsB = %r for learn(action %d, r=%r, p=%r) but the rewards handed to the nested Corrals are %s [0,1]" % (
                    k, acc["accepts"], la, r, lp, "outside" if outside else "inside"), "accepts")
            if acc["accepts"] and acc["learn_err"] is not None:
                fails.append(F("C", "model: the tower accepts the feedback but its learn raises %s" % acc["learn_err"], "C:corral-accepts"))
            if not acc["accepts"]:
                # phase 6, theorem rejected_feedback_raises: rejected feedback makes the model's learn raise, and only the Corral's own assert / the division by p
                tags.append("C:rejected-feedback-raises:%s" % acc["learn_err"])
                if acc["learn_err"] not in ("AssertionError", "ZeroDivisionError"):
                    fails.append(F("C", "model: the tower rejects the feedback but its learn %s" % (
                        "returns" if acc["learn_err"] is None else "raises " + acc["learn_err"]), "C:corral-rejects"))
            if outside and not acc["accepts"]:
                # outside the property's quantifier (not judged by (B)); the model says the composition REJECTS this feedback: the real learn must raise
                # the inner Corral's AssertionError
                raised = None
                try:
                    with step_limit(case.get("step_timeout", 5)):
                        top.learn(ctx, actions[la], r, lp, **info)
                except AssertionError:
                    raised = "AssertionError"
                except BaseException as e:
                    raised = type(e).__name__
                if raised != "AssertionError" and acc["learn_err"] == "AssertionError":
                    A("round %d: the model rejects learn(action %d, r=%r, p=%r) (an inner Corral is handed a reward outside [0,1]: AssertionError) but the "
                      "implementation %s" % (k, la, r, lp, "returned" if raised is None else "raised " + raised), "accepts-impl")
        if outside:
            tags.append("nested:inner-corral-reward-outside-unit-interval")
            break
        try:
            with step_limit(case.get("step_timeout", 5)):
                top.learn(ctx, actions[la], r, lp, **info)
        except StepTimeout:
            B("%s.learn(%r, %r, %r, %r, info) did not return within %ss in round %d (weights before: %s)" % (
                corral_src(case), ctx, actions[la], r, lp, case.get("step_timeout", 5), k, [fnum(x) for x in corral_state(c, 0)["ps"]]), "learn-hangs")
            impl.append({"op": "learn", "err": "timeout"})
            break
        except Exception as e:
            B("%s.learn(%r, %r, %r, %r, info) raised %r in round %d" % (corral_src(case), ctx, actions[la], r, lp, str(e)[:160], k), "learn-raises-" + type(e).__name__)
            impl.append({"op": "learn", "err": type(e).__name__})
            break
        if twin is not None:
            try:
                twin.learn(ctx, names[la], r, lp, **tinfo)
            except Exception:
                twin = None
        rounds += 1
        played.append((la, lp, r))
        impl.append({"op": "learn", "ps": [float(x) if is_real(x) else repr(x) for x in c._ps]})
        if len(fl_ops) < FLOAT_RUN_MAX and all(is_real(x) for w_ in (c._ps, c._p_bars, c._etas, c._rhos) for x in w_):
            # phase 5: the whole history of learn calls for the float-faithful model `runCF flDouble` (compared after the loop)
            fl_ops.append({"bacts": [ids[i] for i in bidx], "a": ids[la], "r": q(r_in), "p": q(lp)})
            fl_states.append({"ps": [Fraction(x) for x in c._ps], "pbars": [Fraction(x) for x in c._p_bars], "etas": [Fraction(x) for x in c._etas],
                              "rhos": [Fraction(x) for x in c._rhos]})
        bad = weights_ok(c)
        for j, x in inner:
            if not bad:
                bad = [("(base learner %d, a nested Corral) %s" % (j, w_), "nested-" + sg_) for w_, sg_ in weights_ok(x)]
        # every base learner gets back exactly the kwargs its own predict returned (a nested Corral needs its `info`)
        for j, r_ in enumerate(recs):
            if len(r_.learns) == 1 and j < len(binfos) and r_.learns[0][3] != binfos[j]:
                A("round %d: base learner %d predicted with kwargs %s but was taught with kwargs %s" % (k, j, sorted(binfos[j]), sorted(r_.learns[0][3])), "feedback-kwargs")
        if bad:
            for what, sig in bad[:1]:
                B("after round %d of %s (learn(%r, %r, %r, %r)) Corral's %s" % (k, corral_src(case), ctx, actions[la], r, lp, what), sig)
            break
        if a_on:
            L_max = (1 - r_in) / lp
            eta_max = max(float(x) for x in c._etas)
            illcond = L_max * max(eta_max, fnum(before["etas"][0])) > 1e9 or min(fnum(x) for x in before["ps"]) < 1e-9
            ans = driver.ask({"kind": "corral", "state": before, "op": {"op": "learn", "bacts": [ids[i] for i in bidx], "a": ids[la], "r": q(r_in), "p": q(lp),
                                                                          "bprobs": [q(float(x)) for x in bprobs]}})
            mo = ans["out"]
            if "err" in mo:
                A("round %d learn: model raises %s, implementation did not" % (k, mo["err"]), "learn-err")
            else:
                # feedback to the base learners
                fb = ans["feedback"]
                for j, (r_, f_) in enumerate(zip(recs, fb)):
                    if len(r_.learns) != 1:
                        A("round %d: base learner %d was taught %d times" % (k, j, len(r_.learns)), "feedback-count")
                        break
                    ga, gr, gp, gkw = r_.learns[0]
                    gi = find_idx(actions, ga)
                    exp_id, exp_r, exp_p = f_[0], float(unq(f_[1])), float(unq(f_[2]))
                    base_mis = case["bases"][j].get("mis", [])
                    if gi is None or ids[gi] != exp_id or not close(gr, exp_r) or not close(gp, exp_p):
                        A("round %d: base learner %d was taught (%r,%r,%r), model (%d,%r,%r)" % (k, j, ga, gr, gp, exp_id, exp_r, exp_p), "feedback")
                        break
                # the float-faithful model of _log_barrier_omd (same loop on the double carrier, every operation rounded): compared at 1e-12
                def omd_exact(tag_, ps0, etas0, losses, got):
                    mo_ = driver.ask({"kind": "omdF", "ps": ps0, "etas": etas0, "losses": [q(float(v)) for v in losses]})
                    if "err" in mo_:
                        A("round %d %s: float-faithful model of _log_barrier_omd fails (%s), the implementation returned %s" % (k, tag_, mo_["err"], got), "omd-float")
                        return
                    if not mo_["halted"]:
                        fails.append(F("C", "model: the bisection on the double carrier did not leave by its own exits", "C:corral-search-fuel"))
                    exp_ = [float(unq(v)) for v in mo_["ps"]]
                    if len(exp_) != len(got) or any(not close(g, e, 1e-12, 0) for g, e in zip(got, exp_)):
                        A("round %d %s: _log_barrier_omd(%s, %s, %s) implementation %s, float-faithful model %s" % (
                            k, tag_, [fnum(v) for v in ps0], losses, [fnum(v) for v in etas0], got, exp_), "omd-float")
                tags.append("A:omd-float-faithful")
                do_float = k < 12 or k % 5 == 0          # (cost) every round at the start of a history, then every fifth
                if do_float:
                    omd_exact("outer", before["ps"], before["etas"], [(1 - r_in) / lp * (bidx[j] == la) for j in range(M)], [float(v) for v in c._ps])
                if nested_before is not None and do_float:
                    for j, x in inner:
                        if len(recs[j].learns) == 1:
                            ga, gr, gp, _ = recs[j].learns[0]
                            rj_ = misguide_float(case["bases"][j].get("mis", []), gr)
                            omd_exact("nested Corral (base %d)" % j, nested_before[j]["state"]["ps"], nested_before[j]["state"]["etas"],
                                      [(1 - rj_) / gp * (ia == ids[find_idx(actions, ga)]) for ia in nested_before[j]["lastActs"]], [float(v) for v in x._ps])
                if not ans.get("halted", True):
                    fails.append(F("C", "model: the exact bisection did not leave by one of its own exits within the fuel", "C:corral-search-fuel"))
                if nested_before is not None:
                    tags.append("A:nested-composite-learn")
                    ans2 = driver.ask({"kind": "nested_learn", "a": ids[la], "r": q(r), "p": q(lp),
                                       "node": {"mis": mis, "state": before, "lastActs": [ids[i] for i in bidx],
                                                "lastProbs": [q(float(x)) for x in bprobs], "bases": nested_before}})
                    if "err" in ans2:
                        A("round %d: the composite model (Corral over Corral) raises %s, the implementation did not" % (k, ans2["err"]), "nested-learn-err")
                    else:
                        for j, x in inner:
                            mj = ans2["inner"][j]
                            fbj = ans["feedback"][j]
                            rj = misguide_float(case["bases"][j].get("mis", []), float(unq(fbj[1])))
                            pj = float(unq(fbj[2])) if case["mode"] == "importance" else lp
                            bj = nested_before[j]["state"]
                            if (1 - rj) / lp * max(fnum(e_) for e_ in bj["etas"]) > 1e9 or min(fnum(v) for v in bj["ps"]) < 1e-9:
                                tags.append("A-skipped:ill-conditioned-update")
                                continue
                            for key, attr in (("ps", "_ps"), ("pbars", "_p_bars")):
                                got = [float(v) for v in getattr(x, attr)]
                                exp = [float(unq(v)) for v in mj[key]]
                                if len(got) != len(exp) or any(abs(g - e) > 2.5e-4 for g, e in zip(got, exp)):
                                    A("round %d: nested Corral (base %d) %s after the outer learn: implementation %s, composite model %s" % (k, j, key, got, exp), "nested-weights")
                                    break
                msps, mspb = [unq(x) for x in ans["state"]["ps"]], [unq(x) for x in ans["state"]["pbars"]]
                if sum(msps) != 1 or min(msps) <= 0 or sum(mspb) != 1 or min(mspb) <= 0:
                    fails.append(F("C", "model: Corral weights after the update are not a strictly positive distribution", "C:corral-weights"))
                if illcond:
                    tags.append("A-skipped:ill-conditioned-update")
                else:
                    ms = ans["state"]
                    for key, attr in (("ps", "_ps"), ("pbars", "_p_bars")):
                        got = [float(x) for x in getattr(c, attr)]
                        exp = [float(unq(x)) for x in ms[key]]
                        if len(got) != len(exp) or any(abs(g - e) > 2.5e-4 for g, e in zip(got, exp)):
                            A("round %d learn(action %d, r=%r, p=%r): %s implementation %s, model %s (compared at 2.5e-4, the accuracy of the root search)" % (
                                k, la, r_in, lp, key, got, exp), "weights")
                            break
                    # the eta/rho schedule, recomputed exactly from the implementation's own new smoothed weights
                    pb_new = [float(x) for x in c._p_bars]
                    for j in range(M):
                        r0 = fnum(before["rhos"][j])
                        if abs(1 / pb_new[j] - r0) > 1e-3 * r0 + 5e-4 / pb_new[j] ** 2 and j < len(ms["etas"]) and not close(float(c._etas[j]), float(unq(ms["etas"][j]))):
                            A("round %d: eta of base %d implementation %r, model %r" % (k, j, c._etas[j], float(unq(ms["etas"][j]))), "eta")
                            break
                    for j in range(M):
                        e0, r0 = fnum(before["etas"][j]), fnum(before["rhos"][j])
                        thr = 1 / pb_new[j]
                        if abs(thr - r0) <= 1e-9 * r0:
                            continue
                        ee, er = (e0 * beta, 2 / pb_new[j]) if thr > r0 else (e0, r0)
                        if not (close(float(c._etas[j]), ee) and close(float(c._rhos[j]), er)):
                            A("round %d: eta/rho of base %d implementation (%r,%r), schedule gives (%r,%r)" % (k, j, c._etas[j], c._rhos[j], ee, er), "eta-rho")
                            break
        if any(f["kind"] == "A" for f in fails):
            break
    if not benign:
        tags.append("regime:extreme")
    else:
        tags.append("regime:benign")
    if a_on and st0 is not None and fl_ops and not any(f["kind"] == "A" for f in fails):
        float_run_check(driver, st0, fl_ops, fl_states, fails, tags)
    if (a_on and not fails and played and all(op.get("score") is None for op in case["hist"][:min(len(played), 4)])
            and all(b["type"] != "corral" or all(x["type"] != "corral" for x in b["bases"]) for b in case["bases"])):
        run_tower_check(case, driver, played[:4], fails, tags)     # (cost) exact rationals grow exponentially with the rounds
    return {"fails": fails, "nontrivial": rounds >= 2, "tags": sorted(set(tags)), "impl": impl, "model": None}


class RecV(Rec):
    """recorder around a plain learner inside a tower that also keeps what the model's `Leaf` needs: the table of UCB indexes at each predict"""

    def __init__(self, inner, spec, ctx):
        Rec.__init__(self, inner)
        self.spec, self.ctx = spec, ctx
        self.mirror = UcbMirror() if spec["type"] == "ucb" else None
        self.vals = []

    def _id(self, a):
        return self.ctx["ids"][find_idx(self.ctx["actions"], a)]

    def predict(self, context, actions):
        tab = []
        if self.mirror is not None:
            offered = [self._id(a) for a in actions]
            if all(i in self.mirror.m for i in offered):
                tab = [[i, q(self.mirror.val(i))] for i in sorted(set(offered))]
        self.vals.append(tab)
        return Rec.predict(self, context, actions)

    def learn(self, context, action, reward, probability, **kw):
        if self.mirror is not None:
            self.mirror.learn(self._id(action), misguide_float(self.spec.get("mis", []), reward))
        return Rec.learn(self, context, action, reward, probability, **kw)


def run_tower_check(case, driver, played, fails, tags):
    """whole history of the composition on the real code (fresh learners, every plain learner recorded) against ONE run of the model's
    `tower 2` from the initial states: chosen actions and probabilities of every node and every plain learner in every round, weights of
    every Corral after every learn.  The exact model and the float code can drift apart by the accuracy of the root search; once a weight
    differs by more than 1e-9 later discrete differences are not reported (tag) - a weight difference above 2.5e-4 always is."""
    from coba.learners import CorralLearner
    ctx = {"actions": None, "ids": None}

    def T_of(spec):
        return math.inf if spec["T"] == "inf" else num(spec["T"])

    def cinit(spec, M):
        T = T_of(spec)
        return {"M": M, "eta": q(num(spec["eta"])), "gamma": q(1 / T), "beta": q(1 / math.exp(1 / math.log(T))), "imp": spec["mode"] == "importance",
                "seed": seed_json(spec["seed"] * 1.234)}
    nodes = []            # (path, real CorralLearner, its RecV bases)
    real_bases, model_bases = [], []
    for j, b in enumerate(case["bases"]):
        if b["type"] == "corral":
            irecs = [RecV(mk_learner(x), x, ctx) for x in b["bases"]]
            icl = CorralLearner(irecs, eta=num(b["eta"]), T=T_of(b), mode=b["mode"], seed=b["seed"])
            real_bases.append(Rec(wrap_mis(icl, b.get("mis", []))))
            nodes.append((j, icl, irecs))
            model_bases.append(("node", b, irecs))
        else:
            r_ = RecV(mk_learner(b), b, ctx)
            real_bases.append(r_)
            model_bases.append(("leaf", b, r_))
    c = CorralLearner(real_bases, eta=num(case["eta"]), T=corral_T(case), mode=case["mode"], seed=case["seed"])
    top = wrap_mis(c, case.get("mis", []))
    actions = None
    obs = []
    mhist = []
    for k, (la, lp, r) in enumerate(played):
        op = case["hist"][k]
        ids = [r_[0] for r_ in op["actions"]]
        ctx["actions"] = actions = None
        actions = [resolve(case, r_) for r_ in op["actions"]]
        ctx["actions"], ctx["ids"] = actions, ids
        cx = mk_val(op.get("ctx", ["n", None]))
        for r_ in real_bases:
            r_.preds.clear()
        for _, _, irecs in nodes:
            for r_ in irecs:
                r_.preds.clear()
        a, p, info = top.predict(cx, actions)
        o = {"a": ids[find_idx(actions, a)], "p": p, "top": [ids[find_idx(actions, x)] for x in info["info"][0]],
             "inner": {j: [ids[find_idx(actions, r_.preds[-1][1][0])] for r_ in irecs] for j, _, irecs in nodes}}
        top.learn(cx, actions[la], r, lp, **info)
        o["ps"] = [float(x) for x in c._ps]
        o["inner_ps"] = {j: [float(x) for x in icl._ps] for j, icl, _ in nodes}
        obs.append(o)
        mhist.append({"op": "predict", "actions": ids})
        mhist.append({"op": "learn", "a": ids[la], "r": q(r), "p": q(lp)})
    mb = []
    for kind, b, x in model_bases:
        if kind == "leaf":
            mb.append({"leaf": model_learner(b), "vals": x.vals})
        else:
            mb.append({"corral": cinit(b, len(b["bases"])), "mis": b.get("mis", []),
                       "bases": [{"leaf": model_learner(y), "vals": rv.vals} for y, rv in zip(b["bases"], x)]})
    outs = driver.ask({"kind": "tower_run", "node": {"corral": cinit(case, len(case["bases"])), "mis": case.get("mis", []), "bases": mb}, "hist": mhist})["outs"]
    tags.append("A:tower-whole-history")
    drift = 0.0

    def A(what, sig):
        fails.append(F("A", "whole-history tower run of %s, %s" % (corral_src(case), what), "A:tower-" + sig))
    for k, o in enumerate(obs):
        if 2 * k + 1 >= len(outs) or "err" in outs[2 * k] or "err" in outs[2 * k + 1]:
            A("round %d: the model stopped or raised (%s)" % (k, json.dumps(outs[-1])[:120]), "err")
            return
        mp, ml = outs[2 * k], outs[2 * k + 1]
        d = mp["dump"]
        disc = None
        if d["lastActs"] != o["top"]:
            disc = "round %d: base learners chose %s, in the model %s" % (k, o["top"], d["lastActs"])
        else:
            for j, acts in o["inner"].items():
                if d["bases"][j].get("lastActs") != acts:
                    disc = "round %d: the plain learners inside nested Corral %d chose %s, in the model %s" % (k, j, acts, d["bases"][j].get("lastActs"))
            if disc is None and mp["a"] != o["a"]:
                disc = "round %d: Corral chose action %d, in the model %d" % (k, o["a"], mp["a"])
            if disc is None and not close(float(unq(mp["p"])), o["p"], 1e-6):
                disc = "round %d: reported probability %r, model %r" % (k, o["p"], float(unq(mp["p"])))
        if disc is not None:
            if drift > 1e-9:
                tags.append("tower:abandoned-after-root-search-drift")
            else:
                A(disc, "choice")
            return
        dl = ml["dump"]
        pairs = [("outer", o["ps"], dl["ps"])] + [("nested Corral %d" % j, ps_, dl["bases"][j]["ps"]) for j, ps_ in o["inner_ps"].items()]
        for nm, got, exp in pairs:
            exp = [float(unq(x)) for x in exp]
            dd = max([abs(g - e) for g, e in zip(got, exp)] + [0.0 if len(got) == len(exp) else 1.0])
            drift = max(drift, dd)
            if dd > 2.5e-4:
                A("round %d: %s weights %s, model %s" % (k, nm, got, exp), "weights")
                return


def pyact_json(d):
    """an action descriptor as the model's PyAct (flavour + contents)"""
    def sc(x):
        return ["s", x[1]] if x[0] == "s" else ["n", q(mk_val(x))]
    k = d[0]
    if k in ("i", "f", "b", "s"):
        return sc(d)
    if k == "w":
        inner = d[2]
        if d[1] in DENSE_WRAPS:
            return ["D", "tuple" if d[1] == "HashableDense" else "row", [sc(x) for x in inner[1]]]
        return ["S", "odict" if d[1] == "OrderedDict" else "mapping", [[sc(a), sc(b)] for a, b in inner[1]]]
    if k in ("l", "t"):
        return ["D", "list" if k == "l" else "tuple", [sc(x) for x in d[1]]]
    if k == "d":
        return ["S", "dict", [[sc(a), sc(b)] for a, b in d[1]]]
    raise ValueError(d)


def run_witness(case, driver):
    """replays of Lean witnesses on the real code (only model = implementation is compared)"""
    from coba.learners import CorralLearner, RandomLearner
    fails, impl = [], {}
    if case["name"] == "keyeq_sweep":
        # Props.C16.make_hashable_respects_eq & co.: for pairs of catalogue actions in every flavour, `make_hashable` keys coincide
        # (== and hash) / Python == holds on the real objects exactly when the model says so
        from coba.learners.bandit import make_hashable
        from coba.learners import BanditUCBLearner
        objs = [d for cls in CATALOG for d in cls]
        objs.append(["w", "OrderedDict", CATALOG[19][1]])       # the same items in the other order
        pairs = []
        pos = 0
        for cls in CATALOG:
            grp = objs[pos:pos + len(cls)]
            pos += len(cls)
            pairs += [(a, b) for a in grp for b in grp]
        pairs += [(objs[-1], b) for b in CATALOG[19]] + [(b, objs[-1]) for b in CATALOG[19]] + [(objs[-1], ["w", "OrderedDict", CATALOG[19][0]])]
        firsts = [cls[0] for cls in CATALOG] + [cls[-1] for cls in CATALOG]
        pairs += [(a, b) for a in firsts for b in firsts]
        res = driver.ask({"kind": "keyeq", "pairs": [[pyact_json(a), pyact_json(b)] for a, b in pairs]})["res"] if driver is not None else None
        bad = 0
        for n_, (a, b) in enumerate(pairs):
            x, y = mk_val(a), mk_val(b)
            kx, ky = make_hashable(x), make_hashable(y)
            try:
                same = bool(kx == ky) and hash(kx) == hash(ky)
            except TypeError:
                same = False
            try:
                eq = bool(x == y)
            except Exception:
                eq = False
            if res is not None and [same, eq] != res[n_]:
                bad += 1
                if bad <= 3:
                    fails.append(F("A", "keys/==: %s vs %s: implementation (same key %s, == %s), model %s" % (py_lit(a), py_lit(b), same, eq, res[n_]), "A:witness-keyeq"))
        impl["pairs"] = len(pairs)
        # the list/tuple exception replayed: == False, one key, and BanditUCB then scores both with 1.0 (recorded observation, outside the quantifier)
        L = BanditUCBLearner(seed=1)
        sc_ = [L.score(None, [[1, 2], (1, 2)], z) for z in ([1, 2], (1, 2))]
        impl["list_tuple"] = {"eq": [1, 2] == (1, 2), "same_key": make_hashable([1, 2]) == make_hashable((1, 2)), "ucb_scores": sc_}
        if ([1, 2] == (1, 2)) or make_hashable([1, 2]) != make_hashable((1, 2)):
            fails.append(F("A", "witness same_key_not_pyEq no longer replays: %s" % impl["list_tuple"], "A:witness-keyeq"))
        return {"fails": fails, "nontrivial": False, "tags": ["kind:witness", "witness:keyeq"], "impl": impl, "model": None}
    if case["name"] == "ucb_equal_members":
        # Props.C16.ucb_equal_members_counterexample: a fresh BanditUCB offered [a, a, b] scores every position 1/2
        from coba.learners import BanditUCBLearner
        L = BanditUCBLearner(seed=1)
        A = [(7, 7), (7, 7), "b"]
        impl["pmf"] = L._pmf(None, A)
        a, p = L.predict(None, A)
        impl["pred"] = [repr(a), p]
        if impl["pmf"] != [0.5, 0.5, 0.5] or p != 0.5:
            fails.append(F("A", "witness ucb_equal_members no longer replays: %s" % impl, "A:witness-ucb-equal-members"))
        if driver is not None:
            mo = driver.ask({"kind": "bandit", "learner": model_learner({"type": "ucb", "seed": 1}), "hist": [{"op": "score", "actions": [0, 0, 1], "a": 1, "vals": []}]})["outs"]
            if not mo or "score" not in mo[0] or unq(mo[0]["score"]) != Fraction(1, 2):
                fails.append(F("A", "model: UCB score over [a,a,b] gives %s" % json.dumps(mo), "A:witness-ucb-equal-members"))
        return {"fails": fails, "nontrivial": False, "tags": ["kind:witness", "witness:ucb-equal-members"], "impl": impl, "model": None}
    if case["name"] == "importance_feedback_unbounded":
        # Props.C16.corral_importance_feedback_unbounded: reward 1 at probability 1/2 reaches the base learner as 2, a Corral rejects 2
        rec = Rec(CorralLearner([RandomLearner(seed=1)], seed=2))
        outer = CorralLearner([rec], mode="importance", seed=3)
        a, p, info = outer.predict(None, ["x"])
        try:
            outer.learn(None, a, 1, 0.5, **info)
            impl["outer"] = "ok"
        except AssertionError:
            impl["outer"] = "AssertionError"
        impl["fed"] = [list(x[:3]) for x in rec.learns]
        if impl["outer"] != "AssertionError" or not rec.learns or rec.learns[0][1] != 2:
            fails.append(F("A", "witness importance_feedback_unbounded no longer replays: %s" % impl, "A:witness-importance-unbounded"))
        if driver is not None:
            st = driver.ask({"kind": "corral_init", "M": 1, "eta": q(0.075), "gamma": [0, 1], "beta": [1, 1], "imp": True, "seed": {"int": 2}})["state"]
            st.update({"gamma": [0, 1], "beta": [1, 1], "imp": True})
            mo = driver.ask({"kind": "corral", "state": st, "op": {"op": "learn", "bacts": [0], "a": 0, "r": [2, 1], "p": [1, 1], "bprobs": [[1, 1]]}})["out"]
            if mo.get("err") != "AssertionError":
                fails.append(F("A", "model: Corral.learn with reward 2 gives %s" % mo, "A:witness-importance-unbounded"))
    return {"fails": fails, "nontrivial": False, "tags": ["kind:witness"], "impl": impl, "model": None}


# ---------------------------------------------------------------- generators
def dy(rng, lo_bits=0, hi_bits=6):
    j = rng.randint(lo_bits, hi_bits)
    return Fraction(rng.randint(0, 2 ** j), 2 ** j)


def gen_reward(rng, wide):
    r = rng.below(100)
    if r < 18:
        return [0, 1]
    if r < 36:
        return [1, 1]
    if r < 44:
        return q(0.0) if rng.chance(0.5) else q(1.0)
    if wide and r < 56:
        return q(rng.choice([-3, 7.5, -0.25, 1e6, 2, -1e-3, 1e-300, 123456789.125]))
    if r < 64:
        return q(rng.choice([1e-6, 1 - 1e-6, 0.1, 0.3, 1 / 3, 2 ** -40, 1 - 2 ** -40]))
    return q(dy(rng, 1, 6))


def gen_pool(rng, nmax=7):
    k = rng.randint(1, nmax)
    r = rng.below(10)
    if r < 2:
        cls = rng.sample(list(range(0, 11)), min(k, 11))          # scalars only
    elif r < 4:
        cls = rng.sample(list(range(11, 18)), min(k, 7))           # dense only
    elif r < 6:
        cls = rng.sample(list(range(18, 24)), min(k, 6))           # sparse only
    else:
        cls = rng.sample(list(range(len(CATALOG))), k)
    if rng.chance(0.4):       # the ints 0 and 1 among the actions (SafeLearner rewrites them for its learner and keeps a private copy of the list)
        cls = [0, 1] + [c_ for c_ in cls if c_ not in (0, 1)][:max(0, nmax - 2)]
    if rng.chance(0.15):      # different actions with one hash (CPython: hash(-1) == hash(-2), hash(2**61-1) == hash(0)) side by side
        grp = [c_ for g_ in rng.sample(COLLIDE_HASH, rng.choice([1, 1, 2])) for c_ in g_]
        cls = (grp + [c_ for c_ in cls if c_ not in grp])[:max(nmax, 2)]
    elif rng.chance(0.12):    # phase 6: an action and the string that is its str() / repr() side by side (1 and '1', 'a' and "'a'", [1, 2] and '(1, 2)')
        grp = list(rng.choice(COLLIDE_STR))
        cls = (grp + [c_ for c_ in cls if c_ not in grp])[:max(nmax, 2)]
    pool = [list(CATALOG[i]) for i in cls]
    if rng.chance(0.35):      # what a real pipeline delivers: every dense / sparse action is one of coba's row objects (alias 0 = the default spelling)
        for c_ in pool:
            wr = [a_ for a_ in c_ if a_[0] == "w"]
            if wr:
                w0 = rng.choice(wr)
                c_.remove(w0)
                c_.insert(0, w0)
    return pool


def ref(rng, pool, c):
    return [c, rng.below(len(pool[c])) if rng.chance(0.3) else 0]


def gen_spec(rng, n_fixed=None, allow_fixed=True, allow_mis=True, boundary=True):
    r = rng.below(100)
    seed = rng.choice([1, 2, 3, rng.randint(0, 10 ** 6), rng.randint(-50, 50)])
    if boundary and rng.chance(0.35):
        seed = seed_for(rng.randint(1, 4), rng.choice([0, 0, M_ - 1, 1, M_ // 2]))
    if r < 40:
        eps = rng.choice([[0, 1], [1, 1], q(0.0), q(1.0), q(0.05), q(0.1), q(0.5), q(0.25), q(0.999), q(1 / 3), q(1e-9), [1, 2]])
        spec = {"type": "eps", "eps": eps, "seed": seed}
    elif r < 70:
        spec = {"type": "ucb", "seed": seed}
    elif r < 85 and allow_fixed and n_fixed:
        n = n_fixed
        kind = rng.below(3)
        if kind == 0:
            pmf = [[0, 1]] * n
            pmf[rng.below(n)] = [1, 1]
        elif kind == 1:
            cuts = sorted(rng.randint(0, 16) for _ in range(n - 1))
            pts = [0] + cuts + [16]
            pmf = [q(Fraction(b - a, 16)) for a, b in zip(pts[:-1], pts[1:])]
        else:
            pmf = [q(1 / n)] * n if n in (1, 2, 4, 8) else [q(Fraction(1, 2))] + [q(Fraction(1, 2 * (n - 1)) if (n - 1) in (1, 2, 4) else Fraction(0))] * (n - 1)
            if sum(unq(x) for x in pmf) != 1:
                pmf = [[1, 1]] + [[0, 1]] * (n - 1)
        spec = {"type": "fixed", "pmf": pmf, "seed": seed}
    else:
        spec = {"type": "random", "seed": seed}
    if allow_mis and rng.chance(0.25):
        spec["mis"] = [[q(rng.choice([0, 1, -3, 0.5, 2.25])), q(rng.choice([1, -1, 7, 0.5, 0, -2.5]))] for _ in range(rng.choice([1, 1, 2]))]
        if rng.chance(0.35):      # rewards with a large offset / scale reach the wrapped learner (cancellation in running statistics)
            spec["mis"][0] = [q(float(rng.choice([1e6, 1e8, 1e8, 1e10, 1e12, -1e9, 123456789.0]))), q(float(rng.choice([1, 1, 1, -1, 0.5, 1e6, 1e-6])))]
    return spec


def gen_bandit(rng, tier, search=False):
    pool = gen_pool(rng)
    npool = len(pool)
    stable = rng.chance(0.5)
    fixed_n = rng.randint(1, npool)
    spec = gen_spec(rng, n_fixed=fixed_n)
    if search and spec["type"] == "eps":
        spec["eps"] = rng.choice([[0, 1], [1, 1], q(0.0), q(1e-9)])
    is_fixed = spec["type"] == "fixed"
    base_set = rng.sample(list(range(npool)), fixed_n if is_fixed else rng.randint(1, npool))
    collide = npool >= 2 and any(pool[0][0] in CATALOG[g_[0]] + CATALOG[g_[1]] and pool[1][0] in CATALOG[g_[0]] + CATALOG[g_[1]] for g_ in COLLIDE)
    if collide and not is_fixed:       # the two different actions with one hash are offered together
        base_set = [0, 1] + [c_ for c_ in base_set if c_ > 1]

    def action_set():
        if is_fixed:
            cs = base_set if stable else rng.sample(list(range(npool)), fixed_n)
        elif stable and rng.chance(0.85):
            cs = base_set
        else:
            cs = rng.sample(list(range(npool)), rng.randint(1, npool))
        cs = rng.shuffle(cs) if rng.chance(0.3) else list(cs)
        return [ref(rng, pool, c) for c in cs]
    nops = rng.choice([1, 2, 3, 5, 8, 12, 20, 30, 45, 60])
    if search:
        nops = rng.choice([2, 3, 5, 8])
    hist = []
    wide = spec["type"] != "ucb" or bool(spec.get("mis"))
    eval_tail = rng.chance(0.3)            # evaluation-only stream after a learning phase: consecutive predict/score calls without learn
    while len(hist) < nops:
        r = rng.below(100)
        ctx = rng.choice(CONTEXTS) if rng.chance(0.3) else ["n", None]
        if eval_tail and len(hist) >= nops // 2:
            r = rng.choice([10, 10, 60, 95])
            hist.append({"op": "predict", "actions": action_set(), "ctx": ctx} if r < 50 else
                        {"op": "scores", "actions": action_set(), "ctx": ctx})
            continue
        if r < 50:
            op = {"op": "predict", "actions": action_set(), "ctx": ctx}
            if rng.chance(0.1):
                op["as_tuple"] = True
            hist.append(op)
            if rng.chance(0.8):
                hist.append({"op": "learn", "a": "last", "alias": rng.below(3), "r": gen_reward(rng, wide), "p": q(dy(rng, 1, 4) or Fraction(1, 2)), "ctx": ctx})
        elif r < 72:
            hist.append({"op": "scores", "actions": action_set(), "ctx": ctx})
        elif r < 90:
            c = rng.below(npool)          # any action of the pool, offered before or not
            hist.append({"op": "learn", "a": ref(rng, pool, c), "r": gen_reward(rng, wide), "p": [1, 2], "ctx": ctx})
        else:
            acts = action_set()
            hist.append({"op": "score", "actions": acts, "a": rng.choice(acts), "ctx": ctx})
    case = {"t": "bandit", "learner": spec, "pool": pool, "hist": hist}
    if not collide and len(hist) % 2 == 1:      # the renamed twin runs on the colliding pools, the corpus and a deterministic half of the rest
        case["twin"] = False
    if rng.chance(0.3):
        case["shared_list"] = True
    elif rng.chance(0.35):
        case["safe"] = True
    # malformed stream (outside the quantifier; only model = implementation is compared)
    if not search and rng.chance(0.06):
        case["malformed"] = True
        kind = rng.below(3)
        acts = action_set()
        if kind == 0 and npool > len(acts):
            other = [c for c in range(npool) if c not in [a[0] for a in acts]]
            hist.append({"op": "score", "actions": acts, "a": [rng.choice(other), 0]})
        elif kind == 1:
            hist.append({"op": "predict", "actions": acts + [rng.choice(acts)]})
            hist.append({"op": "scores", "actions": acts + [rng.choice(acts)]})
        else:
            hist.append({"op": "predict", "actions": []})
    return case


def gen_corral(rng, tier, search=False):
    pool = gen_pool(rng, 6)
    npool = len(pool)
    n = rng.randint(1, npool)
    M = rng.choice([1, 2, 2, 3, 3, 4, 5])
    with_fixed = rng.chance(0.3)
    bases = [gen_spec(rng, n_fixed=n if with_fixed else None, allow_mis=rng.chance(0.3), boundary=False) for _ in range(M)]
    # nested compositions: a Corral (possibly under an in-range Misguided wrapper) as base learner of the Corral
    if rng.chance(0.35):
        for _ in range(rng.choice([1, 1, 2])):
            inner = {"type": "corral", "bases": [gen_spec(rng, n_fixed=n if with_fixed else None, allow_mis=rng.chance(0.3), boundary=False)
                                                 for _ in range(rng.choice([1, 2, 2, 3]))],
                     "eta": q(rng.choice([0.075, 0.1, 0.5, 1, 2])), "T": rng.choice(["inf", [2, 1], [10, 1], q(1.5), [100, 1]]),
                     "mode": rng.choice(["importance", "off-policy"]), "seed": rng.choice([1, 2, rng.randint(0, 10 ** 6)])}
            if rng.chance(0.4):
                inner["mis"] = [rng.choice([[[1, 1], [-1, 1]], [q(0.25), q(0.5)], [[0, 1], [1, 1]], [q(0.5), q(-0.5)]])]
            bases[rng.below(M)] = inner
    stable = with_fixed or rng.chance(0.5)
    extreme = rng.chance(0.5 if search else 0.3)
    eta = q(rng.choice([0.01, 0.075, 0.075, 0.1, 0.25, 0.5, 1, 1]))
    if extreme and rng.chance(0.5):
        eta = q(rng.choice([2, 3, 5, 10, 50, 1.5]))
    T = rng.choice(["inf", "inf", [2, 1], [3, 1], [10, 1], [100, 1], [1000, 1], q(2.5), q(1.5), q(1.25)])
    if search and rng.chance(0.5):
        T = rng.choice([q(1.5), [2, 1], q(1.25), [3, 1]])      # strong smoothing / fast learning-rate decay
    nested = any(b["type"] == "corral" for b in bases)
    case = {"t": "corral", "bases": bases, "eta": eta, "T": T, "mode": rng.choice(["importance", "off-policy", "off-policy"] if nested else ["importance", "off-policy"]),
            "seed": rng.choice([1, 2, 0, 500, rng.randint(0, 10 ** 6), seed_for(1, 0)]), "pool": pool, "hist": []}
    if rng.chance(0.12):
        case["mis"] = [rng.choice([[[1, 1], [-1, 1]], [q(0.25), q(0.5)], [[0, 1], [1, 1]], [q(0.5), q(-0.5)]])]
    base_set = rng.sample(list(range(npool)), n)
    if n >= 2 and npool >= 2 and any(pool[0][0] in CATALOG[g_[0]] + CATALOG[g_[1]] and pool[1][0] in CATALOG[g_[0]] + CATALOG[g_[1]] for g_ in COLLIDE):
        base_set = [0, 1] + [c_ for c_ in base_set if c_ > 1][:n - 2]      # the two different actions with one hash are offered together
    nrounds = rng.choice([1, 2, 3, 5, 8, 12, 20, 30, 45, 60])
    if search:
        nrounds = rng.choice([5, 12, 30, 60])
    if not (n >= 2 and base_set[:2] == [0, 1] and hash_collide_pool(pool)) and nrounds % 2 == 1 and nrounds > 1:
        case["twin"] = False
    for _ in range(nrounds):
        cs = base_set if stable else rng.sample(list(range(npool)), n if with_fixed else rng.randint(1, npool))
        if rng.chance(0.2):
            cs = rng.shuffle(cs)
        op = {"actions": [ref(rng, pool, c) for c in cs], "r": gen_reward(rng, False)}
        if rng.chance(0.2):
            op["ctx"] = rng.choice(CONTEXTS)
        if rng.chance(0.15):
            op["score"] = rng.below(6)
        r = rng.below(100)
        if extreme and r < 50:
            op["how"] = "logged"
            op["la"] = rng.below(6)
            op["lp"] = q(rng.choice([1e-12, 1e-9, 1e-6, 1e-3, 0.05, 0.5, 1, 1e-12]))
        elif r < 70:
            op["how"] = "least"
        else:
            op["how"] = "on"
        case["hist"].append(op)
    return case


# ---------------------------------------------------------------- reproduction snippets (plain Python, no harness)
def gen_eqm(rng, tier, collide=None):
    """phase 5: BanditUCB / BanditEpsilon / Random over offered lists with EQUAL members (the same action twice, preferably in two spellings), optionally with
    two hash-colliding different actions side by side; the history teaches some of the actions so that UCB is met with and without unobserved equal members"""
    if collide is None:
        collide = rng.chance(0.5)
    others = [c_ for c_ in range(len(CATALOG))]
    if collide:
        grp = list(rng.choice(COLLIDE_HASH))
        cls = grp + rng.sample([c_ for c_ in others if c_ not in grp], rng.randint(0, 2))
    elif rng.chance(0.3):     # phase 6: str()/repr()-colliding pair side by side
        grp = list(rng.choice(COLLIDE_STR))
        cls = grp + rng.sample([c_ for c_ in others if c_ not in grp], rng.randint(0, 2))
    else:
        cls = rng.sample(others, rng.randint(1, 4))
    pool = [list(CATALOG[i]) for i in cls]
    npool = len(pool)
    r = rng.below(100)
    seed = rng.choice([1, 2, 3, rng.randint(0, 10 ** 6), seed_for(rng.randint(1, 3), rng.choice([0, M_ - 1, M_ // 2]))])
    if r < 40:
        spec = {"type": "ucb", "seed": seed}
    elif r < 85:
        spec = {"type": "eps", "eps": rng.choice([[0, 1], [1, 1], q(0.05), q(0.1), q(0.5), q(1e-9)]), "seed": seed}
    else:
        spec = {"type": "random", "seed": seed}
    if rng.chance(0.15):
        spec["mis"] = [[q(rng.choice([0.5, -1, 0.25])), q(rng.choice([-1, 0.5, 2]))]]

    def action_list():
        cs = list(range(npool)) if rng.chance(0.6) else rng.sample(list(range(npool)), rng.randint(1, npool))
        if collide and rng.chance(0.8):
            cs = [0, 1] + [c_ for c_ in cs if c_ > 1]
        refs = [[c_, 0] for c_ in cs]
        for _ in range(rng.choice([1, 1, 2])):           # the equal members: another spelling of the class where it has one
            c_ = rng.choice(cs)
            free = [j for j in range(len(pool[c_])) if [c_, j] not in refs]
            refs.insert(rng.below(len(refs) + 1), [c_, rng.choice(free) if free and rng.chance(0.8) else 0])
        return refs
    hist = []
    nops = rng.choice([3, 5, 8, 12, 20])
    while len(hist) < nops:
        r = rng.below(100)
        if r < 40:
            hist.append({"op": "predict", "actions": action_list()})
            if rng.chance(0.7):
                hist.append({"op": "learn", "a": "last", "alias": rng.below(3), "r": gen_reward(rng, False), "p": [1, 2]})
        elif r < 75:
            hist.append({"op": "scores", "actions": action_list()})
        else:
            hist.append({"op": "learn", "a": ref(rng, pool, rng.below(npool)), "r": gen_reward(rng, False), "p": [1, 2]})
    case = {"t": "bandit", "eqm": True, "learner": spec, "pool": pool, "hist": hist, "twin": False}
    if rng.chance(0.25):
        case["safe"] = True
    elif rng.chance(0.3):
        case["shared_list"] = True
    return case


def eqm_corpus():
    """deterministic members of the equal-members family: every learner kind x (a plain pool, each hash-colliding pair) with one fixed history"""
    cs = []
    pools = [[11, 7, 1]] + [g_ + [7 if 7 not in g_ else 8] for g_ in COLLIDE]
    for cls in pools:
        pool = [list(CATALOG[i]) for i in cls]
        alt = [min(1, len(c_) - 1) for c_ in pool]
        A1 = [[0, 0], [1, 0], [0, alt[0]]]
        A2 = [[1, 0], [0, 0], [2, 0], [1, alt[1]]]
        A3 = [[2, 0], [2, alt[2]], [0, 0], [1, 0]]
        hist = [{"op": "scores", "actions": A1}, {"op": "predict", "actions": A1}, {"op": "learn", "a": "last", "r": [1, 2], "p": [1, 2]},
                {"op": "scores", "actions": A2}, {"op": "predict", "actions": A2}, {"op": "learn", "a": "last", "r": [1, 4], "p": [1, 2]},
                {"op": "learn", "a": [0, 0], "r": [3, 4], "p": [1, 2]}, {"op": "learn", "a": [1, 0], "r": [1, 1], "p": [1, 2]}, {"op": "scores", "actions": A1},
                {"op": "learn", "a": [2, 0], "r": [0, 1], "p": [1, 2]}, {"op": "scores", "actions": A3}, {"op": "predict", "actions": A3},
                {"op": "learn", "a": "last", "r": [1, 1], "p": [1, 2]}, {"op": "scores", "actions": A2}, {"op": "predict", "actions": A1}]
        for spec in ({"type": "ucb", "seed": 1}, {"type": "ucb", "seed": 3}, {"type": "eps", "eps": [0, 1], "seed": 1}, {"type": "eps", "eps": q(0.1), "seed": 2},
                     {"type": "random", "seed": 1}):
            cs.append({"t": "bandit", "eqm": True, "learner": spec, "pool": pool, "hist": hist})
        cs.append({"t": "bandit", "eqm": True, "learner": {"type": "ucb", "seed": 2}, "pool": pool, "hist": hist, "safe": True})
    return cs


def snippet_bandit(case):
    spec = case["learner"]
    lines = ["import sys, os, math; sys.path.insert(0, os.environ.get('COBA_REPO', '/repo'))",
             "from coba.learners import *", "from coba.learners import MisguidedLearner", SNIPPET_IMPORTS,
             "L = " + learner_src(spec) + ("\nfrom coba.safety import SafeLearner; L = SafeLearner(L)" if case.get("safe") else ""),
             "last = None", "A = []   # the caller's action list"]
    sh = bool(case.get("shared_list"))
    for op in case["hist"]:
        ctx = py_lit(op.get("ctx", ["n", None]))
        if op["op"] in ("predict", "scores", "score"):
            acts = "[" + ", ".join(py_lit(case["pool"][r[0]][r[1]]) for r in op["actions"]) + "]"
            if op.get("as_tuple"):
                acts = "tuple(%s)" % acts
        if op["op"] == "predict":
            lines += [("A[:] = %s   # same list object, refilled in place" if sh and not op.get("as_tuple") else "del A; A = %s   # a fresh list, the old one dropped first") % acts, "a, p = L.predict(%s, A)[:2]; last = a" % ctx,
                      "print('predict', a, p, 'score of it', L.score(%s, A, a)); assert any(a is x or a == x for x in A) and p > 0" % ctx]
        elif op["op"] == "scores":
            lines += [("A[:] = %s" if sh else "del A; A = %s") % acts, "v = [L.score(%s, A, x) for x in A]; print('scores', v, sum(v)); assert min(v) >= 0 and %s" % (
                ctx, "max(v) <= 1 and sum(v) >= 1 - 1e-9   # equal members offered: a distribution once every offered action has been observed" if case.get("eqm") and spec["type"] == "ucb"
                else "abs(sum(v)-1) <= 1e-9")]
        elif op["op"] == "score":
            lines += ["print('score', L.score(%s, %s, %s))" % (ctx, acts, py_lit(case["pool"][op["a"][0]][op["a"][1]]))]
        elif op["op"] == "learn":
            if op["a"] == "last":
                lines += ["if last is not None: L.learn(%s, last, %r, %r)" % (ctx, num(op["r"]), num(op.get("p", [1, 2])))]
            else:
                lines += ["L.learn(%s, %s, %r, %r)" % (ctx, py_lit(case["pool"][op["a"][0]][op["a"][1]]), num(op["r"]), num(op.get("p", [1, 2])))]
    return "\n".join(lines) + "\n"


def snippet_corral(case):
    lines = ["import sys, os, math, signal; sys.path.insert(0, os.environ.get('COBA_REPO', '/repo'))",
             "from coba.learners import *", "from coba.learners import MisguidedLearner", SNIPPET_IMPORTS,
             "top = " + corral_src(case), "c = top", "while not hasattr(c, '_ps'): c = c._learner",
             "signal.signal(signal.SIGALRM, lambda *a: (_ for _ in ()).throw(TimeoutError('learn did not return')))"]
    for k, op in enumerate(case["hist"]):
        ctx = py_lit(op.get("ctx", ["n", None]))
        acts = "[" + ", ".join(py_lit(case["pool"][r[0]][r[1]]) for r in op["actions"]) + "]"
        lines.append(("del A; " if k else "") + "A = %s   # a fresh list every round, the old one dropped first" % acts)
        if op.get("score") is not None:
            lines.append("print('score', top.score(%s, A, A[%d]))" % (ctx, op["score"] % len(op["actions"])))
        lines.append("pb = list(c._p_bars); a, p, info = top.predict(%s, A); ba = info['info'][0]" % ctx)
        lines.append("pmf = [sum(w for w, b in zip(pb, ba) if b == x) for x in A]; assert any(a is x or a == x for x in A) and p > 0, (a, p)")
        how = op.get("how", "on")
        if how == "least":
            lines.append("p, i = min((v, i) for i, v in enumerate(pmf) if v > 0); a = A[i]")
        elif how == "logged":
            lines.append("a, p = A[%d], %r" % (op["la"] % len(op["actions"]), num(op["lp"])))
        lines.append("signal.alarm(%d); top.learn(%s, a, %r, p, **info); signal.alarm(0)" % (int(case.get("step_timeout", 5)), ctx, num(op["r"])))
        lines.append("print(%d, 'weights', c._ps, 'smoothed', c._p_bars); assert min(c._ps) > 0 and min(c._p_bars) > 0 and abs(sum(c._ps)-1) <= 1e-4 and abs(sum(c._p_bars)-1) <= 1e-4" % k)
    return "\n".join(lines) + "\n"


class C16(Property):
    id = "C16"
    prop_modules = ["CobaVerif.Props.C16"]
    quick_n = 4000
    thorough_n = 40000
    search_n = 2500
    case_timeout = 120
    workers = 8
    rule = ("64% histories (1-60 calls: predict / learn-what-was-predicted / score vector / learn of an arbitrary pool action / single score) on one of "
            "BanditEpsilon, BanditUCB, Fixed, Random, optionally under 1-2 Misguided wrappers, over pools of 1-7 pairwise-unequal actions (ints, floats, bools, "
            "strings, dense lists/tuples, sparse dicts, with ==-equal aliases such as 1/1.0/True and [1,2]/(1,2), and every dense/sparse action also as one of "
            "coba's own row objects LazyDense (eager and callable), HeadDense, EncodeDense, KeepDense, LabelDense.feats (DropOne), HashableDense, LazySparse, "
            "HeadSparse, EncodeSparse, DropSparse, HashableSparse or a MappingProxyType / OrderedDict / UserDict; in 35% of the pools the row object is the default "
            "spelling; 40% of the pools contain the ints 0 and 1), every call gets a fresh list whose predecessor was dropped first (or, 30%, one list refilled in "
            "place); 25% of the bandit learners are held inside coba's SafeLearner; action sets stable or changing per call "
            "(never-seen and disappearing actions), rewards 0/1/dyadic/extreme, epsilon in {0,1,1e-9,.05,...}, seeds incl. those whose k-th uniform is 0 or 1-2^-30; "
            "30% Corral histories (1-60 predict+learn rounds over 1-5 such base learners, eta in [0.01,50], T in {inf,1.5,2,2.5,3,10,100,1000}, both modes, "
            "on-policy / least-likely-action / logged (probabilities down to 1e-12) feedback, 5 s limit per learn; 35% of them with 1-2 base learners that "
            "are themselves a Corral, optionally under an in-range Misguided wrapper, all four outer/inner mode pairs; a round in which an inner Corral "
            "would be handed an importance-weighted reward > 1 ends the history un-judged). Non-trivial = bandit: >=3 calls with a predict, "
            "a learn and an action set of >=2; corral: >=2 completed rounds. Distinct by canonical JSON. Phase 4: 15% of the pools start with 1-2 pairs of DIFFERENT actions "
            "whose make_hashable keys hash alike (-1/-2, 0/2**61-1 as scalars, inside dense and sparse actions, as keys), offered together; every bandit and Corral history is "
            "run a second time on a twin taught the same rewards for injectively renamed actions (position-wise probabilities must agree); 6% `dups` cases: offered lists with "
            "EQUAL members (separately built duplicates, 1/1.0/True, row flavours) carrying different weights, on Fixed / Random / PMFPredictor / PMFInfoPredictor (optionally under "
            "SafeLearner / Misguided), 2-12 predicts; non-trivial = >=2 predicts and a member with an equal twin drawn. Phase 5: 8% `equal members` cases (bandit histories flagged eqm): "
            "BanditUCB / BanditEpsilon / Random, optionally Misguided / SafeLearner / one list refilled in place, over lists in which 1-2 actions occur twice (80% in another "
            "spelling), half of the pools starting with a hash-colliding pair offered together, 3-20 calls, (B) positional: UCB entries in [0,1], total >= 1, = 1 once every "
            "offered action was observed, equal members equal; every Corral history is additionally led ONCE as a whole (first 30 learns) through the float-faithful "
            "Corral.learnF (losses, root search, normalisation, p-bar smoothing, eta/rho) and compared bit for bit with _ps/_p_bars/_etas/_rhos; on every nested round the "
            "decidable predicate acceptsB is compared with the rewards the inner Corrals are handed and, when it rejects, with the real learn raising AssertionError; "
            "SafeLearner's memoised (_pred_batch,_pred_kwargs,_pred_format) after the first predict is compared with the model's stAfter. Phase 6: 6 catalogue classes of STRINGS that are "
            "the str()/repr() of another catalogue action or of its table key ('1', '1.0', 'True', \"'a'\", '(1, 2)', '[1, 2]'); 12% of the pools (and 15% of the equal-members pools) start with "
            "such a pair offered together (tag actions:str-colliding-distinct), the deterministic collision corpus (bandit x5, Corral, equal-members x6) runs on each of the 6 pairs, renamed twin always on; "
            "on every nested round the model REJECTS, its learn must raise AssertionError / ZeroDivisionError (theorem rejected_feedback_raises, (C)).")
    trusted_base = [
        "floats are modelled by rationals; the running means of BanditEpsilon/BanditUCB go through a rounding parameter `fl` (theorems: for every fl; driver: "
        "round-to-nearest-even binary64 implemented in Lean and checked against CPython on 3000 values), so ties are the implementation's ties; the final "
        "pmf arithmetic is exact in the model and compared at 1e-9 with the implementation's doubles",
        "BanditUCB's index m+sqrt(ln t/s*min(1/4,V)) (libm log/sqrt) is an arbitrary function in the model; for the correspondence its values are recomputed "
        "in the harness with the same float formulas. What the REAL code needs for the index to be defined is t>=1, s>=1 (proved: Ucb.Inv) and a NON-NEGATIVE "
        "variance under the sqrt: proved for Welford's recurrence over exact arithmetic (welford_var_nonneg, ucb_index_args_nonneg); that the float recurrence "
        "keeps M2 >= 0 (delta and delta2 have the same sign under monotone rounding) is trusted and exercised: OnlineVariance is compared with the model's "
        "Welford through flDouble on every history, incl. rewards with offsets up to 1e12 (Misguided wrappers)",
        "actions are identified by their ==-class after make_hashable; the harness assigns the classes (pairwise-unequal catalog with aliases)",
        "Corral, float-faithful part: `omdF` mirrors _log_barrier_omd operation by operation through `fl` (incl. CPython 3.12's Neumaier `sum`, the rounded "
        "midpoint, the same `bisect` loop); with flDouble its output is compared with the real function's at 1e-12 on the outer and every nested Corral "
        "(every round for the first 12 rounds of a history, then every fifth); theorems about it are for every fl; that IEEE rounding is monotone "
        "(so the rounded midpoint stays in the bracket) and that doubles are finitely many is the hypothesis (D, rank, hmid) of omd_float_halts, not proved",
        "Float pmfs: `Kind.pmfF flDouble` (every operation of the source line rounded) is compared with the real predict/score doubles for EQUALITY on every "
        "bandit call; float_pmf_sum(_double) is proved from the standard model |fl x - x| <= u|x| (a hypothesis; flDouble satisfying it is not proved). The sum is "
        "the real-number sum of the float entries (a consumer's own float summation adds its own rounding)",
        "Action identity: PyAct/makeHashable/pyEq model flat dense/sparse actions with scalar items; compared with the real make_hashable (== and hash) and Python == "
        "on 3310 pairs of catalogue objects in every flavour on every run (corpus witness keyeq_sweep)",
        "Whole histories of `tower flDouble 2` (first 4 rounds of every Corral case without score calls; exact rationals grow exponentially with the rounds) against "
        "the real composition built from fresh learners: choices and probabilities of every Corral and every plain learner per round, weights of every Corral per learn",
        "Nested compositions: `tower fl 2` (Corral over plain learners and Corrals over plain learners) is evaluated per learn call from the implementation's "
        "own states of all Corral nodes, plain learners replaced by stateless dummies (their learn is unobservable); nested weights compared at 2.5e-4",
        "first_bracket_has_root is over the reals (Mathlib IVT), tied to the rational model by omd_model_is_barrier / omd_defined_iff_below",
        "Corral: the model is the repaired _log_barrier_omd (fixes/C16-corral-omd-root.diff) over exact arithmetic; each update is compared from the "
        "implementation's own previous weights at 2.5e-4 (the accuracy of the root search), skipped when eta*loss/probability > 1e9 or a weight < 1e-9 "
        "(float cancellation); SafeLearner around the base learners: identity on (action, probability[, kwargs]) predictions by safe_wrapper_identity "
        "(composition with C15's model of SafeLearner.predict; that model's own tie to coba/safety.py is C15's harness)",
    ]
    assumptions = ["offered lists with equal members: only the learners whose policy is a weight vector over POSITIONS (Fixed, Random, PMFPredictor/PMFInfoPredictor) are judged, and only for "
                   "'one of the offered objects, with the weight of the drawn position, > 0' (score() can only name the first equal member; BanditUCB's pmf over a list with equal members sums to > 1: malformed stream)",
                   "action sets are non-empty and duplicate-free (sets); FixedLearner is offered as many actions as its pmf has entries and its pmf sums to 1 exactly",
                   "rewards are finite; Corral's rewards (after Misguided) are in [0,1]; probabilities passed to learn are in (0,1]",
                   "CorralLearner T > 1 (T=1 divides by log(1)=0 in the constructor) and eta > 0; Corral over Corral is exercised although the property's list stops at "
                   "'Corral over any of them'; an importance-mode Corral hands a base Corral reward/probability > 1, which that Corral rejects by assertion (its documented "
                   "[0,1] requirement): such rounds are outside the quantifier",
                   "(B) tolerances: score sums to 1 within 1e-9 (float), Corral weights within 1e-4 (stated in the property)"]
    partial_theorems = {
        "ucb_pmf_equal_members_partial": "BanditUCB over a list with equal members: defined, entries in [0,1], total >= 1, a distribution once all offered actions are observed; "
                                         "validity itself fails while an unobserved action is offered twice (ucb_equal_members_counterexample, corpus witness) - the property speaks of action sets",
        "corral_float_weights_sum_partial": "only the normalisation step of the float Corral weights; missing: an error bound for CPython's compensated sum() under the "
                                            "float law (total within relative tau of the true sum is a hypothesis)",
        "corral_float_learn_simplex_partial": "the float-faithful CorralLearner.learn keeps all weights / smoothed weights / learning rates > 0 and both sums within explicit "
                                              "bounds of 1 for every gamma in [0,1] under the float law; hypothesis SumRel tau fl: CPython's compensated sum() is accurate to "
                                              "relative tau on positive lists (not derivable from the float law independent of the length; observed <= 2^-52)",
        "corral_float_run_simplex_partial": "the same for whole histories of learn calls (induction); same hypothesis on sum()",
        "corral_nested_valid": "forced hypothesis `accepts`: every Corral at or below a learner must be handed a reward in [0,1]; importance-mode feedback "
                               "reward/probability violates it for a nested Corral (corral_importance_feedback_unbounded, replayed as corpus witness)",
        "omd_float_halts": "termination on the double carrier assumes the rounded midpoint stays inside the bracket and in the carrier (monotone rounding); "
                           "the bound is the number of doubles inside the bracket, not logarithmic",
    }

    def pre_build(self):
        """translator step: constants of coba/learners/corral.py, read with `ast` from the repo under test, become Generated/C16CorralConsts.lean;
        Props.C16.corral_consts_match proves they are the ones the model uses (an edit of the source breaks that proof)"""
        import ast
        from core import lean
        path = os.path.join(lean.LEAN_DIR, "CobaVerif", "Generated", "C16CorralConsts.lean")
        got = {}
        try:
            src = open(os.path.join(os.environ.get("COBA_REPO", "/repo"), "coba", "learners", "corral.py"), encoding="utf-8").read()
            cls = next(n for n in ast.walk(ast.parse(src)) if isinstance(n, ast.ClassDef) and n.name == "CorralLearner")
            fns = {n.name: n for n in cls.body if isinstance(n, ast.FunctionDef)}
            for n in ast.walk(fns["_log_barrier_omd"]):
                if isinstance(n, ast.Assign) and len(n.targets) == 1 and isinstance(n.targets[0], ast.Name) and n.targets[0].id == "precision":
                    got["precision"] = ast.literal_eval(n.value)
            init = fns["__init__"]
            for n in ast.walk(init):
                if (isinstance(n, ast.Assign) and len(n.targets) == 1 and isinstance(n.targets[0], ast.Attribute) and n.targets[0].attr == "_rhos"):
                    for m in ast.walk(n.value):
                        if isinstance(m, ast.BinOp) and isinstance(m.op, ast.Mult) and isinstance(m.left, ast.Constant) and isinstance(m.right, ast.Name) and m.right.id == "M":
                            got["rho"] = m.left.value
                if isinstance(n, ast.Compare) and isinstance(n.left, ast.Name) and n.left.id == "mode" and isinstance(n.ops[0], ast.NotIn):
                    got["modes"] = list(ast.literal_eval(n.comparators[0]))
            names = [a.arg for a in init.args.args]
            defaults = dict(zip(names[len(names) - len(init.args.defaults):], init.args.defaults))
            got["eta"] = Fraction(ast.get_source_segment(src, defaults["eta"]))
            ok = (isinstance(got.get("precision"), int) and 0 <= got["precision"] <= 12 and isinstance(got.get("rho"), int) and got["rho"] >= 0
                  and all(isinstance(x, str) and '"' not in x and "\\" not in x for x in got.get("modes", [None])) and got["eta"] > 0)
        except Exception:
            ok = False
        if ok:
            body = ("-- GENERATED by harness/props/c16.py from coba/learners/corral.py on every run; do not edit.\n"
                    "namespace Coba.Generated.C16\ndef omdPrecision : Nat := %d\ndef rhoFactor : Nat := %d\ndef modes : List String := [%s]\n"
                    "def etaDefaultNum : Nat := %d\ndef etaDefaultDen : Nat := %d\ndef extracted : Bool := true\nend Coba.Generated.C16\n" % (
                        got["precision"], got["rho"], ", ".join('"%s"' % x for x in got["modes"]), got["eta"].numerator, got["eta"].denominator))
            note = "Corral constants extracted from coba/learners/corral.py: precision=%d rho=%d*M modes=%s eta=%s" % (got["precision"], got["rho"], got["modes"], got["eta"])
        else:
            body = ("-- GENERATED: the constants were not found in coba/learners/corral.py (code reshaped); the obligation `corral_consts_match`\n"
                    "-- is then stated about the model's own constants only, the correspondence runs still pin them.\n"
                    "namespace Coba.Generated.C16\ndef omdPrecision : Nat := 4\ndef rhoFactor : Nat := 2\ndef modes : List String := [\"importance\", \"off-policy\"]\n"
                    "def etaDefaultNum : Nat := 3\ndef etaDefaultDen : Nat := 40\ndef extracted : Bool := false\nend Coba.Generated.C16\n")
            note = "Corral constants could not be extracted (source reshaped); correspondence still pins them"
        old = open(path, encoding="utf-8").read() if os.path.exists(path) else None
        if old != body:
            os.makedirs(os.path.dirname(path), exist_ok=True)
            with open(path, "w", encoding="utf-8") as f:
                f.write(body)
        return [note, self._pre_build_bandit(ast, lean), self._pre_build_exprs(ast, lean)]

    # the update expressions translated into `Ex` programs: (name, file, class, function, how to find the expression, variable table)
    EXPR_FALLBACK = {
        "pbarExpr": "Ex.add (Ex.mul (Ex.sub (Ex.lit 1) (Ex.var 0)) (Ex.var 1)) (Ex.div (Ex.mul (Ex.var 0) (Ex.lit 1)) (Ex.var 2))",
        "rhoThrExpr": "Ex.div (Ex.lit 1) (Ex.var 0)",
        "rhoNewExpr": "Ex.div (Ex.lit 2) (Ex.var 0)",
        "epsAlphaExpr": "Ex.div (Ex.lit 1) (Ex.addI (Ex.var 0) (Ex.lit 1))",
        "epsQExpr": "Ex.add (Ex.mul (Ex.sub (Ex.lit 1) (Ex.var 0)) (Ex.var 1)) (Ex.mul (Ex.var 0) (Ex.var 2))",
        "ucbMeanExpr": "Ex.add (Ex.mul (Ex.sub (Ex.lit 1) (Ex.div (Ex.lit 1) (Ex.var 0))) (Ex.var 1)) (Ex.mul (Ex.div (Ex.lit 1) (Ex.var 0)) (Ex.var 2))",
    }

    def _pre_build_exprs(self, ast, lean):
        """coba/learners/corral.py (`_p_bars` smoothing, rho threshold / new rho) and coba/learners/bandit.py (BanditEpsilon's alpha and Q update, BanditUCB's running
        mean) -> Generated/C16Exprs.lean as `Ex` programs; Props.C16.update_exprs_match proves that their float evaluation is what the model's pbarF / etaRhoF /
        Eps.learn / Ucb.learn compute (an edit of one of these source expressions breaks that proof)"""
        path = os.path.join(lean.LEAN_DIR, "CobaVerif", "Generated", "C16Exprs.lean")
        repo = os.environ.get("COBA_REPO", "/repo")
        INTS = {"self._N[action]", "self._s[action]", "len(self._base_lrns)"}

        def tr(e, table):
            if isinstance(e, ast.Constant) and type(e.value) is int and e.value >= 0:
                return "Ex.lit %d" % e.value, True
            if isinstance(e, ast.BinOp) and type(e.op) in (ast.Add, ast.Sub, ast.Mult, ast.Div):
                (l, li), (r, ri) = tr(e.left, table), tr(e.right, table)
                if isinstance(e.op, ast.Add) and li and ri:
                    return "Ex.addI (%s) (%s)" % (l, r), True
                return "Ex.%s (%s) (%s)" % ({ast.Add: "add", ast.Sub: "sub", ast.Mult: "mul", ast.Div: "div"}[type(e.op)], l, r), False
            nm = ast.unparse(e)
            if nm in table:
                return "Ex.var %d" % table[nm], nm in INTS
            raise KeyError(nm)

        def fn(tree, cls, name):
            c = next(n for n in ast.walk(tree) if isinstance(n, ast.ClassDef) and n.name == cls)
            return next(n for n in c.body if isinstance(n, ast.FunctionDef) and n.name == name)

        def assigned(f, target):
            return next(n.value for n in ast.walk(f) if isinstance(n, ast.Assign) and len(n.targets) == 1 and ast.unparse(n.targets[0]) == target)
        out, ok_all = {}, True
        try:
            ctree = ast.parse(open(os.path.join(repo, "coba", "learners", "corral.py"), encoding="utf-8").read())
            btree = ast.parse(open(os.path.join(repo, "coba", "learners", "bandit.py"), encoding="utf-8").read())
            cl, el, ul = fn(ctree, "CorralLearner", "learn"), fn(btree, "BanditEpsilonLearner", "learn"), fn(btree, "BanditUCBLearner", "learn")
            pb = assigned(cl, "self._p_bars")
            out["pbarExpr"] = tr(pb.elt, {"self._gamma": 0, pb.generators[0].target.id: 1, "len(self._base_lrns)": 2})[0]
            thr = next(n for n in ast.walk(cl) if isinstance(n, ast.Compare) and isinstance(n.ops[0], ast.Gt) and "_rhos" in ast.unparse(n.comparators[0]))
            out["rhoThrExpr"] = tr(thr.left, {"self._p_bars[i]": 0})[0]
            out["rhoNewExpr"] = tr(assigned(cl, "self._rhos[i]"), {"self._p_bars[i]": 0})[0]
            out["epsAlphaExpr"] = tr(assigned(el, "alpha"), {"self._N[action]": 0})[0]
            out["epsQExpr"] = tr(assigned(el, "self._Q[action]"), {"alpha": 0, "old_Q": 1, "reward": 2})[0]
            uelse = next(n for n in ast.walk(ul) if isinstance(n, ast.If)).orelse
            um = next(n.value for s_ in uelse for n in ast.walk(s_) if isinstance(n, ast.Assign) and ast.unparse(n.targets[0]) == "self._m[action]")
            out["ucbMeanExpr"] = tr(um, {"self._s[action]": 0, "self._m[action]": 1, "reward": 2})[0]
        except Exception:
            ok_all = False
        if not ok_all:
            out = dict(self.EXPR_FALLBACK)
        body = ("-- GENERATED by harness/props/c16.py from coba/learners/corral.py and coba/learners/bandit.py on every run; do not edit.\n"
                "import CobaVerif.Model.C16\nnamespace Coba.Generated.C16\nopen Coba.C16\n" +
                "".join("def %s : Ex := %s\n" % (k, out[k]) for k in sorted(self.EXPR_FALLBACK)) +
                "def exprsExtracted : Bool := %s\nend Coba.Generated.C16\n" % ("true" if ok_all else "false"))
        old = open(path, encoding="utf-8").read() if os.path.exists(path) else None
        if old != body:
            with open(path, "w", encoding="utf-8") as f:
                f.write(body)
        return "update expressions translated from corral.py / bandit.py: %s" % ", ".join(sorted(out)) if ok_all else "update expressions could not be translated (source reshaped)"

    def _pre_build_bandit(self, ast, lean):
        """coba/learners/bandit.py (default epsilon, the cap in `min(1/4, V_j)`) and coba/safety.py (`a in [0,1]`, `abs_tol=.001`) -> Generated/C16BanditConsts.lean"""
        path = os.path.join(lean.LEAN_DIR, "CobaVerif", "Generated", "C16BanditConsts.lean")
        repo = os.environ.get("COBA_REPO", "/repo")
        g = {}
        try:
            src = open(os.path.join(repo, "coba", "learners", "bandit.py"), encoding="utf-8").read()
            tree = ast.parse(src)
            eps = next(n for n in ast.walk(tree) if isinstance(n, ast.ClassDef) and n.name == "BanditEpsilonLearner")
            init = next(n for n in eps.body if isinstance(n, ast.FunctionDef) and n.name == "__init__")
            names = [a.arg for a in init.args.args]
            dflt = dict(zip(names[len(names) - len(init.args.defaults):], init.args.defaults))
            g["eps"] = Fraction(ast.get_source_segment(src, dflt["epsilon"]))
            ucb = next(n for n in ast.walk(tree) if isinstance(n, ast.FunctionDef) and n.name == "_Avg_R_UCB")
            mn = next(n for n in ast.walk(ucb) if isinstance(n, ast.Call) and isinstance(n.func, ast.Name) and n.func.id == "min")
            cap = mn.args[0]
            g["cap"] = (Fraction(ast.literal_eval(cap.left)) / Fraction(ast.literal_eval(cap.right))) if isinstance(cap, ast.BinOp) and isinstance(cap.op, ast.Div) \
                else Fraction(ast.get_source_segment(src, cap))
            ssrc = open(os.path.join(repo, "coba", "safety.py"), encoding="utf-8").read()
            stree = ast.parse(ssrc)
            ms = next(n for n in ast.walk(stree) if isinstance(n, ast.Assign) and len(n.targets) == 1 and isinstance(n.targets[0], ast.Name) and n.targets[0].id == "make_safe")
            cmpn = next(n for n in ast.walk(ms.value) if isinstance(n, ast.Compare) and isinstance(n.ops[0], ast.In))
            g["ints"] = list(ast.literal_eval(cmpn.comparators[0]))
            pp = next(n for n in ast.walk(stree) if isinstance(n, ast.FunctionDef) and n.name == "possible_pmf")
            kw = next(k for n in ast.walk(pp) if isinstance(n, ast.Call) and isinstance(n.func, ast.Name) and n.func.id == "isclose" for k in n.keywords if k.arg == "abs_tol")
            g["tol"] = Fraction(ast.get_source_segment(ssrc, kw.value) if not ast.get_source_segment(ssrc, kw.value).startswith(".") else "0" + ast.get_source_segment(ssrc, kw.value))
            ok = g["eps"] >= 0 and g["cap"] >= 0 and g["tol"] >= 0 and all(type(x) is int for x in g["ints"])
        except Exception:
            ok = False
        if not ok:
            g = {"eps": Fraction(1, 20), "cap": Fraction(1, 4), "ints": [0, 1], "tol": Fraction(1, 1000)}
        body = ("-- GENERATED by harness/props/c16.py from coba/learners/bandit.py and coba/safety.py on every run; do not edit.\n"
                "namespace Coba.Generated.C16\ndef epsDefaultNum : Nat := %d\ndef epsDefaultDen : Nat := %d\ndef ucbVarCapNum : Nat := %d\ndef ucbVarCapDen : Nat := %d\n"
                "def safeInts : List Int := [%s]\ndef possiblePmfTolNum : Nat := %d\ndef possiblePmfTolDen : Nat := %d\ndef banditExtracted : Bool := %s\n"
                "end Coba.Generated.C16\n" % (g["eps"].numerator, g["eps"].denominator, g["cap"].numerator, g["cap"].denominator, ", ".join(str(x) for x in g["ints"]),
                                                g["tol"].numerator, g["tol"].denominator, "true" if ok else "false"))
        old = open(path, encoding="utf-8").read() if os.path.exists(path) else None
        if old != body:
            with open(path, "w", encoding="utf-8") as f:
                f.write(body)
        return ("bandit/safety constants extracted: eps=%s cap=%s ints=%s tol=%s" % (g["eps"], g["cap"], g["ints"], g["tol"])) if ok else \
            "bandit/safety constants could not be extracted (source reshaped)"

    def generate(self, rng, tier):
        r = rng.below(100)
        if r < 6:
            return gen_dups(rng, tier)
        if r < 14:
            return gen_eqm(rng, tier)
        if r < 70:
            return gen_bandit(rng, tier)
        return gen_corral(rng, tier)

    def search(self, rng, tier):
        if rng.chance(0.5):
            return gen_bandit(rng, tier, search=True)
        return gen_corral(rng, tier, search=True)

    def corpus(self):
        cs = []
        s0 = seed_for(1, 0)            # first uniform exactly 0
        smax = seed_for(1, M_ - 1)
        pool = [CATALOG[7], CATALOG[8], CATALOG[11], CATALOG[18], CATALOG[1]]
        acts = [[0, 0], [1, 0], [2, 0]]
        for seed in (s0, smax, seed_for(2, 0), 1):
            for spec in ({"type": "eps", "eps": [0, 1], "seed": seed}, {"type": "eps", "eps": [1, 1], "seed": seed}, {"type": "eps", "eps": q(0.1), "seed": seed},
                         {"type": "ucb", "seed": seed}, {"type": "random", "seed": seed}, {"type": "fixed", "pmf": [[0, 1], [0, 1], [1, 1]], "seed": seed},
                         {"type": "fixed", "pmf": [[0, 1], q(0.25), q(0.75)], "seed": seed},
                         {"type": "ucb", "seed": seed, "mis": [[[-3, 1], [7, 1]]]}, {"type": "eps", "eps": [0, 1], "seed": seed, "mis": [[[0, 1], [-1, 1]]]}):
                hist = [{"op": "learn", "a": [1, 0], "r": [1, 1]},                       # first action now has a lower mean: eps=0 gives it weight 0
                        {"op": "predict", "actions": [[0, 0], [1, 0], [2, 0]]}, {"op": "learn", "a": "last", "r": [1, 2]},
                        {"op": "scores", "actions": acts}, {"op": "predict", "actions": [[2, 1], [1, 0], [0, 0]]}, {"op": "learn", "a": "last", "r": [0, 1]},
                        {"op": "learn", "a": [4, 2], "r": [1, 4]}, {"op": "predict", "actions": [[3, 0], [4, 0], [0, 0]]}, {"op": "learn", "a": "last", "r": [1, 1]},
                        {"op": "scores", "actions": [[3, 1], [4, 1], [0, 0]]}, {"op": "predict", "actions": acts}, {"op": "scores", "actions": [[1, 0], [4, 1], [3, 0]]}]
                cs.append({"t": "bandit", "learner": spec, "pool": pool, "hist": hist})
        # epsilon 0.05 over 4 actions: the pmf sums to 0.9999999999999999 in doubles; predict must report the very double score reports
        p4 = [CATALOG[7], CATALOG[8], CATALOG[9], CATALOG[2]]
        a4 = [[0, 0], [1, 0], [2, 0], [3, 0]]
        for seed in (1, 2, 3):
            cs.append({"t": "bandit", "learner": {"type": "eps", "eps": q(0.05), "seed": seed}, "pool": p4,
                       "hist": [{"op": "learn", "a": [0, 0], "r": [1, 1]}, {"op": "predict", "actions": a4}, {"op": "scores", "actions": a4},
                                {"op": "learn", "a": "last", "r": [1, 2]}, {"op": "predict", "actions": a4}, {"op": "predict", "actions": a4}]})
        # the preliminary replay P2 (choice with a zero first weight at uniform 0), through a learner
        cs.append({"t": "bandit", "learner": {"type": "fixed", "pmf": [[0, 1], [1, 1]], "seed": 482549499}, "pool": [CATALOG[7], CATALOG[8]],
                   "hist": [{"op": "predict", "actions": [[0, 0], [1, 0]]}, {"op": "scores", "actions": [[0, 0], [1, 0]]}]})
        # Corral: benign and extreme streams
        rounds = lambda n, **kw: [dict({"actions": [[0, 0], [1, 0], [2, 0]], "r": q(Fraction(i % 5, 4))}, **kw) for i in range(n)]
        bases = [{"type": "eps", "eps": q(0.1), "seed": 2}, {"type": "ucb", "seed": 3}, {"type": "random", "seed": 4}]
        for eta in (q(0.075), q(1), q(10)):
            for T in ("inf", [2, 1], [100, 1]):
                for mode in ("importance", "off-policy"):
                    cs.append({"t": "corral", "bases": bases, "eta": eta, "T": T, "mode": mode, "seed": 1, "pool": pool, "hist": rounds(25, how="least")})
        for T in ("inf", [10, 1]):
            cs.append({"t": "corral", "bases": bases, "eta": q(0.075), "T": T, "mode": "importance", "seed": 1, "pool": pool,
                       "hist": [dict(r_, how="logged", la=i % 3, lp=q([1e-12, 1e-6, 1e-3, .5, 1][i * 7 % 5])) for i, r_ in enumerate(rounds(40))]})
        cs.append({"t": "corral", "bases": [{"type": "fixed", "pmf": [[1, 1], [0, 1]], "seed": 1}, {"type": "fixed", "pmf": [[0, 1], [1, 1]], "seed": 1}],
                   "eta": q(0.5), "T": "inf", "mode": "importance", "seed": 1, "pool": pool[:2], "mis": [[[1, 1], [-1, 1]]],
                   "hist": [{"actions": [[0, 0], [1, 0]], "r": [1, 2], "score": 1} for _ in range(6)]})
        # nested compositions (Corral over Corral / over Misguided(Corral) / over Misguided(eps)), every pair of modes
        for mode in ("off-policy", "importance"):
            for imode in ("off-policy", "importance"):
                nb = [{"type": "corral", "bases": [{"type": "fixed", "pmf": [[1, 1], [0, 1], [0, 1]], "seed": 1}, {"type": "random", "seed": 5}],
                       "eta": q(0.2), "T": "inf", "mode": imode, "seed": 2},
                      {"type": "ucb", "seed": 3},
                      {"type": "corral", "bases": [{"type": "eps", "eps": q(0.2), "seed": 7}, {"type": "fixed", "pmf": [[0, 1], [0, 1], [1, 1]], "seed": 1}],
                       "eta": q(0.075), "T": "inf", "mode": imode, "seed": 4, "mis": [[q(0.25), q(0.5)]]},
                      {"type": "eps", "eps": q(0.1), "seed": 9, "mis": [[[1, 1], [-1, 1]]]}]
                cs.append({"t": "corral", "bases": nb, "eta": q(0.1), "T": [50, 1], "mode": mode, "seed": 4, "pool": pool, "hist": rounds(40, how="on")})
        # different actions whose table keys hash alike (round g, C16-gm2): every colliding pair of the catalogue, every learner that keeps a table
        for g_ in COLLIDE:
            cpool = [CATALOG[g_[0]], CATALOG[g_[1]], CATALOG[7 if 7 not in g_ else 8]]
            al = [min(1, len(CATALOG[g_[0]]) - 1), min(1, len(CATALOG[g_[1]]) - 1)]
            two, three = [[0, 0], [1, 0]], [[1, al[1]], [0, al[0]], [2, 0]]
            chist = [{"op": "scores", "actions": two}, {"op": "learn", "a": [0, 0], "r": [1, 1]}, {"op": "scores", "actions": two}, {"op": "predict", "actions": two},
                     {"op": "learn", "a": [1, 0], "r": [0, 1]}, {"op": "scores", "actions": two}, {"op": "learn", "a": [1, al[1]], "r": [0, 1]},
                     {"op": "scores", "actions": three}, {"op": "predict", "actions": three}, {"op": "learn", "a": "last", "r": [1, 2]},
                     {"op": "scores", "actions": [[0, len(CATALOG[g_[0]]) - 1], [1, len(CATALOG[g_[1]]) - 1]]}, {"op": "predict", "actions": two}]
            for spec in ({"type": "ucb", "seed": 1}, {"type": "eps", "eps": q(0.1), "seed": 1}, {"type": "eps", "eps": [0, 1], "seed": 2},
                         {"type": "ucb", "seed": 3, "mis": [[[1, 1], [-1, 1]]]}):
                cs.append({"t": "bandit", "learner": spec, "pool": cpool, "hist": chist})
            cs.append({"t": "bandit", "learner": {"type": "eps", "eps": q(0.1), "seed": 1}, "pool": cpool, "hist": chist, "safe": True})
            cs.append({"t": "corral", "bases": [{"type": "eps", "eps": q(0.1), "seed": 2}, {"type": "ucb", "seed": 3}, {"type": "eps", "eps": [0, 1], "seed": 4}],
                       "eta": q(0.075), "T": "inf", "mode": "off-policy", "seed": 1, "pool": cpool,
                       "hist": [{"actions": two if i % 3 else three, "r": q(Fraction(i % 5, 4)), "how": "on"} for i in range(12)]})
        # offered lists with EQUAL members whose weights differ (round g, C05-gm2): exact duplicates built as separate objects and ==-equal members of
        # different type; seeds swept so that the later equal member is drawn
        dpool = [CATALOG[14], CATALOG[13], CATALOG[1], CATALOG[2], CATALOG[18]]
        for refs_, pmf_ in (([[0, 0], [1, 0], [0, 0]], [[0, 1], q(0.25), q(0.75)]), ([[0, 0], [1, 0], [0, 1]], [q(0.25), q(0.25), q(0.5)]),
                            ([[2, 0], [2, 1], [3, 0]], [[0, 1], [1, 1], [0, 1]]), ([[2, 2], [3, 0], [2, 1], [2, 0]], [[0, 1], q(0.5), q(0.25), q(0.25)]),
                            ([[4, 0], [4, 1], [4, 3]], [[0, 1], q(0.5), q(0.5)])):
            for seed in (0, 1, 2, 3, 5, 7):
                for lt_ in ("fixed", "pmfpred", "pmfinfo", "random"):
                    sp_ = {"type": lt_, "seed": seed}
                    if lt_ != "random":
                        sp_["pmf"] = pmf_
                    hh = []
                    for i_ in range(6):
                        hh += [{"op": "predict", "actions": refs_}] + ([{"op": "learn", "a": "last", "r": [1, 2]}] if i_ % 2 else [])
                    cs.append({"t": "dups", "learner": sp_, "pool": dpool, "hist": hh})
                    if lt_ == "fixed" and seed in (1, 2):
                        cs.append({"t": "dups", "learner": sp_, "pool": dpool, "hist": hh, "safe": True})
                        cs.append({"t": "dups", "learner": dict(sp_, mis=[[q(0.5), q(-1)]]), "pool": dpool, "hist": hh})
        cs.extend(eqm_corpus())
        cs.append({"t": "witness", "name": "importance_feedback_unbounded", "hist": []})
        cs.append({"t": "witness", "name": "keyeq_sweep", "hist": []})
        cs.append({"t": "witness", "name": "ucb_equal_members", "hist": []})
        # replays of recorded (now fixed) findings and other hand-made cases: corpus/C16/*.json
        d = os.path.join(os.path.dirname(os.path.dirname(os.path.dirname(os.path.abspath(__file__)))), "corpus", "C16")
        if os.path.isdir(d):
            for nm in sorted(os.listdir(d)):
                if nm.endswith(".json"):
                    with open(os.path.join(d, nm), encoding="utf-8") as f:
                        cs.append(json.load(f))
        return cs

    def evaluate(self, case, driver):
        # the learners under test keep all state in the instances built here (no module-level state is touched)
        if case["t"] == "witness":
            return run_witness(case, driver)
        if case["t"] == "bandit":
            return run_bandit(case, driver)
        if case["t"] == "dups":
            return run_dups(case, driver)
        return run_corral(case, driver)

    def shrink(self, case):
        if case["t"] == "witness":
            return
        hist = case["hist"]
        n = len(hist)
        for cut in (n // 2, n - 1):
            if 0 < cut < n:
                yield dict(case, hist=hist[:cut])
        for k in range(n - 1, -1, -1):
            yield dict(case, hist=hist[:k] + hist[k + 1:])
        if case["t"] == "dups":
            return
        if case["t"] == "bandit":
            if case["learner"].get("mis"):
                yield dict(case, learner={k: v for k, v in case["learner"].items() if k != "mis"})
            for k, op in enumerate(hist):
                if op.get("ctx") not in (None, ["n", None]):
                    yield dict(case, hist=hist[:k] + [dict(op, ctx=["n", None])] + hist[k + 1:])
                if op["op"] in ("predict", "scores") and len(op["actions"]) > 1 and case["learner"]["type"] != "fixed":
                    for j in range(len(op["actions"])):
                        yield dict(case, hist=hist[:k] + [dict(op, actions=op["actions"][:j] + op["actions"][j + 1:])] + hist[k + 1:])
        else:
            if case.get("mis"):
                yield {k: v for k, v in case.items() if k != "mis"}
            if len(case["bases"]) > 1 and not any(b["type"] == "fixed" for b in case["bases"]):
                for j in range(len(case["bases"])):
                    yield dict(case, bases=case["bases"][:j] + case["bases"][j + 1:])
            for j, b in enumerate(case["bases"]):
                if b["type"] != "random" and b["type"] != "fixed":
                    yield dict(case, bases=case["bases"][:j] + [{"type": "random", "seed": b["seed"]}] + case["bases"][j + 1:])
            for k, op in enumerate(hist):
                if op.get("score") is not None:
                    yield dict(case, hist=hist[:k] + [{kk: vv for kk, vv in op.items() if kk != "score"}] + hist[k + 1:])

    def snippet(self, case):
        try:
            if case["t"] == "witness":
                return "# witness %s: see run_witness in harness/props/c16.py\n" % case.get("name")
            if case["t"] == "dups":
                return snippet_dups(case)
            return snippet_bandit(case) if case["t"] == "bandit" else snippet_corral(case)
        except Exception as e:      # never let a reporting helper hide the finding
            return "# snippet generation failed: %r\n# case: %s\n" % (e, json.dumps(case))


PROPERTY = C16()
