"""C05 Random streams are a pure, contract-respecting function of the seed."""
import json
import math
import os
import re
import subprocess
import sys
from fractions import Fraction

from core.engine import Property, F
from core import lean

A, C, M = 116646453, 9, 2 ** 30
AINV = pow(A, -1, M)


def lcg(s):
    return (A * s + C) % M


def seed_for(k, target):
    """a seed in [0,M) whose k-th state (k>=1) equals `target`"""
    s = target
    for _ in range(k):
        s = ((s - C) * AINV) % M
    return s


def q(x):
    """exact rational of an int/float as [num,den]"""
    if isinstance(x, bool):
        x = int(x)
    if isinstance(x, int):
        return [x, 1]
    n, d = Fraction(x).as_integer_ratio() if not isinstance(x, Fraction) else (x.numerator, x.denominator)
    return [n, d]


def unq(p):
    return Fraction(p[0], p[1])


def tofloat(p):
    return p[0] / p[1]


def mk_seed(sd):
    k = sd["kind"]
    if k == "int":
        return int(sd["v"])
    if k == "bool":
        return bool(sd["v"])
    if k == "float":
        return float(sd["v"])
    if k == "str":
        return sd["v"]
    raise ValueError(k)


def run_cycle(case):
    """(B) for theorem `period`: the stream of a seed must not return to its start before 2^30 draws.
    Observed through the public API only: the uniforms after `steps` draws are compared with the first ones
    (the uniform IS the state of this generator, so one equal pair at the same phase means the stream repeats)."""
    import coba.random as cr
    c = case["cycle"]
    r = cr.CobaRandom(c["seed"])
    first = [r.random() for _ in range(4)]
    left = c["steps"] - 4
    while left > 0:
        n = min(left, 1 << 20)
        r.randoms(n)
        left -= n
    again = [r.random() for _ in range(4)]
    return {"first": [q(x) for x in first], "again": [q(x) for x in again], "repeats": first == again}


def affine_period(a, c, m, s0, cap):
    """smallest P = 2^j <= cap with x_P = x_0 for x -> (a*x+c) % m (m a power of two), by squaring the affine map; None if none"""
    A_, C_ = a % m, c % m
    P = 1
    while P <= cap:
        if (A_ * s0 + C_) % m == s0 % m:
            return P
        A_, C_ = (A_ * A_) % m, (A_ * C_ + C_) % m
        P *= 2
    return None


def seed_for_model(sd):
    v = mk_seed(sd)
    if isinstance(v, int) or (isinstance(v, float) and v.is_integer()):
        return {"int": int(v)}
    return {"bytes": list(str(v).encode("utf-8"))}


ERRS = {ValueError: "ValueError", IndexError: "IndexError", StopIteration: "StopIteration", ZeroDivisionError: "ZeroDivisionError",
        TypeError: "TypeError"}


class Item:
    """sequence member: equal by label (so sequences can hold equal members), identified by uid"""
    def __init__(self, label, uid):
        self.label, self.uid = label, uid
    def __eq__(self, other):
        return isinstance(other, Item) and other.label == self.label
    def __hash__(self):
        return hash(self.label)
    def __repr__(self):
        return "Item(%r,#%d)" % (self.label, self.uid)


def ident_index(seq, r):
    for k, x in enumerate(seq):
        if x is r:
            return k
    raise RuntimeError("choice returned an object that is not a member of the sequence: %r" % (r,))


def run_history(case, fork=False):
    """run the history against the real coba.random; returns list of outputs (one per hist entry).
    fork=True: the generators are created (and the module-level one seeded) in this process, the calls are
    then made in a child created by os.fork() -- a forked child must continue the same streams."""
    import coba.random as cr
    import random as pyrandom
    insts = []
    for i, sd in enumerate(case["seeds"]):
        if sd.get("module"):
            cr.seed(mk_seed(sd))
            insts.append(None)
        else:
            insts.append(cr.CobaRandom(mk_seed(sd)))
    if fork:
        r, w = os.pipe()
        pid = os.fork()
        if pid == 0:
            code = 1
            try:
                os.close(r)
                outs = _run_calls(case, cr, pyrandom, insts)
                with os.fdopen(w, "w") as f:
                    f.write(json.dumps(outs, default=str))
                code = 0
            finally:
                os._exit(code)
        os.close(w)
        with os.fdopen(r) as f:
            data = f.read()
        os.waitpid(pid, 0)
        return json.loads(data) if data else [{"err": "fork-child-failed"}]
    return _run_calls(case, cr, pyrandom, insts)


def _run_calls(case, cr, pyrandom, insts):
    dead = set()
    outs = []
    other = cr.CobaRandom(12345)
    shared_w = {}
    for h in case["hist"]:
        op = h["op"]
        if op == "noise":
            w = h["what"]
            if w == "pyseed":
                pyrandom.seed(h.get("v", 1))
            elif w == "pyrandom":
                pyrandom.random()
            elif w == "other":
                other.random(); other.shuffle([1, 2, 3]); other.gauss()
            elif w == "newinst":
                cr.CobaRandom(h.get("v", 7)).randoms(3)
            outs.append({"noise": 1})
            continue
        i = h["i"]
        if i in dead:
            outs.append({"skipped": 1})
            continue
        g = insts[i] if insts[i] is not None else cr
        try:
            if op == "random":
                outs.append({"rat": q(g.random(tofloat(h["lo"]) if h["lo"][1] != 1 else h["lo"][0], tofloat(h["hi"]) if h["hi"][1] != 1 else h["hi"][0]))})
            elif op == "randoms":
                outs.append({"rats": [q(x) for x in g.randoms(h["n"], tofloat(h["lo"]) if h["lo"][1] != 1 else h["lo"][0], tofloat(h["hi"]) if h["hi"][1] != 1 else h["hi"][0])]})
            elif op == "randint":
                outs.append({"int": int(g.randint(h["a"], h["b"]))})
            elif op == "randints":
                outs.append({"ints": [int(x) for x in g.randints(h["n"], h["a"], h["b"])]})
            elif op == "shuffle":
                items = list(range(h["n"]))
                if h.get("inplace"):
                    r = g.shuffle(items, True)
                    r = list(items)
                elif h.get("iter"):
                    r = g.shuffle(iter(items))
                else:
                    r = g.shuffle(items)
                    if items != list(range(h["n"])):
                        r = ["input-mutated"]
                outs.append({"perm": list(r)})
            elif op in ("choice", "choicew"):
                labels = h.get("labels") or list(range(h["n"]))
                seq = [Item(labels[k], k) for k in range(h["n"])]
                w = h.get("w")
                if w is not None:
                    w = [(p[0] if p[1] == 1 else tofloat(p)) for p in w]
                    if h.get("wshare") is not None:
                        # the caller re-uses ONE weights list object, changing it in place between calls
                        buf = shared_w.setdefault((i, h["wshare"]), [])
                        buf[:] = w
                        w = buf
                if op == "choice":
                    r = g.choice(seq, w) if (w is not None or h.get("explicit_none")) else g.choice(seq)
                    outs.append({"idx": ident_index(seq, r)})
                else:
                    r, rw = g.choicew(seq, w) if (w is not None or h.get("explicit_none")) else g.choicew(seq)
                    outs.append({"idx": ident_index(seq, r), "w": q(rw)})
            elif op == "gauss":
                outs.append({"gaussv": [g.gauss(h.get("mu", 0), h.get("sigma", 1))]})
            elif op == "gausses":
                outs.append({"gaussv": list(g.gausses(h["n"], h.get("mu", 0), h.get("sigma", 1)))})
            else:
                raise RuntimeError("bad op " + op)
        except tuple(ERRS) as e:
            outs.append({"err": ERRS[type(e)]})
            if op in ("gauss", "gausses") or type(e) not in (ValueError, IndexError):
                dead.add(i)     # a generator that raised is finished; documented rejections leave the stream usable
    return outs


def finite_json(o):
    """gauss values may be inf/nan in a broken implementation: keep them printable"""
    return json.loads(json.dumps(o, default=str).replace("Infinity", '"inf"').replace("NaN", '"nan"'))


class C05(Property):
    id = "C05"
    prop_modules = ["CobaVerif.Props.C05"]
    quick_n = 2500
    thorough_n = 60000
    search_n = 4000
    case_timeout = 60
    rule = ("histories of 1-30 calls over 1-3 CobaRandom instances + the module-level instance, seeds int/bool/float/str and "
            "boundary seeds (k-th uniform = 0 or 1-2^-30, computed by modular inverse), dyadic bounds so every float operation is exact; "
            "non-trivial = at least 3 value-returning calls; distinct by canonical JSON of the case")
    trusted_base = [
        "float arithmetic on the generated (dyadic, few-bit) operands is exact, so the model's rationals equal the implementation's doubles; "
        "for wide bounds the comparison uses 1e-12 relative tolerance",
        "libm log/sqrt/cos/sin: the Box-Muller value is recomputed in the harness from the model's two uniform numerators",
        "str(seed) for non-integer seeds is computed by CPython in the harness and passed to the model as bytes",
    ]
    assumptions = ["seed None/'' (time-seeded) excluded as in the property", "negative weights are outside the contract"]
    partial_theorems = {}

    # ---- translator part: LCG constants are re-extracted from the source on every run
    def pre_build(self):
        src = open(os.path.join(os.environ.get("COBA_REPO", "/repo"), "coba", "random.py"), encoding="utf-8").read()
        m = re.search(r"_next_uniform\(\s*(\d+)\s*,\s*seed\s*,\s*(\d+)\s*,\s*(\d+)\s*\*\*\s*(\d+)\s*\)", src)
        path = os.path.join(lean.LEAN_DIR, "CobaVerif", "Generated", "LcgConsts.lean")
        if m:
            a, c, base, ex = (int(x) for x in m.groups())
            self._extracted = (a, c, base ** ex)
            body = ("-- GENERATED by harness/props/c05.py from coba/random.py on every run; do not edit.\n"
                    "namespace Coba.Generated\ndef lcgA : Nat := %d\ndef lcgC : Nat := %d\ndef lcgM : Nat := %d\n"
                    "def lcgExtracted : Bool := true\nend Coba.Generated\n" % (a, c, base ** ex))
            note = "LCG constants extracted from coba/random.py: a=%d c=%d m=%d" % (a, c, base ** ex)
        else:
            body = ("-- GENERATED: the call `_next_uniform(a,seed,c,m)` was not found in coba/random.py (code reshaped);\n"
                    "-- the side obligation `lcg_consts_match` is then stated about the model's own constants only.\n"
                    "namespace Coba.Generated\ndef lcgA : Nat := 116646453\ndef lcgC : Nat := 9\ndef lcgM : Nat := 1073741824\n"
                    "def lcgExtracted : Bool := false\nend Coba.Generated\n")
            note = "LCG constants could not be extracted (source reshaped); stream correspondence still pins them"
        old = open(path, encoding="utf-8").read() if os.path.exists(path) else None
        if old != body:
            os.makedirs(os.path.dirname(path), exist_ok=True)
            with open(path, "w", encoding="utf-8") as f:
                f.write(body)
        return [note]

    # ---- generators
    def gen_seed(self, rng, boundary_ok=True):
        r = rng.below(100)
        if boundary_ok and r < 30:
            k = rng.randint(1, 6)
            t = rng.choice([0, 0, M - 1, M - 1, 1, M // 2, M - 2])
            s = seed_for(k, t)
            if rng.chance(0.3):
                s += M * rng.randint(-3, 3)
            return {"kind": "int", "v": s}
        if r < 55:
            return {"kind": "int", "v": rng.choice([rng.randint(0, 10), rng.randint(-1000, 1000), rng.randint(0, 2 ** 40), -rng.randint(0, 2 ** 35), rng.randint(0, M - 1)])}
        if r < 60:
            return {"kind": "bool", "v": rng.chance(0.5)}
        if r < 72:
            return {"kind": "float", "v": repr(float(rng.choice([0, 3, -2, 10 ** 10, rng.randint(0, 10 ** 6), 2 ** 31 + 5])))}
        if r < 84:
            return {"kind": "float", "v": repr(rng.choice([1.5, 0.1, -3.25, 2.5e-7, 1e300 / 3, rng.randint(1, 999) / 7]))}
        if r < 88:
            return {"kind": "float", "v": rng.choice(["nan", "inf", "-inf"])}
        return {"kind": "str", "v": rng.choice(["abc", "0", "seed", "été", "a b", "1.5", "x" * rng.randint(1, 12), "中"])}

    def gen_dy(self, rng, lo_ok=True):
        j = rng.choice([0, 0, 1, 2, 3, 8])
        n = rng.randint(-(2 ** 8), 2 ** 8) * (2 ** j) + (rng.randint(-3, 3) if j else 0)
        n = max(-(2 ** (8 + j)), min(2 ** (8 + j), n))
        fr = Fraction(n, 2 ** j)
        return fr

    def gen_weights(self, rng, n):
        r = rng.below(100)
        if r < 25:
            return None
        if r < 30:
            return [[0, 1]] * n                       # all zero -> ValueError
        if r < 35:
            return [[1, 1]] * (n + rng.randint(1, 2))  # wrong length
        if r < 38:
            return []
        kind = rng.below(3)
        ws = []
        for _ in range(n):
            if rng.chance(0.35):
                ws.append([0, 1])
            elif kind == 0:
                ws.append([rng.randint(1, 5), 1])
            elif kind == 1:
                ws.append(q(Fraction(rng.randint(1, 16), 8)))
            else:
                ws.append(q(Fraction(rng.randint(1, 7), 2 ** rng.randint(0, 4))))
        return ws

    def gen_op(self, rng, i):
        r = rng.below(100)
        if r < 18:
            lo = self.gen_dy(rng)
            d = Fraction(rng.randint(1, 2 ** 9), 2 ** rng.choice([0, 0, 1, 4, 8]))
            if rng.chance(0.2):
                lo, d = Fraction(0), Fraction(1)
            return {"i": i, "op": "random", "lo": q(lo), "hi": q(lo + d), "exact": True}
        if r < 24:   # wide bounds: float rounding may occur (tolerance comparison)
            e = rng.randint(10, 20)
            hi = Fraction(rng.choice([1, -1]) * 2 ** e)
            d = Fraction(1, 2 ** rng.randint(0, 20))
            if rng.chance(0.5):
                return {"i": i, "op": "random", "lo": q(hi - d), "hi": q(hi), "exact": False}
            return {"i": i, "op": "random", "lo": q(hi), "hi": q(hi + d), "exact": False}
        if r < 32:
            lo = self.gen_dy(rng)
            d = Fraction(rng.randint(1, 2 ** 9), 2 ** rng.choice([0, 0, 1, 4]))
            if rng.chance(0.3):
                lo, d = Fraction(0), Fraction(1)
            if rng.chance(0.2):
                d = Fraction(1)
            return {"i": i, "op": "randoms", "n": rng.randint(0, 5), "lo": q(lo), "hi": q(lo + d), "exact": True}
        if r < 44:
            a = rng.choice([0, 1, rng.randint(-1000, 1000), rng.randint(-1000, 1000), 10 ** 12, -(10 ** 12), 2 ** 53 + 1, -(2 ** 53) - 3, 2 ** 62])
            b = a + rng.choice([0, 1, 2, 5, rng.randint(0, 50), rng.randint(0, 2 ** 22)])
            return {"i": i, "op": "randint", "a": a, "b": b}
        if r < 50:
            a = rng.choice([0, 0, 1, rng.randint(-1000, 1000), rng.randint(-1000, 1000), 10 ** 12, 2 ** 53 + 1, -(2 ** 53) - 3])
            b = a + rng.choice([0, 1, 2, 5, rng.randint(0, 50), rng.randint(0, 2 ** 22)])
            return {"i": i, "op": "randints", "n": rng.randint(0, 5), "a": a, "b": b}
        if r < 64:
            h = {"i": i, "op": "shuffle", "n": rng.choice([0, 1, 2, 2, 3, 4, 5, 7, 9])}
            m = rng.below(4)
            if m == 0:
                h["inplace"] = True
            elif m == 1:
                h["iter"] = True
            return h
        if r < 76:
            n = rng.choice([0, 1, 1, 2, 2, 3, 4, 6]) if rng.chance(0.15) else rng.choice([1, 1, 2, 2, 3, 4, 6])
            h = {"i": i, "op": "choice", "n": n, "w": self.gen_weights(rng, n)}
            if n > 1 and rng.chance(0.4):
                h["labels"] = [rng.below(2) for _ in range(n)]
            if h["w"] is not None and rng.chance(0.5):
                h["wshare"] = rng.below(2)
            if h["w"] is None and rng.chance(0.3):
                h["explicit_none"] = True
            return h
        if r < 86:
            n = rng.choice([1, 1, 2, 2, 3, 4, 6])
            h = {"i": i, "op": "choicew", "n": n, "w": self.gen_weights(rng, n)}
            if n > 1 and rng.chance(0.4):
                h["labels"] = [rng.below(2) for _ in range(n)]
            if h["w"] is not None and rng.chance(0.5):
                h["wshare"] = rng.below(2)
            return h
        if r < 94:
            h = {"i": i, "op": "gauss"}
            if rng.chance(0.3):
                h["mu"], h["sigma"] = rng.randint(-5, 5), rng.randint(0, 4)
            return h
        h = {"i": i, "op": "gausses", "n": rng.randint(0, 5)}
        if rng.chance(0.3):
            h["mu"], h["sigma"] = rng.randint(-5, 5), rng.randint(0, 4)
        return h

    def generate(self, rng, tier):
        ninst = rng.choice([1, 1, 2, 2, 3])
        seeds = [self.gen_seed(rng) for _ in range(ninst)]
        if rng.chance(0.35):
            sd = self.gen_seed(rng)
            sd["module"] = True
            seeds.append(sd)
        nops = rng.choice([1, 2, 3, 5, 8, 12, 20, 30])
        hist = []
        for _ in range(nops):
            if rng.chance(0.12):
                hist.append({"op": "noise", "what": rng.choice(["pyseed", "pyrandom", "other", "newinst"]), "v": rng.randint(0, 99)})
            else:
                hist.append(self.gen_op(rng, rng.below(len(seeds))))
        case = {"seeds": seeds, "hist": hist}
        if rng.chance(0.01 if tier == "quick" else 0.003):
            case["subprocess"] = True
        if rng.chance(0.04 if tier == "quick" else 0.01):
            case["fork"] = True
        return case

    def search(self, rng, tier):
        ext = getattr(self, "_extracted", None)
        if ext and ext != (A, C, M) and not getattr(self, "_cycle_tried", False):
            # the source's LCG constants are not the proved ones: compute the period they give and replay it on the real code
            self._cycle_tried = True
            a, c, m = ext
            cap = (1 << 29) if tier == "thorough" else (1 << 27)
            if m & (m - 1) == 0:
                best = None
                for sd in list(range(64)) + [1 << k for k in range(6, 30)]:
                    P = affine_period(a, c, m, sd % m, cap)
                    if P is not None and P < (1 << 30) and (best is None or P < best[1]):
                        best = (sd, P)
                if best:
                    return {"cycle": {"seed": best[0], "steps": max(best[1], 8)}}
        # boundary-biased: one instance, a boundary seed, short history so the special uniform lands on each method
        k = rng.randint(1, 4)
        t = rng.choice([0, M - 1])
        seeds = [{"kind": "int", "v": seed_for(k, t)}]
        hist = []
        for _ in range(k - 1):
            hist.append({"i": 0, "op": "random", "lo": [0, 1], "hi": [1, 1], "exact": True})
        for _ in range(rng.randint(1, 3)):
            hist.append(self.gen_op(rng, 0))
        return {"seeds": seeds, "hist": hist}

    def corpus(self):
        cyc = [{"cycle": {"seed": sd, "steps": 1 << k}} for sd, k in ((0, 4), (1, 10), (7, 16), (482549499, 18), (123456789, 20))]
        return cyc + self.corpus_histories()

    def corpus_histories(self):
        s0 = seed_for(1, 0)
        smax = seed_for(1, M - 1)
        cs = []
        one = {"i": 0, "op": "random", "lo": [0, 1], "hi": [1, 1], "exact": True}
        for s in (s0, smax, seed_for(2, 0), seed_for(2, M - 1), seed_for(3, 0)):
            for op in ({"op": "gauss"}, {"op": "gausses", "n": 3}, {"op": "choice", "n": 2, "w": [[0, 1], [1, 1]]},
                       {"op": "choicew", "n": 3, "w": [[0, 1], [0, 1], [3, 1]]}, {"op": "choice", "n": 3, "w": None},
                       {"op": "randint", "a": 0, "b": 4194303}, {"op": "shuffle", "n": 5}, {"op": "randints", "n": 3, "a": 5, "b": 9},
                       {"op": "random", "lo": [-3, 1], "hi": [5, 2], "exact": True},
                       {"op": "random", "lo": q(Fraction(2 ** 20) - Fraction(1, 2 ** 20)), "hi": [2 ** 20, 1], "exact": False}):
                for pre in (0, 1, 2):
                    h = [dict(one) for _ in range(pre)] + [dict(op, i=0)]
                    cs.append({"seeds": [{"kind": "int", "v": s}], "hist": h})
        for s in (1, 7, s0):
            cs.append({"seeds": [{"kind": "int", "v": s}], "hist": [
                {"i": 0, "op": "choicew", "n": 3, "w": [[1, 1], [0, 1], [0, 1]], "wshare": 0},
                {"i": 0, "op": "choicew", "n": 3, "w": [[0, 1], [0, 1], [1, 1]], "wshare": 0},
                {"i": 0, "op": "choice", "n": 3, "w": [[0, 1], [2, 1], [0, 1]], "wshare": 0},
                {"i": 0, "op": "choice", "n": 3, "w": [[0, 1], [0, 1], [0, 1]], "wshare": 0},
                {"i": 0, "op": "choicew", "n": 2, "w": [[0, 1], [5, 1]], "wshare": 0}]})
        cs.append({"seeds": [{"kind": "int", "v": 5, "module": True}, {"kind": "int", "v": 9}],
                   "hist": [dict(one, i=0), dict(one, i=1), {"i": 0, "op": "shuffle", "n": 5}, {"i": 0, "op": "gauss"}], "fork": True})
        for s in (smax, s0, 7):
            cs.append({"seeds": [{"kind": "int", "v": s}], "hist": [{"i": 0, "op": "randint", "a": 10 ** 12, "b": 10 ** 12 + 5},
                                                                     {"i": 0, "op": "randint", "a": 2 ** 53 + 1, "b": 2 ** 53 + 3},
                                                                     {"i": 0, "op": "randints", "n": 3, "a": -(2 ** 53) - 3, "b": -(2 ** 53) - 1}]})
        cs.append({"seeds": [{"kind": "str", "v": "abc"}, {"kind": "float", "v": "1.5"}, {"kind": "float", "v": "3.0"}],
                   "hist": [dict(one, i=0), dict(one, i=1), dict(one, i=2), {"i": 0, "op": "shuffle", "n": 6}], "subprocess": True})
        return cs

    # ---- evaluation
    def evaluate(self, case, driver):
        fails, tags = [], []
        if "cycle" in case:
            o = run_cycle(case)
            c = case["cycle"]
            tags.append("cycle:2^%d" % (c["steps"].bit_length() - 1) if c["steps"] & (c["steps"] - 1) == 0 else "cycle:%d" % c["steps"])
            if o["repeats"] and c["steps"] % M != 0:
                fails.append(F("B", "CobaRandom(%d): after %d draws (< 2^30) the stream is back at its start and repeats: draws %d.. equal draws 1.. (%s)"
                               % (c["seed"], c["steps"], c["steps"] + 1, json.dumps(o["first"])), "stream-short-cycle"))
            # (A)/(C): the model's closed form says where the stream is after `steps` draws
            if driver is not None:
                ans = driver.ask({"seeds": [{"int": c["seed"]}], "hist": [{"i": 0, "op": "random", "lo": [0, 1], "hi": [1, 1]}] * 4})
                mo = [x[1].get("rat") for x in ans["model"]]
                if mo != o["first"]:
                    fails.append(F("A", "first four uniforms of seed %d: implementation %s, model %s" % (c["seed"], o["first"], mo), "A:cycle-first"))
            return {"fails": fails, "nontrivial": True, "tags": tags, "impl": o, "model": None}
        impl = run_history(case)
        hist = case["hist"]
        n_values = 0
        # (B) contracts, directly on the implementation's outputs
        for h, o in zip(hist, impl):
            op = h["op"]
            if op == "noise" or "skipped" in o:
                continue
            tags.append("op:" + op)
            if "err" in o:
                tags.append("err:" + o["err"])
                legit = True
                if op in ("choice", "choicew"):
                    w = h.get("w")
                    n = h["n"]
                    if n == 0 or (w is not None and (len(w) != n or sum(unq(p) for p in w) == 0)):
                        legit = False       # documented rejections / empty sequence
                if op in ("randoms", "randints", "gausses") and h.get("n", 1) < 0:
                    legit = False
                if legit:
                    fails.append(F("B", "%s raised %s on legal arguments %s (seeds %s)" % (op, o["err"], json.dumps(h), json.dumps(case["seeds"])),
                                   "%s-raises-%s" % (op, o["err"])))
                continue
            n_values += 1
            if op in ("random", "randoms"):
                lo, hi = unq(h["lo"]), unq(h["hi"])
                xs = [o["rat"]] if op == "random" else o["rats"]
                if op == "randoms" and len(xs) != h["n"]:
                    fails.append(F("B", "randoms(%d) returned %d values" % (h["n"], len(xs)), "randoms-length"))
                for x in xs:
                    x = unq(x)
                    if not (lo <= x < hi):
                        at = "max" if x == hi else ("above" if x > hi else "below")
                        sig = "random-out-of-range-" + at
                        # even the exact value for the largest uniform, hi-(hi-lo)/2^30, rounds to hi in double precision
                        if x == hi and Fraction(float(hi - (hi - lo) / M)) == hi:
                            sig = "random-rounds-to-max"
                        fails.append(F("B", "%s(%s,%s) returned %s which is not in [min,max)" % (op, lo, hi, x), sig))
            elif op in ("randint", "randints"):
                xs = [o["int"]] if op == "randint" else o["ints"]
                if op == "randints" and len(xs) != h["n"]:
                    fails.append(F("B", "randints(%d) returned %d values" % (h["n"], len(xs)), "randints-length"))
                for x in xs:
                    if not (h["a"] <= x <= h["b"]):
                        fails.append(F("B", "%s(%d,%d) returned %d" % (op, h["a"], h["b"], x), "randint-out-of-range"))
            elif op == "shuffle":
                if sorted(o["perm"], key=str) != list(range(h["n"])):
                    fails.append(F("B", "shuffle(range(%d)) returned %s: not a permutation / input mutated" % (h["n"], o["perm"]), "shuffle-not-perm"))
            elif op in ("choice", "choicew"):
                w = h.get("w")
                i = o["idx"]
                if w is not None:
                    if unq(w[i]) == 0:
                        fails.append(F("B", "%s returned member %d whose weight is 0 (weights %s, seeds %s)" % (op, i, w, json.dumps(case["seeds"])), "choice-zero-weight"))
                    if op == "choicew" and unq(o["w"]) != unq(w[i]):
                        fails.append(F("B", "choicew reported weight %s for member %d whose weight is %s" % (o["w"], i, w[i]), "choicew-wrong-weight"))
                elif op == "choicew" and unq(o["w"]) != unq(q(1 / h["n"])):
                    fails.append(F("B", "choicew without weights reported %s, expected 1/%d" % (o["w"], h["n"]), "choicew-wrong-weight"))
            elif op in ("gauss", "gausses"):
                if op == "gausses" and len(o["gaussv"]) != h["n"]:
                    fails.append(F("B", "gausses(%d) returned %d values" % (h["n"], len(o["gaussv"])), "gausses-length"))
                for v in o["gaussv"]:
                    if not (isinstance(v, float) and math.isfinite(v)):
                        fails.append(F("B", "gauss returned %r" % (v,), "gauss-not-finite"))
        # (B) purity: each instance alone (fresh objects, no noise) gives the same values
        for i in range(len(case["seeds"])):
            alone = {"seeds": [dict(case["seeds"][i])], "hist": [dict(h, i=0) for h in hist if h.get("i") == i]}
            if len(case["seeds"]) == 1 and not any(h["op"] == "noise" for h in hist):
                break
            exp = run_history(alone)
            got = [o for h, o in zip(hist, impl) if h.get("i") == i]
            if json.dumps(exp, default=str) != json.dumps(got, default=str):
                fails.append(F("B", "instance %d (seed %s) produced different values when its calls were interleaved with other generators: alone %s, interleaved %s"
                               % (i, case["seeds"][i], json.dumps(exp, default=str)[:300], json.dumps(got, default=str)[:300]), "not-pure-interleaving"))
        if len(case["seeds"]) > 1:
            tags.append("multi-instance")
        # (B) repeatability incl. another process
        again = run_history(case)
        if json.dumps(again, default=str) != json.dumps(impl, default=str):
            fails.append(F("B", "the same history gave different values on a second run in the same process", "not-repeatable"))
        if case.get("fork"):
            tags.append("fork")
            forked = run_history(case, fork=True)
            if json.dumps(forked, default=str) != json.dumps(json.loads(json.dumps(impl, default=str))):
                fails.append(F("B", "a child created by fork() after the generators were seeded produced different values: child %s, parent %s"
                               % (json.dumps(forked, default=str)[:300], json.dumps(impl, default=str)[:300]), "not-pure-fork"))
        if case.get("subprocess"):
            tags.append("subprocess")
            code = ("import sys,json; sys.path.insert(0,%r); sys.path.insert(0,%r); import warnings; warnings.filterwarnings('ignore');"
                    "from props.c05 import run_history; print(json.dumps(run_history(json.loads(sys.stdin.read())),default=str))"
                    % (os.environ.get("COBA_REPO", "/repo"), os.path.join(lean.VERIF, "harness")))
            p = subprocess.run([sys.executable, "-W", "ignore", "-c", code], input=json.dumps(case), capture_output=True, text=True, timeout=50)
            if p.returncode != 0 or p.stdout.strip() != json.dumps(impl, default=str):
                fails.append(F("B", "another process produced different values: %s %s" % (p.stdout[:200], p.stderr[-200:]), "not-pure-process"))
        # (A) correspondence with the Lean model
        model = None
        if driver is not None:
            mhist, midx = [], []
            for k, (h, o) in enumerate(zip(hist, impl)):
                if h["op"] == "noise" or "skipped" in o:
                    continue
                mh = {kk: vv for kk, vv in h.items() if kk in ("i", "op", "lo", "hi", "n", "a", "b", "w")}
                mhist.append(mh)
                midx.append(k)
            ans = driver.ask({"seeds": [seed_for_model(s) for s in case["seeds"]], "hist": mhist})
            model = ans["model"]
            for (inst, mo), k in zip(model, midx):
                h, o = hist[k], impl[k]
                d = self.compare(h, o, mo)
                if d:
                    fails.append(F("A", "call #%d %s: implementation %s, model %s (%s)" % (k, json.dumps(h), json.dumps(o, default=str)[:200], json.dumps(mo)[:200], d), "A:" + h["op"]))
            # (C) frame theorem, run-time sanity: model interleaved = model alone
            alone = ans["alone"]
            for i in range(len(case["seeds"])):
                proj = [mo for (inst, mo) in model if inst == i]
                if proj != alone[i]:
                    fails.append(F("C", "model: interleaved run of instance %d differs from running it alone" % i, "C:frame"))
        return {"fails": fails, "nontrivial": n_values >= 3, "tags": tags, "impl": finite_json(impl), "model": model}

    def compare(self, h, o, mo):
        op = h["op"]
        if "err" in o or "err" in mo:
            if o.get("err") != mo.get("err"):
                return "exception differs"
            return None
        if op == "random":
            return self.cmp_rat(o["rat"], mo["rat"], h.get("exact", True))
        if op == "randoms":
            if len(o["rats"]) != len(mo["rats"]):
                return "length differs"
            for a, b in zip(o["rats"], mo["rats"]):
                d = self.cmp_rat(a, b, h.get("exact", True))
                if d:
                    return d
            return None
        if op == "randint":
            return None if o["int"] == mo["int"] else "value differs"
        if op == "randints":
            return None if o["ints"] == mo["ints"] else "values differ"
        if op == "shuffle":
            return None if o["perm"] == mo["perm"] else "permutation differs"
        if op == "choice":
            return None if o["idx"] == mo["idx"] else "index differs"
        if op == "choicew":
            if o["idx"] != mo["idx"]:
                return "index differs"
            return None if unq(o["w"]) == unq(mo["w"]) or abs(unq(o["w"]) - unq(mo["w"])) <= Fraction(1, 10 ** 15) else "weight differs"
        if op in ("gauss", "gausses"):
            ds = mo["gauss"]
            if len(ds) != len(o["gaussv"]):
                return "length differs"
            mu, sigma = h.get("mu", 0), h.get("sigma", 1)
            for v, (k1, k2, is_cos) in zip(o["gaussv"], ds):
                R = math.sqrt(-2 * math.log(k1 / M))
                S = 2 * math.pi * (k2 / M)
                e = mu + sigma * (R * math.cos(S) if is_cos else R * math.sin(S))
                if not (isinstance(v, float) and abs(v - e) <= 1e-12 * max(1.0, abs(e))):
                    return "gaussian value differs from Box-Muller of the model's uniforms (%r vs %r)" % (v, e)
            return None
        return "unknown op"

    def cmp_rat(self, a, b, exact):
        a, b = unq(a), unq(b)
        if a == b:
            return None
        if not exact and abs(a - b) <= Fraction(1, 10 ** 12) * max(1, abs(b)):
            return None
        return "value differs (impl %s, model %s)" % (a, b)

    def shrink(self, case):
        if "cycle" in case:
            return
        hist = case["hist"]
        for k in range(len(hist)):
            c = dict(case, hist=hist[:k] + hist[k + 1:])
            c.pop("subprocess", None)
            yield c
        if len(case["seeds"]) > 1:
            for i in range(len(case["seeds"])):
                used = [h for h in hist if h.get("i") == i]
                if not used:
                    seeds = case["seeds"][:i] + case["seeds"][i + 1:]
                    nh = [dict(h, i=h["i"] - 1) if h.get("i", -1) > i else h for h in hist]
                    yield dict(case, seeds=seeds, hist=nh)
        for k, h in enumerate(hist):
            if h.get("n", 0) > 1 and h["op"] in ("randoms", "randints", "gausses"):
                yield dict(case, hist=hist[:k] + [dict(h, n=h["n"] - 1)] + hist[k + 1:])

    def snippet(self, case):
        if "cycle" in case:
            return ("import sys; sys.path[:0]=['/repo']\nfrom coba.random import CobaRandom\nr=CobaRandom(%d); a=[r.random() for _ in range(4)]\n"
                    "left=%d-4\nwhile left>0:\n    n=min(left,1<<20); r.randoms(n); left-=n\nb=[r.random() for _ in range(4)]\nprint(a==b, a, b)  # True: the stream repeats after %d draws\n"
                    % (case["cycle"]["seed"], case["cycle"]["steps"], case["cycle"]["steps"]))
        return ("import sys; sys.path[:0]=['/repo','/verif/harness']\nfrom props.c05 import run_history\nimport json\n"
                "case = json.loads(%r)\nprint(run_history(case))\n" % json.dumps(case))


PROPERTY = C05()
