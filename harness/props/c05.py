"""C05 Random streams are a pure, contract-respecting function of the seed."""
import ast
import json
import math
import os
import re
import subprocess
import sys
from fractions import Fraction

from core.engine import Property, F
from core import lean

A, C, M = 116646453, 9, 2 ** 30
AINV = pow(A, -1, M)


def lcg(s):
    return (A * s + C) % M


def seed_for(k, target):
    """a seed in [0,M) whose k-th state (k>=1) equals `target`"""
    s = target
    for _ in range(k):
        s = ((s - C) * AINV) % M
    return s


def q(x):
    """exact rational of an int/float as [num,den]"""
    if isinstance(x, bool):
        x = int(x)
    if isinstance(x, int):
        return [x, 1]
    n, d = Fraction(x).as_integer_ratio() if not isinstance(x, Fraction) else (x.numerator, x.denominator)
    return [n, d]


def unq(p):
    return Fraction(p[0], p[1])


def tofloat(p):
    return p[0] / p[1]


def mk_seed(sd):
    k = sd["kind"]
    if k == "int":
        return int(sd["v"])
    if k == "bool":
        return bool(sd["v"])
    if k == "float":
        return float(sd["v"])
    if k == "str":
        return sd["v"]
    raise ValueError(k)


def run_cycle(case):
    """(B) for theorem `period`: the stream of a seed must not return to its start before 2^30 draws.
    Observed through the public API only: the uniforms after `steps` draws are compared with the first ones
    (the uniform IS the state of this generator, so one equal pair at the same phase means the stream repeats)."""
    import coba.random as cr
    c = case["cycle"]
    r = cr.CobaRandom(c["seed"])
    first = [r.random() for _ in range(4)]
    left = c["steps"] - 4
    while left > 0:
        n = min(left, 1 << 20)
        r.randoms(n)
        left -= n
    again = [r.random() for _ in range(4)]
    return {"first": [q(x) for x in first], "again": [q(x) for x in again], "repeats": first == again}


def affine_period(a, c, m, s0, cap):
    """smallest P = 2^j <= cap with x_P = x_0 for x -> (a*x+c) % m (m a power of two), by squaring the affine map; None if none"""
    A_, C_ = a % m, c % m
    P = 1
    while P <= cap:
        if (A_ * s0 + C_) % m == s0 % m:
            return P
        A_, C_ = (A_ * A_) % m, (A_ * C_ + C_) % m
        P *= 2
    return None


def seed_for_model(sd):
    v = mk_seed(sd)
    if isinstance(v, int) or (isinstance(v, float) and v.is_integer()):
        return {"int": int(v)}
    return {"bytes": list(str(v).encode("utf-8"))}


# ---- translator: facts read off coba/random.py with `ast` (see Model/C05.lean srcFacts/srcNums)
MODEL_FACTS = [("init.int_types", "int"), ("init.float_guard", "float.is_integer"), ("init.int_conv", "int"),
               ("init.str_conv", "str"), ("init.encoding", "utf-8"), ("init.byteorder", "big"),
               ("init.falsy_fallback", "time.time"), ("uniform.step_op", "&"), ("uniform.yield_op", "/"),
               ("choice.cmp", "__lt__"), ("choice.unweighted_conv", "int"), ("reduce.args", "_seed"),
               ("module.seed", "_random=CobaRandom(seed)"),
               ("module.delegates", "random,randoms,shuffle,randint,randints,choice,choicew,gauss,gausses"),
               ("gauss.zero_guard", "while U == 0")]
MODEL_NUMS = [("init.str_mod", 1048576), ("uniform.mask_sub", 1),
              ("default.random.min", 0), ("default.random.max", 1), ("default.randoms.min", 0), ("default.randoms.max", 1),
              ("default.gauss.mu", 0), ("default.gauss.sigma", 1), ("default.gausses.mu", 0), ("default.gausses.sigma", 1),
              ("gauss.log_coef", -2), ("gauss.angle_coef", 2), ("randint.plus", 1), ("randints.plus", 1)]
BINOPS = {ast.BitAnd: "&", ast.Mod: "%", ast.BitOr: "|", ast.Div: "/", ast.FloorDiv: "//", ast.Mult: "*", ast.Add: "+", ast.Sub: "-"}


def const_int(n):
    """value of an integer expression made of literals (2**20, -2, 1<<20)"""
    if isinstance(n, ast.Constant) and isinstance(n.value, int) and not isinstance(n.value, bool):
        return n.value
    if isinstance(n, ast.UnaryOp) and isinstance(n.op, ast.USub):
        return -const_int(n.operand)
    if isinstance(n, ast.BinOp):
        l, r = const_int(n.left), const_int(n.right)
        if isinstance(n.op, ast.Pow): return l ** r
        if isinstance(n.op, ast.Mult): return l * r
        if isinstance(n.op, ast.LShift): return l << r
        if isinstance(n.op, ast.Add): return l + r
        if isinstance(n.op, ast.Sub): return l - r
    raise ValueError("not an integer literal expression: " + ast.dump(n)[:80])


def dotted(n):
    if isinstance(n, ast.Name): return n.id
    if isinstance(n, ast.Attribute): return dotted(n.value) + "." + n.attr
    raise ValueError("not a dotted name")


def is_call(n, name=None, nargs=None):
    return isinstance(n, ast.Call) and (name is None or (isinstance(n.func, (ast.Name, ast.Attribute)) and dotted(n.func) == name)) and (nargs is None or len(n.args) == nargs)


def extract_source_facts(repo):
    """Read the facts `Model/C05.lean: srcFacts/srcNums` lists off coba/random.py with `ast`. Returns (facts, nums, not_extracted).
    Only recognised shapes are read; an unrecognised (reshaped) place keeps the model's value and is listed in not_extracted."""
    tree = ast.parse(open(os.path.join(repo, "coba", "random.py"), encoding="utf-8").read())
    cls = next(n for n in tree.body if isinstance(n, ast.ClassDef) and n.name == "CobaRandom")
    meth = {n.name: n for n in cls.body if isinstance(n, ast.FunctionDef)}
    mod = {n.name: n for n in tree.body if isinstance(n, ast.FunctionDef)}
    facts, nums, missing = dict(MODEL_FACTS), dict(MODEL_NUMS), []

    def attempt(keys, fn):
        try:
            r = fn()
            for k in keys:
                (facts if k in facts else nums)[k] = r[k]
        except Exception:
            missing.extend(keys)

    def init_branches():
        init = meth["__init__"]
        iff = next(n for n in init.body if isinstance(n, ast.If))
        t = iff.test
        disj = t.values if isinstance(t, ast.BoolOp) and isinstance(t.op, ast.Or) else [t]
        ints, guards = [], []
        for d in disj:
            if is_call(d, "isinstance", 2) and dotted(d.args[0]) == "seed":
                ints.append(dotted(d.args[1]))
            elif isinstance(d, ast.BoolOp) and isinstance(d.op, ast.And) and len(d.values) == 2 and is_call(d.values[0], "isinstance", 2) \
                    and is_call(d.values[1], None, 0) and dotted(d.values[1].func).startswith("seed."):
                guards.append(dotted(d.values[0].args[1]) + "." + dotted(d.values[1].func)[5:])
            else:
                raise ValueError("unrecognised disjunct")
        a = iff.body[0]
        if not (len(iff.body) == 1 and isinstance(a, ast.Assign) and dotted(a.targets[0]) == "seed" and is_call(a.value, None, 1) and dotted(a.value.args[0]) == "seed"):
            raise ValueError("int branch")
        return {"init.int_types": ",".join(ints), "init.float_guard": ",".join(guards), "init.int_conv": dotted(a.value.func)}

    def init_else():
        init = meth["__init__"]
        iff = next(n for n in init.body if isinstance(n, ast.If))
        a = iff.orelse[0]
        if not (len(iff.orelse) == 1 and isinstance(a, ast.Assign) and dotted(a.targets[0]) == "seed" and isinstance(a.value, ast.BinOp) and isinstance(a.value.op, ast.Mod)):
            raise ValueError("else branch")
        fb = a.value.left
        if not is_call(fb, "int.from_bytes"):
            raise ValueError("from_bytes")
        order = fb.args[1] if len(fb.args) > 1 else next(k.value for k in fb.keywords if k.arg == "byteorder")
        enc = fb.args[0]
        if not (isinstance(enc, ast.Call) and isinstance(enc.func, ast.Attribute) and enc.func.attr == "encode"):
            raise ValueError("encode")
        import codecs
        encoding = codecs.lookup(enc.args[0].value if enc.args else "utf-8").name      # 'utf8', 'UTF-8' … are the same codec
        sc = enc.func.value
        if not is_call(sc, None, 1):
            raise ValueError("str")
        arg = sc.args[0]
        if isinstance(arg, ast.BoolOp) and isinstance(arg.op, ast.Or) and len(arg.values) == 2 and dotted(arg.values[0]) == "seed" and is_call(arg.values[1], None, 0):
            fallback = dotted(arg.values[1].func)
        elif isinstance(arg, ast.Name) and arg.id == "seed":
            fallback = ""
        else:
            raise ValueError("fallback")
        return {"init.str_conv": dotted(sc.func), "init.encoding": encoding, "init.byteorder": order.value, "init.falsy_fallback": fallback,
                "init.str_mod": const_int(a.value.right)}

    def uniform():
        f = meth["_next_uniform"]
        a_, s_, c_, m_ = [x.arg for x in f.args.args[1:5]]
        loop = next(n for n in f.body if isinstance(n, ast.While))
        pre = {dotted(n.targets[0]): n.value for n in f.body if isinstance(n, ast.Assign)}
        st = next(n for n in loop.body if isinstance(n, ast.Assign) and dotted(n.targets[0]) == s_)
        v = st.value
        if not (isinstance(v, ast.BinOp) and type(v.op) in BINOPS):
            raise ValueError("step")
        if isinstance(v.op, ast.Mod) and isinstance(v.right, ast.Name) and v.right.id == m_:
            raise ValueError("`% m` is the same map as `& (m-1)` for m = 2^30 (lcg_params_ok): an equivalent form, not compared")
        lin = v.left
        ok = isinstance(lin, ast.BinOp) and isinstance(lin.op, ast.Add) and isinstance(lin.left, ast.BinOp) and isinstance(lin.left.op, ast.Mult) \
            and {dotted(lin.left.left), dotted(lin.left.right)} == {a_, s_} and dotted(lin.right) == c_
        if not ok:
            raise ValueError("affine part")
        mask = v.right
        if isinstance(mask, ast.Name) and mask.id in pre:
            mask = pre[mask.id]
        if isinstance(mask, ast.BinOp) and isinstance(mask.op, ast.Sub) and dotted(mask.left) == m_:
            sub = const_int(mask.right)
        elif isinstance(mask, ast.Name) and mask.id == m_:
            sub = 0
        else:
            raise ValueError("mask")
        y = next(n.value for n in loop.body if isinstance(n, ast.Expr) and isinstance(n.value, ast.Yield)).value
        if not (isinstance(y, ast.BinOp) and dotted(y.left) == s_ and dotted(y.right) == m_):
            raise ValueError("yield")
        return {"uniform.step_op": BINOPS[type(v.op)], "uniform.mask_sub": sub, "uniform.yield_op": BINOPS[type(y.op)]}

    def choice_cmp():
        f = meth["choice"]
        names = [n.attr for n in ast.walk(f) if isinstance(n, ast.Attribute) and n.attr in ("__lt__", "__le__", "__gt__", "__ge__")]
        if len(names) != 1:
            raise ValueError("comparator")
        sub = [n for n in ast.walk(f) if isinstance(n, ast.Subscript) and dotted(n.value) == "seq" and is_call(n.slice, None, 1)]
        if len(sub) != 1:
            raise ValueError("unweighted")
        conv = dotted(sub[0].slice.func)
        return {"choice.cmp": names[0], "choice.unweighted_conv": "int" if conv in ("int", "floor", "math.floor") else conv}   # same on a non-negative argument

    def reduce_args():
        r = next(n for n in ast.walk(meth["__reduce__"]) if isinstance(n, ast.Return)).value
        if not (isinstance(r, ast.Tuple) and dotted(r.elts[0]) == "CobaRandom" and isinstance(r.elts[1], ast.Tuple)):
            raise ValueError("reduce")
        return {"reduce.args": ",".join(dotted(e)[5:] if dotted(e).startswith("self.") else dotted(e) for e in r.elts[1].elts)}

    def module_seed():
        f = mod["seed"]
        g = [n for n in f.body if isinstance(n, ast.Global)]
        a = [n for n in f.body if isinstance(n, ast.Assign)]
        if not (g and len(a) == 1 and dotted(a[0].targets[0]) in g[0].names and is_call(a[0].value, "CobaRandom", 1)):
            raise ValueError("seed")
        return {"module.seed": "%s=%s(%s)" % (dotted(a[0].targets[0]), dotted(a[0].value.func), dotted(a[0].value.args[0]))}

    def module_delegates():
        good = []
        for name in ("random", "randoms", "shuffle", "randint", "randints", "choice", "choicew", "gauss", "gausses"):
            f = mod[name]
            body = [n for n in f.body if not (isinstance(n, ast.Expr) and isinstance(n.value, ast.Constant))]
            r = body[0]
            params = [x.arg for x in f.args.args]
            if not (len(body) == 1 and isinstance(r, ast.Return) and isinstance(r.value, ast.Call) and not r.value.keywords
                    and dotted(r.value.func).startswith("_random.") and all(isinstance(x, ast.Name) for x in r.value.args)):
                raise ValueError("module function %s reshaped" % name)
            if dotted(r.value.func) == "_random." + name and [x.id for x in r.value.args] == params and params == [x.arg for x in meth[name].args.args[1:]]:
                good.append(name)
        return {"module.delegates": ",".join(good)}

    def defaults():
        out = {}
        for name, ps in (("random", ("min", "max")), ("randoms", ("min", "max")), ("gauss", ("mu", "sigma")), ("gausses", ("mu", "sigma"))):
            vals = []
            for f in (meth[name], mod[name]):
                args = [x.arg for x in f.args.args]
                d = dict(zip(args[len(args) - len(f.args.defaults):], f.args.defaults))
                vals.append(tuple(const_int(d[p]) for p in ps))
            # method and module function must both have the model's defaults: a differing one is the one reported
            for p, v in zip(ps, vals[1] if vals[1] != vals[0] and vals[0] == tuple(dict(MODEL_NUMS)["default.%s.%s" % (name, q)] for q in ps) else vals[0]):
                out["default.%s.%s" % (name, p)] = v
        return out

    def gauss_consts():
        f = meth["_next_gaussian"]
        loop = next(n for n in f.body if isinstance(n, ast.While))
        inner = [n for n in loop.body if isinstance(n, ast.While)]
        if inner:
            t = inner[0].test
            zero = isinstance(t, ast.Compare) and len(t.ops) == 1 and isinstance(t.ops[0], ast.Eq) and dotted(t.left) == "U" \
                and isinstance(t.comparators[0], ast.Constant) and t.comparators[0].value == 0
            zero = zero or (isinstance(t, ast.UnaryOp) and isinstance(t.op, ast.Not) and dotted(t.operand) == "U")
            if not zero:
                raise ValueError("guard shape")
            guard = "while U == 0"
        elif any(isinstance(n, (ast.If, ast.Compare)) for x in loop.body for n in ast.walk(x)):
            raise ValueError("guard written differently")
        else:
            guard = ""
        asg = {dotted(n.targets[0]): n.value for n in loop.body if isinstance(n, ast.Assign)}
        R = asg["R"].args[0]          # sqrt(<coef>*log(U))
        S = asg["S"]                  # <coef>*pi*next(...)
        return {"gauss.zero_guard": guard, "gauss.log_coef": const_int(R.left), "gauss.angle_coef": const_int(S.left.left)}

    def plus_one():
        ri = next(n for n in ast.walk(meth["randint"]) if isinstance(n, ast.Return)).value      # a+floor((b-a+1)*next(...))
        inner = ri.right.args[0].left
        p1 = const_int(inner.right)
        if not (isinstance(inner.op, ast.Add)):
            raise ValueError("randint")
        a = next(n for n in meth["randints"].body if isinstance(n, ast.Assign) and dotted(n.targets[0]) == "b")   # b=b+1
        if not (isinstance(a.value, ast.BinOp) and isinstance(a.value.op, ast.Add) and dotted(a.value.left) == "b"):
            raise ValueError("randints")
        return {"randint.plus": p1, "randints.plus": const_int(a.value.right)}

    attempt(["init.int_types", "init.float_guard", "init.int_conv"], init_branches)
    attempt(["init.str_conv", "init.encoding", "init.byteorder", "init.falsy_fallback", "init.str_mod"], init_else)
    attempt(["uniform.step_op", "uniform.mask_sub", "uniform.yield_op"], uniform)
    attempt(["choice.cmp", "choice.unweighted_conv"], choice_cmp)
    attempt(["reduce.args"], reduce_args)
    attempt(["module.seed"], module_seed)
    attempt(["module.delegates"], module_delegates)
    attempt([k for k, _ in MODEL_NUMS if k.startswith("default.")], defaults)
    attempt(["gauss.zero_guard", "gauss.log_coef", "gauss.angle_coef"], gauss_consts)
    attempt(["randint.plus", "randints.plus"], plus_one)
    return [(k, facts[k]) for k, _ in MODEL_FACTS], [(k, nums[k]) for k, _ in MODEL_NUMS], missing


MODEL_RES = [("draw_mult", 3), ("range_mult", 3), ("range_step", 3), ("slice_width", 3), ("targets", 3), ("batch_size", 20), ("shuffle_inplace", 1)]


def extract_reservoir_facts(repo):
    """Literals of pipes.filters.Reservoir.filter the model's walk (`Model/C05.lean: batchedTriples/reservoirWalk/resNums`) depends on,
    read with `ast`: `randoms(K*batch_size)`, `range(0,K*batch_size,STEP)`, `randoms[i:i+W]`, number of loop targets, call-site batch
    size, `rng.shuffle(reservoir,inplace=True)`. Unrecognised shapes keep the model's value and are listed."""
    tree = ast.parse(open(os.path.join(repo, "coba", "pipes", "filters.py"), encoding="utf-8").read())
    cls = next(n for n in tree.body if isinstance(n, ast.ClassDef) and n.name == "Reservoir")
    flt = next(n for n in cls.body if isinstance(n, ast.FunctionDef) and n.name == "filter")
    nums, missing = dict(MODEL_RES), []

    def attempt(keys, fn):
        try:
            r = fn()
            for k in keys:
                nums[k] = r[k]
        except Exception:
            missing.extend(keys)

    def mult_of(n, var):       # K*var or var*K or var
        if isinstance(n, ast.Name) and n.id == var:
            return 1
        if isinstance(n, ast.BinOp) and isinstance(n.op, ast.Mult):
            if isinstance(n.right, ast.Name) and n.right.id == var: return const_int(n.left)
            if isinstance(n.left, ast.Name) and n.left.id == var: return const_int(n.right)
        raise ValueError("multiple")

    def batched():
        f = next(n for n in ast.walk(flt) if isinstance(n, ast.FunctionDef) and n.name == "batched_randoms_forever")
        var = f.args.args[0].arg
        draws = [n for n in ast.walk(f) if is_call(n, None, 1) and isinstance(n.func, ast.Attribute) and n.func.attr == "randoms"]
        if len(draws) != 1: raise ValueError("draw")
        out = {"draw_mult": mult_of(draws[0].args[0], var)}
        loop = next(n for n in ast.walk(f) if isinstance(n, ast.For))
        if not (is_call(loop.iter, "range", 3) and const_int(loop.iter.args[0]) == 0): raise ValueError("range")
        out["range_mult"], out["range_step"] = mult_of(loop.iter.args[1], var), const_int(loop.iter.args[2])
        sl = next(n for n in ast.walk(loop) if isinstance(n, ast.Subscript) and isinstance(n.slice, ast.Slice))
        lo, hi = sl.slice.lower, sl.slice.upper
        if not (isinstance(lo, ast.Name) and lo.id == loop.target.id and isinstance(hi, ast.BinOp) and isinstance(hi.op, ast.Add) and dotted(hi.left) == lo.id):
            raise ValueError("slice")
        out["slice_width"] = const_int(hi.right)
        return out

    def call_site():
        loop = next(n for n in ast.walk(flt) if isinstance(n, ast.For) and is_call(n.iter, "batched_randoms_forever", 1))
        if not isinstance(loop.target, ast.Tuple): raise ValueError("targets")
        return {"targets": len(loop.target.elts), "batch_size": const_int(loop.iter.args[0])}

    def shuf():
        calls = [n for n in ast.walk(flt) if isinstance(n, ast.Assign) and isinstance(n.targets[0], ast.Name) and n.targets[0].id == "reservoir" and is_call(n.value, "rng.shuffle")]
        if len(calls) != 1: raise ValueError("shuffle")
        kw = {k.arg: k.value for k in calls[0].value.keywords}
        inpl = kw.get("inplace", calls[0].value.args[1] if len(calls[0].value.args) > 1 else ast.Constant(False))
        return {"shuffle_inplace": 1 if inpl.value else 0}

    attempt(["draw_mult", "range_mult", "range_step", "slice_width"], batched)
    attempt(["targets", "batch_size"], call_site)
    attempt(["shuffle_inplace"], shuf)
    return [(k, nums[k]) for k, _ in MODEL_RES], missing


MODEL_GAUSS = [("R.outer", "math.sqrt"), ("R.inner", "math.log"), ("R.arg", "U"), ("S.const", "math.pi"), ("S.draw", "next(self._randu)"),
               ("U.draw", "next(self._randu)"), ("yield.0", "R*math.cos(S)"), ("yield.1", "R*math.sin(S)"),
               ("gauss.scale", "self.gausses(1,mu,sigma)[0]"), ("gausses.scale", "mu+sigma*g for g in islice(self._randg,n)")]


def extract_gauss_shape(repo):
    """The Box-Muller EXPRESSIONS of coba/random.py (which function is applied to what, in which order the two values are yielded, how
    mu/sigma enter), beyond the two integer coefficients of `srcNums`: R = <sqrt>(c*<log>(U)), S = c*<pi>*next(randu), yield R*<cos>(S),
    yield R*<sin>(S). Local aliases (sqrt = math.sqrt ...) are resolved; only the recognised shape is read."""
    tree = ast.parse(open(os.path.join(repo, "coba", "random.py"), encoding="utf-8").read())
    cls = next(n for n in tree.body if isinstance(n, ast.ClassDef) and n.name == "CobaRandom")
    meth = {n.name: n for n in cls.body if isinstance(n, ast.FunctionDef)}
    imported = {}
    for n in tree.body:
        if isinstance(n, ast.ImportFrom):
            for a in n.names:
                imported[a.asname or a.name] = n.module + "." + a.name
    facts, missing = dict(MODEL_GAUSS), []

    def attempt(keys, fn):
        try:
            r = fn()
            for k in keys:
                facts[k] = r[k]
        except Exception:
            missing.extend(keys)

    def body():
        f = meth["_next_gaussian"]
        alias = dict(imported)
        alias.update({dotted(n.targets[0]): dotted(n.value) for n in f.body if isinstance(n, ast.Assign) and isinstance(n.value, (ast.Attribute, ast.Name))})
        name = lambda n: alias.get(dotted(n), dotted(n))
        src = lambda n: ast.unparse(n).replace(" ", "")
        loop = next(n for n in f.body if isinstance(n, ast.While))
        asg = {dotted(n.targets[0]): n.value for n in loop.body if isinstance(n, ast.Assign)}
        R, S_, U = asg["R"], asg["S"], asg["U"]
        inl = lambda n: asg[n.id] if isinstance(n, ast.Name) and n.id in asg and n.id not in ("R", "S", "U") else n     # a value first put into a local
        if not (is_call(R, None, 1) and isinstance(R.args[0], ast.BinOp) and isinstance(R.args[0].op, ast.Mult) and is_call(R.args[0].right, None, 1)):
            raise ValueError("R")
        if not (isinstance(S_, ast.BinOp) and isinstance(S_.op, ast.Mult) and isinstance(S_.left, ast.BinOp) and isinstance(S_.left.op, ast.Mult)):
            raise ValueError("S")
        ys = [n.value.value for n in loop.body if isinstance(n, ast.Expr) and isinstance(n.value, ast.Yield)]
        if len(ys) != 2 or not all(isinstance(y, ast.BinOp) and isinstance(y.op, ast.Mult) and is_call(y.right, None, 1) for y in ys):
            raise ValueError("yields")
        yl = ["%s*%s(%s)" % (src(y.left), name(y.right.func), src(y.right.args[0])) for y in ys]
        return {"R.outer": name(R.func), "R.inner": name(R.args[0].right.func), "R.arg": src(R.args[0].right.args[0]), "S.const": name(S_.left.right),
                "S.draw": src(inl(S_.right)), "U.draw": src(inl(U)), "yield.0": yl[0], "yield.1": yl[1]}

    def scale():
        r1 = next(n for n in ast.walk(meth["gauss"]) if isinstance(n, ast.Return)).value
        r2 = next(n for n in ast.walk(meth["gausses"]) if isinstance(n, ast.Return)).value
        if not (isinstance(r1, ast.Subscript) and is_call(r1.value, "self.gausses", 3) and isinstance(r2, ast.ListComp) and len(r2.generators) == 1 and not r2.generators[0].ifs):
            raise ValueError("scale")
        g = r2.generators[0]
        return {"gauss.scale": ast.unparse(r1).replace(" ", ""),
                "gausses.scale": "%s for %s in %s" % (ast.unparse(r2.elt).replace(" ", ""), ast.unparse(g.target), ast.unparse(g.iter).replace(" ", ""))}

    attempt([k for k, _ in MODEL_GAUSS[:8]], body)
    attempt(["gauss.scale", "gausses.scale"], scale)
    return [(k, facts[k]) for k, _ in MODEL_GAUSS], missing


def inexact_pmfs():
    """pmfs as learners really produce them, whose Python float sum is not exactly 1.0 (all inside SafeLearner's 0.001 tolerance);
    computed here, kept only if the running Python's sum() is indeed != 1 (3.12+ sums with compensation)"""
    out = []
    for eps, n in ((0.3, 3), (0.1, 3), (0.3, 7), (0.05, 3), (0.2, 6), (0.1, 7)):
        out.append([1 - eps + eps / n] + [eps / n] * (n - 1))
        out.append([eps / n] * (n - 1) + [1 - eps + eps / n])
    for sc in ([1, 2, 3, 4], [0.5, 1.5, 2.5], [1, 2, 3], [0.1, 0.2, 0.3, 0.4, 0.5]):
        z = sum(math.exp(x) for x in sc)
        out.append([math.exp(x) / z for x in sc])
    out += [[0.5, 0.4995, 0.0], [0.0, 0.5005, 0.5], [0.25, 0.0, 0.7505], [0.3334, 0.3334, 0.3334], [0.0, 0.9995]]
    return [p for p in out if sum(p) != 1.0]


def reservoir_reference(triples, perm, n, count):
    """Algorithm L as Reservoir.filter performs it, fed with given uniforms: `perm` = the shuffled first `count` items,
    `triples` = iterator of (r1,r2,r3). Returns (sample, number of replacements, triples consumed)"""
    from itertools import islice
    items = iter(range(count, n))
    reservoir = list(perm)
    W, x = 1, 1 / count
    steps = used = 0
    try:
        for r1, r2, r3 in triples:
            used += 1
            if r1 == 0 or r2 == 0: continue
            W = W * r1 ** x
            S = math.floor(math.log(r2, 1 - W))
            reservoir[int(r3 * count)] = next(islice(items, S, S + 1))
            steps += 1
    except StopIteration:
        pass
    return reservoir, steps, used


def run_reservoir(case):
    from coba.pipes import Reservoir
    import coba.random as cr
    c = case["reservoir"]
    seed, count, n = mk_seed(c["seed"]), c["count"], c["n"]
    out1 = list(Reservoir(count, seed=seed).filter(list(range(n))))
    out2 = list(Reservoir(count, seed=seed).filter(iter(range(n))))
    # the sample the seed's stream determines, one public-API call at a time
    rng = cr.CobaRandom(seed)
    perm = rng.shuffle(list(range(count)))

    def stream():
        while True:
            yield rng.random(), rng.random(), rng.random()
    ref, steps, used = reservoir_reference(stream(), perm, n, count)
    return {"list": out1, "iter": out2, "ref": ref, "steps": steps, "used": used}


MODEL_FLT = [("shuffle.rng_in_filter", 1), ("shuffle.rng_from_self_seed", 1), ("shuffle.inplace", 1), ("shuffle.copies_input", 1),
             ("reservoir.rng_in_filter", 1), ("reservoir.rng_from_self_seed", 1), ("reservoir.zero_const", 0), ("reservoir.zero_is_first", 1),
             ("reservoir.none_inplace", 0), ("reservoir.fill_islice_count", 1), ("reservoir.short_is_lt", 1), ("reservoir.short_strict_empty", 1),
             ("reservoir.short_else_inplace", 1)]


def extract_filter_facts(repo):
    """What `Model/C05.lean: fltOut/fltNums` assumes about pipes.filters.Shuffle.filter and Reservoir.filter, read with `ast`: the generator is
    created inside `filter` from `self._seed`, Shuffle shuffles a copy in place, Reservoir's branch order and tests. Only recognised shapes are
    read; anything else keeps the model's value and is listed."""
    tree = ast.parse(open(os.path.join(repo, "coba", "pipes", "filters.py"), encoding="utf-8").read())
    nums, missing = dict(MODEL_FLT), []

    def flt_of(name):
        cls = next(n for n in tree.body if isinstance(n, ast.ClassDef) and n.name == name)
        return cls, next(n for n in cls.body if isinstance(n, ast.FunctionDef) and n.name == "filter")

    def attempt(keys, fn):
        try:
            r = fn()
            for k in keys:
                nums[k] = r[k]
        except Exception:
            missing.extend(keys)

    def inplace_of(call):
        kw = {k.arg: k.value for k in call.keywords}
        v = kw.get("inplace", call.args[1] if len(call.args) > 1 else ast.Constant(False))
        if not isinstance(v, ast.Constant): raise ValueError("inplace")
        return 1 if v.value else 0

    def sdot(n):
        try:
            return dotted(n)
        except Exception:
            return None

    def rng_calls(fn):
        return [n for n in ast.walk(fn) if isinstance(n, ast.Call) and sdot(n.func) in ("CobaRandom", "coba.random.CobaRandom")]

    def rng_facts(name, key):
        cls, flt = flt_of(name)
        inside = rng_calls(flt)
        elsewhere = [c for f in cls.body if isinstance(f, ast.FunctionDef) and f.name != "filter" for c in rng_calls(f)]
        if not inside and not elsewhere: raise ValueError("no generator")
        out = {key + ".rng_in_filter": 1 if (len(inside) == 1 and not elsewhere) else 0}
        c = (inside + elsewhere)[0]
        arg = c.args[0] if c.args else next((k.value for k in c.keywords if k.arg == "seed"), None)
        out[key + ".rng_from_self_seed"] = 1 if (arg is not None and dotted(arg) == "self._seed" and len(c.args) + len(c.keywords) == 1) else 0
        return out

    def shuffle_body():
        cls, flt = flt_of("Shuffle")
        calls = [n for n in ast.walk(flt) if isinstance(n, ast.Call) and isinstance(n.func, ast.Attribute) and n.func.attr == "shuffle"]
        if len(calls) != 1: raise ValueError("shuffle")
        arg = dotted(calls[0].args[0])
        out = {"shuffle.inplace": inplace_of(calls[0])}
        asg = [n for n in flt.body if isinstance(n, ast.Assign) and dotted(n.targets[0]) == arg]
        if len(asg) != 1: raise ValueError("copy")
        v = asg[0].value
        is_copy = lambda e: (is_call(e, "list", 1)) or (isinstance(e, ast.Call) and isinstance(e.func, ast.Attribute) and e.func.attr == "copy" and not e.args)
        if isinstance(v, ast.IfExp): out["shuffle.copies_input"] = 1 if (is_copy(v.body) and is_copy(v.orelse)) else 0
        elif isinstance(v, ast.Call): out["shuffle.copies_input"] = 1 if is_copy(v) else 0
        else: raise ValueError("copy")
        return out

    def reservoir_body():
        cls, flt = flt_of("Reservoir")
        top = next(n for n in flt.body if isinstance(n, ast.If))
        t = top.test
        if not (isinstance(t, ast.Compare) and dotted(t.left) == "self._count" and isinstance(t.ops[0], ast.Eq)): raise ValueError("zero")
        out = {"reservoir.zero_const": const_int(t.comparators[0]), "reservoir.zero_is_first": 1}
        ys = [n for n in ast.walk(ast.Module(body=top.body, type_ignores=[])) if isinstance(n, (ast.YieldFrom, ast.Yield))]
        if not (len(ys) == 1 and isinstance(ys[0].value, (ast.List, ast.Tuple)) and not ys[0].value.elts): raise ValueError("zero body")
        nxt = top.orelse[0]
        t2 = nxt.test
        if not (isinstance(nxt, ast.If) and isinstance(t2, ast.Compare) and dotted(t2.left) == "self._count" and isinstance(t2.ops[0], ast.Is)
                and isinstance(t2.comparators[0], ast.Constant) and t2.comparators[0].value is None): raise ValueError("none")
        calls = [n for n in ast.walk(ast.Module(body=nxt.body, type_ignores=[])) if isinstance(n, ast.Call) and isinstance(n.func, ast.Attribute) and n.func.attr == "shuffle"]
        if len(calls) != 1: raise ValueError("none body")
        out["reservoir.none_inplace"] = inplace_of(calls[0])
        rest = nxt.orelse
        fill = next(n for n in rest if isinstance(n, ast.Assign) and dotted(n.targets[0]) == "reservoir")
        v = fill.value
        out["reservoir.fill_islice_count"] = 1 if (is_call(v, "list", 1) and is_call(v.args[0], "islice", 2) and dotted(v.args[0].args[1]) == "self._count") else 0
        short = next(n for n in rest if isinstance(n, ast.If))
        t3 = short.test
        if not (isinstance(t3, ast.Compare) and is_call(t3.left, "len", 1) and dotted(t3.left.args[0]) == "reservoir" and dotted(t3.comparators[0]) == "self._count"):
            raise ValueError("short")
        out["reservoir.short_is_lt"] = 1 if isinstance(t3.ops[0], ast.Lt) else 0
        y = next(n for n in ast.walk(ast.Module(body=short.body, type_ignores=[])) if isinstance(n, ast.YieldFrom))
        e = y.value
        if not (isinstance(e, ast.IfExp) and dotted(e.test) == "self._strict"): raise ValueError("strict")
        out["reservoir.short_strict_empty"] = 1 if (isinstance(e.body, (ast.List, ast.Tuple)) and not e.body.elts) else 0
        if not (isinstance(e.orelse, ast.Call) and isinstance(e.orelse.func, ast.Attribute) and e.orelse.func.attr == "shuffle" and dotted(e.orelse.args[0]) == "reservoir"):
            raise ValueError("short else")
        out["reservoir.short_else_inplace"] = inplace_of(e.orelse)
        return out

    attempt(["shuffle.rng_in_filter", "shuffle.rng_from_self_seed"], lambda: rng_facts("Shuffle", "shuffle"))
    attempt(["reservoir.rng_in_filter", "reservoir.rng_from_self_seed"], lambda: rng_facts("Reservoir", "reservoir"))
    attempt(["shuffle.inplace", "shuffle.copies_input"], shuffle_body)
    attempt(["reservoir.zero_const", "reservoir.zero_is_first", "reservoir.none_inplace", "reservoir.fill_islice_count", "reservoir.short_is_lt",
             "reservoir.short_strict_empty", "reservoir.short_else_inplace"], reservoir_body)
    return [(k, nums[k]) for k, _ in MODEL_FLT], missing


def flt_path(ob, n):
    if ob["kind"] == "shuffle": return "shuffle"
    c = ob.get("count")
    if c is None: return "reservoir-none"
    if c == 0: return "reservoir-zero"
    if n < c: return "reservoir-short-strict" if ob.get("strict") else "reservoir-short"
    return "reservoir-exact" if n == c else "reservoir-walk"


def make_filter(ob):
    from coba.pipes import Shuffle, Reservoir
    if ob["kind"] == "shuffle":
        return Shuffle(mk_seed(ob["seed"]))
    return Reservoir(ob.get("count"), strict=bool(ob.get("strict")), seed=mk_seed(ob["seed"]))


def filter_reference(ob, n):
    """the output the seed's stream determines, through CobaRandom's public methods only: (list, steps, triples used)"""
    import coba.random as cr
    path = flt_path(ob, n)
    if path in ("reservoir-zero", "reservoir-short-strict"):
        return [], 0, 0
    rng = cr.CobaRandom(mk_seed(ob["seed"]))
    if path in ("shuffle", "reservoir-none", "reservoir-short"):
        return rng.shuffle(list(range(n))), 0, 0
    perm = rng.shuffle(list(range(ob["count"])))

    def stream():
        while True:
            yield rng.random(), rng.random(), rng.random()
    return reservoir_reference(stream(), perm, n, ob["count"])


def run_filters(case):
    """a history over filter objects: open a `filter` call (input: a fresh list / a caller-owned list that is passed again and again / an
    iterator / a tuple), read some or all of it, leave it, resume an earlier one, close one"""
    from itertools import islice
    c = case["filters"]
    objs = [make_filter(ob) for ob in c["objs"]]
    shared, gens, outs = {}, [], []
    for h in c["hist"]:
        if "resume" in h or "close" in h:
            j = h.get("resume", h.get("close"))
            g = gens[j] if j < len(gens) else None
            if g is None:
                outs.append({"skipped": True})
            elif "close" in h:
                try:
                    g[0].close(); outs.append({"closed": True})
                except BaseException as e:
                    outs.append({"closed": False, "err": type(e).__name__})
            else:
                try:
                    outs.append({"gen": j, "out": list(islice(g[0], h["take"])) if h.get("take") is not None else list(g[0])})
                except BaseException as e:
                    outs.append({"gen": j, "out": [], "err": type(e).__name__})
            continue
        n, kind = h["n"], h.get("input", "list")
        if kind == "shared":
            items = shared.setdefault(n, list(range(n)))
        else:
            items = {"list": list, "iter": iter, "tuple": tuple}[kind](range(n))
        rec = {"gen": len(gens)}
        try:
            g = iter(objs[h["o"]].filter(items))
            rec["out"] = list(islice(g, h["take"])) if h.get("take") is not None else list(g)
        except BaseException as e:
            g, rec["out"], rec["err"] = iter(()), [], type(e).__name__
        if kind in ("list", "shared"):
            rec["input_after"] = None if items == list(range(n)) else list(items)[:12]
        gens.append((g, h["o"], n))
        outs.append(rec)
    return outs


ERRS = {ValueError: "ValueError", IndexError: "IndexError", StopIteration: "StopIteration", ZeroDivisionError: "ZeroDivisionError",
        TypeError: "TypeError"}


class Item:
    """sequence member: equal by label (so sequences can hold equal members), identified by uid"""
    def __init__(self, label, uid):
        self.label, self.uid = label, uid
    def __eq__(self, other):
        return isinstance(other, Item) and other.label == self.label
    def __hash__(self):
        return hash(self.label)
    def __repr__(self):
        return "Item(%r,#%d)" % (self.label, self.uid)


def ident_index(seq, r):
    for k, x in enumerate(seq):
        if x is r:
            return k
    raise RuntimeError("choice returned an object that is not a member of the sequence: %r" % (r,))


class _Via:
    """a caller of CobaRandom (PMFPredictor / PMFInfoPredictor / SafeLearner over a PMF-returning learner);
    `cur["w"]` is the pmf the next predict() will be answered with"""
    def __init__(self, obj, cur):
        self.obj, self.cur = obj, cur


class _PmfLearner:
    """answers predict() with the pmf(s) the harness put into `cur`; for batched actions one pmf per row, in row-major
    (`order='row'`: [pmf_row0, pmf_row1, ..]) or column-major (`order='col'`: one column per action) layout"""
    def __init__(self, cur, order=None):
        self.cur, self.order = cur, order
    def predict(self, context, actions):
        if not hasattr(actions, "is_batch"):
            return self.cur["w"]
        rows = self.cur["rows"][:len(actions)]
        return [list(r) for r in rows] if self.order == "row" else [list(c) for c in zip(*rows)]
    def learn(self, *a, **k):
        pass


class _Batch(list):
    is_batch = True


LEARNER_KINDS = ("eps", "ucb")


def build_via(sd, insts):
    via, seed = sd["via"], mk_seed(sd)
    cur = {"w": None}
    if via == "pmf":
        from coba.learners.utilities import PMFPredictor
        return _Via(PMFPredictor(lambda c, a: cur["w"], seed), cur)
    if via == "pmfinfo":
        from coba.learners.utilities import PMFInfoPredictor
        return _Via(PMFInfoPredictor(lambda c, a: (cur["w"], {"k": 1}), seed), cur)
    from coba.safety import SafeLearner
    if via in ("fixed",) + LEARNER_KINDS:      # every learner built on PMFPredictor that runs without extra packages
        from coba.learners import FixedLearner, BanditEpsilonLearner, BanditUCBLearner
        if via == "fixed":
            lrn = FixedLearner([(p[0] if p[1] == 1 else tofloat(p)) for p in sd["pmf"]], seed)
        elif via == "eps":
            lrn = BanditEpsilonLearner(tofloat(sd["eps"]), seed)
        else:
            lrn = BanditUCBLearner(seed)
        if sd.get("wrap") is not None:     # wrapped by SafeLearner (own seed): the draws are the learner's, whatever the wrapper's seed
            lrn = SafeLearner(lrn, sd["wrap"])
            if sd.get("wrap2") is not None:
                lrn = SafeLearner(lrn, sd["wrap2"])
        return _Via(lrn, cur)
    if via in ("safe-row", "safe-col"):        # SafeLearner's batched PMF paths
        return _Via(SafeLearner(_PmfLearner(cur, via[5:]), seed), cur)
    if sd.get("of") is not None:       # SafeLearner(<the SafeLearner object of instance `of`>, seed): re-wrapping a live wrapper
        base = insts[sd["of"]]
        return _Via(SafeLearner(base.obj, seed), base.cur)
    lrn = _PmfLearner(cur)
    if sd.get("inner") is not None:    # SafeLearner(SafeLearner(l, inner), seed)
        lrn = SafeLearner(lrn, mk_seed(sd["inner"]))
    return _Via(SafeLearner(lrn, seed), cur)


def standalone_seed(case, i):
    """the seed record of instance i for a run on its own (a re-wrap of a live instance becomes a re-wrap of a fresh one)"""
    sd = dict(case["seeds"][i])
    if sd.get("of") is not None:
        j = sd.pop("of")
        sd["inner"] = {k: v for k, v in case["seeds"][j].items() if k in ("kind", "v")}
    return sd


def plain_seed(sd):
    return {k: v for k, v in sd.items() if k in ("kind", "v")}


def run_history(case, fork=False):
    from coba.context import CobaContext, NullLogger
    old = CobaContext._logger
    CobaContext.logger = NullLogger()      # SafeLearner logs a deprecation warning for PMF answers
    try:
        return _run_history(case, fork)
    finally:
        CobaContext._logger = old


def _run_history(case, fork=False):
    """run the history against the real coba.random; returns list of outputs (one per hist entry).
    fork=True: the generators are created (and the module-level one seeded) in this process, the calls are
    then made in a child created by os.fork() -- a forked child must continue the same streams."""
    import coba.random as cr
    import random as pyrandom
    insts = []
    for i, sd in enumerate(case["seeds"]):
        if sd.get("module"):
            cr.seed(mk_seed(sd))
            insts.append(None)
        elif sd.get("via"):
            insts.append(build_via(sd, insts))
        else:
            insts.append(cr.CobaRandom(mk_seed(sd)))
    if fork:
        r, w = os.pipe()
        pid = os.fork()
        if pid == 0:
            code = 1
            try:
                os.close(r)
                outs = _run_calls(case, cr, pyrandom, insts)
                with os.fdopen(w, "w") as f:
                    f.write(json.dumps(outs, default=str))
                code = 0
            finally:
                os._exit(code)
        os.close(w)
        with os.fdopen(r) as f:
            data = f.read()
        os.waitpid(pid, 0)
        return json.loads(data) if data else [{"err": "fork-child-failed"}]
    return _run_calls(case, cr, pyrandom, insts)


def _run_calls(case, cr, pyrandom, insts):
    dead = set()
    outs = []
    other = cr.CobaRandom(12345)
    shared_w = {}
    via_seqs = {}
    for h in case["hist"]:
        op = h["op"]
        if op == "noise":
            w = h["what"]
            if w == "pyseed":
                pyrandom.seed(h.get("v", 1))
            elif w == "pyrandom":
                pyrandom.random()
            elif w == "other":
                other.random(); other.shuffle([1, 2, 3]); other.gauss()
            elif w == "newinst":
                cr.CobaRandom(h.get("v", 7)).randoms(3)
            outs.append({"noise": 1})
            continue
        i = h["i"]
        if i in dead:
            outs.append({"skipped": 1})
            continue
        g = insts[i] if insts[i] is not None else cr
        if op == "reseed":       # coba.random.seed(s) on the module generator; on an instance: the object is replaced by CobaRandom(s)
            if insts[i] is None:
                cr.seed(mk_seed(h["seed"]))
            else:
                insts[i] = cr.CobaRandom(mk_seed(h["seed"]))
            dead.discard(i)
            outs.append({"reseed": 1})
            continue
        if op == "pickle":       # the object is replaced by its pickle round trip (what multiprocessing does with it)
            import pickle
            if insts[i] is None:
                cr._random = pickle.loads(pickle.dumps(cr._random))
            else:
                insts[i] = pickle.loads(pickle.dumps(insts[i]))
            dead.discard(i)
            outs.append({"pickle": 1})
            continue
        if isinstance(g, _Via) and op == "lpredict":
            # a PMFPredictor-based learner with its OWN pmf: score() every action (no draw), predict, learn
            seq = via_seqs.setdefault((i, h["n"]), [Item("a%d" % k, k) for k in range(h["n"])])
            pmf = [g.obj.score(None, seq, a) for a in seq]
            r = g.obj.predict(None, seq)
            g.obj.learn(None, r[0], tofloat(h["reward"]), r[1])
            outs.append({"idx": ident_index(seq, r[0]), "w": q(r[1]), "pmf": [q(x) for x in pmf]})
            continue
        if isinstance(g, _Via) and op == "choicew_batch":
            key = (i, tuple(tuple(r.get("labels") or range(r["n"])) for r in h["rows"]))
            if key not in via_seqs:
                via_seqs[key] = _Batch([Item((r.get("labels") or list(range(r["n"])))[k], k) for k in range(r["n"])] for r in h["rows"])
            acts = via_seqs[key]
            g.cur["rows"] = [[(p[0] if p[1] == 1 else tofloat(p)) for p in r["w"]] for r in h["rows"]]
            A_, P_ = g.obj.predict(_Batch([None] * len(acts)), acts)[:2]
            outs.append({"batch": [{"idx": ident_index(sq, a), "w": q(p)} for sq, a, p in zip(acts, A_, P_)]})
            continue
        if op == "choicew_batch":        # on a plain generator: the rows one after the other
            res = []
            for r in h["rows"]:
                labels = r.get("labels") or list(range(r["n"]))
                sq = [Item(labels[k], k) for k in range(r["n"])]
                w = [(p[0] if p[1] == 1 else tofloat(p)) for p in r["w"]]
                a, pw = g.choicew(sq, w)
                res.append({"idx": ident_index(sq, a), "w": q(pw)})
            outs.append({"batch": res})
            continue
        if isinstance(g, _Via):
            labels = h.get("labels") or list(range(h["n"]))
            seq = via_seqs.setdefault((i, tuple(labels)), [Item(labels[k], k) for k in range(h["n"])])
            g.cur["w"] = [(p[0] if p[1] == 1 else tofloat(p)) for p in h["w"]]
            r = g.obj.predict(None, seq)
            outs.append({"idx": ident_index(seq, r[0]), "w": q(r[1])})
            continue
        try:
            if op == "random":
                outs.append({"rat": q(g.random(tofloat(h["lo"]) if h["lo"][1] != 1 else h["lo"][0], tofloat(h["hi"]) if h["hi"][1] != 1 else h["hi"][0]))})
            elif op == "randoms":
                outs.append({"rats": [q(x) for x in g.randoms(h["n"], tofloat(h["lo"]) if h["lo"][1] != 1 else h["lo"][0], tofloat(h["hi"]) if h["hi"][1] != 1 else h["hi"][0])]})
            elif op == "randint":
                outs.append({"int": int(g.randint(h["a"], h["b"]))})
            elif op == "randints":
                outs.append({"ints": [int(x) for x in g.randints(h["n"], h["a"], h["b"])]})
            elif op == "shuffle":
                items = list(range(h["n"]))
                if h.get("inplace"):
                    r = g.shuffle(items, True)
                    r = list(items)
                elif h.get("iter"):
                    r = g.shuffle(iter(items))
                elif h.get("cont"):     # other containers: tuple / str / range / generator; inplace=True on a non-list is not legal
                    src = {"tuple": tuple(items), "range": range(h["n"]), "gen": (x for x in items), "str": "".join(chr(97 + x) for x in items)}[h["cont"]]
                    r = g.shuffle(src)
                    if h["cont"] == "str":
                        r = [ord(x) - 97 for x in r]
                else:
                    r = g.shuffle(items)
                    if items != list(range(h["n"])):
                        r = ["input-mutated"]
                outs.append({"perm": list(r)})
            elif op in ("choice", "choicew"):
                labels = h.get("labels") or list(range(h["n"]))
                seq = [Item(labels[k], k) for k in range(h["n"])]
                w = h.get("w")
                if w is not None:
                    w = [(p[0] if p[1] == 1 else tofloat(p)) for p in w]
                    if h.get("wshare") is not None:
                        # the caller re-uses ONE weights list object, changing it in place between calls
                        buf = shared_w.setdefault((i, h["wshare"]), [])
                        buf[:] = w
                        w = buf
                if op == "choice":
                    r = g.choice(seq, w) if (w is not None or h.get("explicit_none")) else g.choice(seq)
                    outs.append({"idx": ident_index(seq, r)})
                else:
                    r, rw = g.choicew(seq, w) if (w is not None or h.get("explicit_none")) else g.choicew(seq)
                    outs.append({"idx": ident_index(seq, r), "w": q(rw)})
            elif op == "gauss":
                outs.append({"gaussv": [g.gauss(h.get("mu", 0), h.get("sigma", 1))]})
            elif op == "gaussiter":
                outs.append({"gaussv": [g.gauss(h.get("mu", 0), h.get("sigma", 1)) for _ in range(h["n"])]})
            elif op == "gausses":
                outs.append({"gaussv": list(g.gausses(h["n"], h.get("mu", 0), h.get("sigma", 1)))})
            else:
                raise RuntimeError("bad op " + op)
        except tuple(ERRS) as e:
            outs.append({"err": ERRS[type(e)]})
            if op in ("gauss", "gausses", "gaussiter") or type(e) not in (ValueError, IndexError, StopIteration):
                dead.add(i)     # a Python generator that raised inside (_randg) is finished; the error paths of choice/choicew
                                # (ValueError before the draw, IndexError/StopIteration after it) leave a usable, modelled stream
    return outs


def finite_json(o):
    """gauss values may be inf/nan in a broken implementation: keep them printable"""
    return json.loads(json.dumps(o, default=str).replace("Infinity", '"inf"').replace("NaN", '"nan"'))


class C05(Property):
    id = "C05"
    prop_modules = ["CobaVerif.Props.C05"]
    quick_n = 2500
    thorough_n = 60000
    search_n = 4000
    case_timeout = 60
    rule = ("histories of 1-30 calls over 1-3 CobaRandom instances + the module-level instance (incl. coba.random.seed(s) mid-history, pickle round trips, "
            "and CobaRandom reached through PMFPredictor/PMFInfoPredictor/SafeLearner incl. re-wrapped SafeLearners), seeds int (up to 2^70)/bool/float/str and "
            "boundary seeds (k-th uniform = 0 or 1-2^-30, computed by modular inverse), dyadic bounds so every float operation is exact; "
            "non-trivial = at least 3 value-returning calls; distinct by canonical JSON of the case")
    trusted_base = [
        "float arithmetic on the generated (dyadic, few-bit) operands is exact, so the model's rationals equal the implementation's doubles; "
        "for wide bounds the comparison uses 1e-12 relative tolerance",
        "libm log/sqrt/cos/sin: the Box-Muller value is recomputed in the harness from the model's two uniform numerators",
        "str(seed) for non-integer seeds is computed by CPython in the harness and passed to the model as bytes",
    ]
    assumptions = ["seed None/'' (time-seeded) excluded as in the property", "negative weights are outside the contract"]
    partial_theorems = {}

    # ---- translator part: LCG constants are re-extracted from the source on every run
    def pre_build(self):
        src = open(os.path.join(os.environ.get("COBA_REPO", "/repo"), "coba", "random.py"), encoding="utf-8").read()
        m = re.search(r"_next_uniform\(\s*(\d+)\s*,\s*seed\s*,\s*(\d+)\s*,\s*(\d+)\s*\*\*\s*(\d+)\s*\)", src)
        path = os.path.join(lean.LEAN_DIR, "CobaVerif", "Generated", "LcgConsts.lean")
        if m:
            a, c, base, ex = (int(x) for x in m.groups())
            self._extracted = (a, c, base ** ex)
            body = ("-- GENERATED by harness/props/c05.py from coba/random.py on every run; do not edit.\n"
                    "namespace Coba.Generated\ndef lcgA : Nat := %d\ndef lcgC : Nat := %d\ndef lcgM : Nat := %d\n"
                    "def lcgExtracted : Bool := true\nend Coba.Generated\n" % (a, c, base ** ex))
            note = "LCG constants extracted from coba/random.py: a=%d c=%d m=%d" % (a, c, base ** ex)
        else:
            body = ("-- GENERATED: the call `_next_uniform(a,seed,c,m)` was not found in coba/random.py (code reshaped);\n"
                    "-- the side obligation `lcg_consts_match` is then stated about the model's own constants only.\n"
                    "namespace Coba.Generated\ndef lcgA : Nat := 116646453\ndef lcgC : Nat := 9\ndef lcgM : Nat := 1073741824\n"
                    "def lcgExtracted : Bool := false\nend Coba.Generated\n")
            note = "LCG constants could not be extracted (source reshaped); stream correspondence still pins them"
        notes = [note]
        self._write_generated(path, body)
        # seed-normalisation branches, _next_uniform literals, choice comparator, __reduce__, module delegation, defaults
        try:
            facts, nums, missing = extract_source_facts(os.environ.get("COBA_REPO", "/repo"))
        except Exception as e:      # the file does not even parse / the class is gone: nothing can be read
            facts, nums, missing = list(MODEL_FACTS), list(MODEL_NUMS), ["*:" + type(e).__name__]
        lstr = lambda x: '"' + x.replace("\\", "\\\\").replace('"', '\\"') + '"'
        body2 = ("-- GENERATED by harness/props/c05.py from coba/random.py (ast) on every run; do not edit.\n"
                 "-- Places whose shape was not recognised keep the model's value and are listed in `notExtracted`.\n"
                 "namespace Coba.Generated.C05\n"
                 "def srcFacts : List (String × String) :=\n  [%s]\n"
                 "def srcNums : List (String × Int) :=\n  [%s]\n"
                 "def notExtracted : List String := [%s]\n"
                 "end Coba.Generated.C05\n"
                 % (",\n   ".join("(%s, %s)" % (lstr(k), lstr(v)) for k, v in facts),
                    ",\n   ".join("(%s, %d)" % (lstr(k), v) for k, v in nums),
                    ", ".join(lstr(k) for k in missing)))
        self._write_generated(os.path.join(lean.LEAN_DIR, "CobaVerif", "Generated", "C05Source.lean"), body2)
        try:
            rnums, rmissing = extract_reservoir_facts(os.environ.get("COBA_REPO", "/repo"))
        except Exception as e:
            rnums, rmissing = list(MODEL_RES), ["*:" + type(e).__name__]
        try:
            gfacts, gmissing = extract_gauss_shape(os.environ.get("COBA_REPO", "/repo"))
        except Exception as e:
            gfacts, gmissing = list(MODEL_GAUSS), ["*:" + type(e).__name__]
        gdiff = [(k, v, dict(MODEL_GAUSS)[k]) for k, v in gfacts if dict(MODEL_GAUSS)[k] != v]
        notes.append("Box-Muller expressions read with ast: %d of %d recognised%s%s" % (
            len(gfacts) - len(gmissing), len(gfacts), ("; NOT recognised (model value kept): " + ", ".join(gmissing)) if gmissing else "",
            ("; DIFFERENT from the model: " + ", ".join("%s=%r (model %r)" % d for d in gdiff)) if gdiff else ""))
        body3 = ("-- GENERATED by harness/props/c05.py from coba/pipes/filters.py and coba/random.py (ast) on every run; do not edit.\n"
                 "-- Places whose shape was not recognised keep the model's value and are listed in `resNotExtracted`.\n"
                 "namespace Coba.Generated.C05\n"
                 "def resNums : List (String × Int) :=\n  [%s]\n"
                 "def resNotExtracted : List String := [%s]\n"
                 "-- Box-Muller expressions of coba/random.py (functions applied, order of the two yields, how mu/sigma enter)\n"
                 "def gaussShape : List (String × String) :=\n  [%s]\n"
                 "def gaussNotExtracted : List String := [%s]\n"
                 "end Coba.Generated.C05\n"
                 % (",\n   ".join("(%s, %d)" % (lstr(k), v) for k, v in rnums), ", ".join(lstr(k) for k in rmissing),
                    ",\n   ".join("(%s, %s)" % (lstr(k), lstr(v)) for k, v in gfacts), ", ".join(lstr(k) for k in gmissing)))
        self._write_generated(os.path.join(lean.LEAN_DIR, "CobaVerif", "Generated", "C05Reservoir.lean"), body3)
        try:
            fnums, fmissing = extract_filter_facts(os.environ.get("COBA_REPO", "/repo"))
        except Exception as e:
            fnums, fmissing = list(MODEL_FLT), ["*:" + type(e).__name__]
        body4 = ("-- GENERATED by harness/props/c05.py from coba/pipes/filters.py (ast) on every run; do not edit.\n"
                 "-- Places whose shape was not recognised keep the model's value and are listed in `fltNotExtracted`.\n"
                 "namespace Coba.Generated.C05\n"
                 "def fltNums : List (String × Int) :=\n  [%s]\n"
                 "def fltNotExtracted : List String := [%s]\n"
                 "end Coba.Generated.C05\n"
                 % (",\n   ".join("(%s, %d)" % (lstr(k), v) for k, v in fnums), ", ".join(lstr(k) for k in fmissing)))
        self._write_generated(os.path.join(lean.LEAN_DIR, "CobaVerif", "Generated", "C05Filters.lean"), body4)
        fdiff = [(k, v, dict(MODEL_FLT)[k]) for k, v in fnums if dict(MODEL_FLT)[k] != v]
        notes.append("Shuffle.filter / Reservoir.filter dispatch read with ast: %d of %d recognised%s%s" % (
            len(fnums) - len(fmissing), len(fnums), ("; NOT recognised (model value kept): " + ", ".join(fmissing)) if fmissing else "",
            ("; DIFFERENT from the model: " + ", ".join("%s=%r (model %r)" % d for d in fdiff)) if fdiff else ""))
        rdiff = [(k, v, dict(MODEL_RES)[k]) for k, v in rnums if dict(MODEL_RES)[k] != v]
        notes.append("Reservoir.filter literals read with ast: %d of %d recognised%s%s" % (
            len(rnums) - len(rmissing), len(rnums), ("; NOT recognised (model value kept): " + ", ".join(rmissing)) if rmissing else "",
            ("; DIFFERENT from the model: " + ", ".join("%s=%r (model %r)" % d for d in rdiff)) if rdiff else ""))
        self._src_diff = [(k, v, dict(MODEL_FACTS + MODEL_NUMS)[k]) for k, v in facts + nums if dict(MODEL_FACTS + MODEL_NUMS)[k] != v]
        notes.append("source facts read with ast: %d of %d places recognised%s%s" % (
            len(facts) + len(nums) - len(missing), len(facts) + len(nums),
            ("; NOT recognised (model value kept): " + ", ".join(missing)) if missing else "",
            ("; DIFFERENT from the model: " + ", ".join("%s=%r (model %r)" % d for d in self._src_diff)) if self._src_diff else ""))
        return notes

    @staticmethod
    def _write_generated(path, body):
        old = open(path, encoding="utf-8").read() if os.path.exists(path) else None
        if old != body:
            os.makedirs(os.path.dirname(path), exist_ok=True)
            with open(path, "w", encoding="utf-8") as f:
                f.write(body)

    # ---- generators
    def gen_seed(self, rng, boundary_ok=True):
        r = rng.below(100)
        if boundary_ok and r < 30:
            k = rng.randint(1, 6)
            t = rng.choice([0, 0, M - 1, M - 1, 1, M // 2, M - 2])
            s = seed_for(k, t)
            if rng.chance(0.3):
                s += M * rng.randint(-3, 3)
            return {"kind": "int", "v": s}
        if r < 55:
            return {"kind": "int", "v": rng.choice([rng.randint(0, 10), rng.randint(-1000, 1000), rng.randint(0, 2 ** 40), -rng.randint(0, 2 ** 35), rng.randint(0, M - 1),
                                                      rng.choice([1, -1]) * (rng.randint(2 ** 53, 2 ** 70) | 1)])}
        if r < 60:
            return {"kind": "bool", "v": rng.chance(0.5)}
        if r < 72:
            return {"kind": "float", "v": repr(float(rng.choice([0, 3, -2, 10 ** 10, rng.randint(0, 10 ** 6), 2 ** 31 + 5])))}
        if r < 84:
            return {"kind": "float", "v": repr(rng.choice([1.5, 0.1, -3.25, 2.5e-7, 1e300 / 3, rng.randint(1, 999) / 7]))}
        if r < 88:
            return {"kind": "float", "v": rng.choice(["nan", "inf", "-inf"])}
        return {"kind": "str", "v": rng.choice(["abc", "0", "seed", "été", "a b", "1.5", "x" * rng.randint(1, 12), "中"])}

    def gen_dy(self, rng, lo_ok=True):
        j = rng.choice([0, 0, 1, 2, 3, 8])
        n = rng.randint(-(2 ** 8), 2 ** 8) * (2 ** j) + (rng.randint(-3, 3) if j else 0)
        n = max(-(2 ** (8 + j)), min(2 ** (8 + j), n))
        fr = Fraction(n, 2 ** j)
        return fr

    def gen_weights(self, rng, n):
        r = rng.below(100)
        if r < 25:
            return None
        if r < 30:
            return [[0, 1]] * n                       # all zero -> ValueError
        if r < 35:
            return [[1, 1]] * (n + rng.randint(1, 2))  # wrong length
        if r < 38:
            return []
        if r < 42 and n > 0:      # negative members (outside the contract: only the correspondence applies)
            return [[rng.randint(-3, 4), 1] for _ in range(n)]
        kind = rng.below(3)
        ws = []
        for _ in range(n):
            if rng.chance(0.35):
                ws.append([0, 1])
            elif kind == 0:
                ws.append([rng.randint(1, 5), 1])
            elif kind == 1:
                ws.append(q(Fraction(rng.randint(1, 16), 8)))
            else:
                ws.append(q(Fraction(rng.randint(1, 7), 2 ** rng.randint(0, 4))))
        return ws

    def gen_pmf(self, rng, n):
        """a pmf over n members: dyadic (sixteenths), sums to exactly 1, zeros frequent"""
        k = rng.randint(1, n)
        pos = []
        while len(pos) < k:
            j = rng.below(n)
            if j not in pos:
                pos.append(j)
        c = [0] * n
        for j in pos:
            c[j] = 1
        for _ in range(16 - k):
            c[pos[rng.below(k)]] += 1
        return [q(Fraction(x, 16)) for x in c]

    def gen_via_op(self, rng, i):
        n = rng.choice([1, 2, 2, 3, 3, 3, 4, 5])
        h = {"i": i, "op": "choicew", "n": n, "w": self.gen_pmf(rng, n)}
        if n > 1 and rng.chance(0.65):
            h["labels"] = [rng.below(2) for _ in range(n)]
        return h

    def gen_via_case(self, rng):
        """CobaRandom reached through its callers: PMFPredictor / PMFInfoPredictor.predict and SafeLearner.predict on a PMF
        learner, incl. re-wrapped SafeLearners (of a fresh or of a live wrapper, same or different seed), interleaved"""
        shape = rng.choice([["pmf"], ["pmfinfo"], ["safe"], ["safe", "rewrap"], ["safe", "rewrap", "rewrap"], ["pmf", "safe", "plain"],
                            ["safe", "rewrap", "plain"], ["pmfinfo", "pmf"]])
        seeds = []
        for kd in shape:
            sd = self.gen_seed(rng) if rng.chance(0.5) else {"kind": "int", "v": rng.randint(0, 9)}
            if kd == "plain":
                pass
            elif kd == "rewrap":
                sd["via"] = "safe"
                live = [j for j, x in enumerate(seeds) if x.get("via") == "safe" and "of" not in x]
                if live and rng.chance(0.7):
                    sd["of"] = rng.choice(live)
                    if rng.chance(0.3):
                        sd["kind"], sd["v"] = seeds[sd["of"]]["kind"], seeds[sd["of"]]["v"]      # re-wrapped with the SAME seed
                else:
                    sd["inner"] = {"kind": "int", "v": rng.randint(0, 9)}
            else:
                sd["via"] = kd
            seeds.append(sd)
        hist = []
        for _ in range(rng.choice([3, 5, 8, 12, 16])):
            i = rng.below(len(seeds))
            hist.append(self.gen_via_op(rng, i) if seeds[i].get("via") else self.gen_op(rng, i))
        return {"seeds": seeds, "hist": hist}

    def gen_learner_case(self, rng):
        """CobaRandom reached through every PMFPredictor-based learner that runs without extra packages (Fixed, BanditEpsilon, BanditUCB),
        bare or wrapped once/twice by SafeLearner, and through SafeLearner's batched PMF paths (row- and column-major), interleaved
        with each other and with plain generators of the same seed"""
        seeds = []
        for _ in range(rng.choice([1, 2, 2, 3])):
            sd = self.gen_seed(rng) if rng.chance(0.4) else {"kind": "int", "v": rng.randint(0, 9)}
            kd = rng.choice(["fixed", "eps", "ucb", "safe-row", "safe-col", "plain"])
            if kd != "plain":
                sd["via"] = kd
                sd["n"] = rng.choice([2, 3, 4, 5])
            if kd == "fixed":
                sd["pmf"] = self.gen_pmf(rng, sd["n"])
                if rng.chance(0.5):
                    sd["labels"] = [rng.below(2) for _ in range(sd["n"])]
            if kd == "eps":
                sd["eps"] = q(Fraction(rng.choice([0, 1, 2, 4]), 4))
            if kd in ("fixed", "eps", "ucb") and rng.chance(0.5):
                sd["wrap"] = rng.randint(0, 9)
                if rng.chance(0.4):
                    sd["wrap2"] = rng.randint(0, 9)
            seeds.append(sd)
        hist = []
        for _ in range(rng.choice([3, 5, 8, 12, 16])):
            i = rng.below(len(seeds))
            hist.append(self.gen_learner_op(rng, i, seeds[i]))
        return {"seeds": seeds, "hist": hist}

    def gen_learner_op(self, rng, i, sd):
        kd = sd.get("via")
        if kd is None:
            return self.gen_op(rng, i)
        n = sd["n"]
        if kd == "fixed":
            h = {"i": i, "op": "choicew", "n": n, "w": sd["pmf"]}
            if sd.get("labels"):
                h["labels"] = sd["labels"]
            return h
        if kd in LEARNER_KINDS:
            return {"i": i, "op": "lpredict", "n": n, "reward": q(Fraction(rng.randint(0, 8), 8))}
        B = rng.choice([b for b in (1, 2, 3, 4, 6) if kd == "safe-row" or b != n])
        rows = []
        for _ in range(B):
            r = {"n": n, "w": self.gen_pmf(rng, n)}
            if rng.chance(0.5):
                r["labels"] = [rng.below(2) for _ in range(n)]
            rows.append(r)
        return {"i": i, "op": "choicew_batch", "rows": rows}

    def gen_op(self, rng, i):
        r = rng.below(100)
        if r < 18:
            lo = self.gen_dy(rng)
            d = Fraction(rng.randint(1, 2 ** 9), 2 ** rng.choice([0, 0, 1, 4, 8]))
            if rng.chance(0.2):
                lo, d = Fraction(0), Fraction(1)
            if rng.chance(0.06):      # degenerate / reversed bounds: accepted by the code, outside the [min,max) contract
                d = rng.choice([Fraction(0), -d])
            return {"i": i, "op": "random", "lo": q(lo), "hi": q(lo + d), "exact": True}
        if r < 24:   # wide bounds: float rounding may occur (tolerance comparison)
            e = rng.randint(10, 20)
            hi = Fraction(rng.choice([1, -1]) * 2 ** e)
            d = Fraction(1, 2 ** rng.randint(0, 20))
            if rng.chance(0.5):
                return {"i": i, "op": "random", "lo": q(hi - d), "hi": q(hi), "exact": False}
            return {"i": i, "op": "random", "lo": q(hi), "hi": q(hi + d), "exact": False}
        if r < 32:
            lo = self.gen_dy(rng)
            d = Fraction(rng.randint(1, 2 ** 9), 2 ** rng.choice([0, 0, 1, 4]))
            if rng.chance(0.3):
                lo, d = Fraction(0), Fraction(1)
            if rng.chance(0.2):
                d = Fraction(1)
            return {"i": i, "op": "randoms", "n": rng.randint(0, 5), "lo": q(lo), "hi": q(lo + d), "exact": True}
        if r < 44:
            a = rng.choice([0, 1, rng.randint(-1000, 1000), rng.randint(-1000, 1000), 10 ** 12, -(10 ** 12), 2 ** 53 + 1, -(2 ** 53) - 3, 2 ** 62])
            b = a + rng.choice([0, 1, 2, 5, rng.randint(0, 50), rng.randint(0, 2 ** 22)])
            if rng.chance(0.08):      # a > b: accepted by the code (empty interval, outside the contract)
                b = a - rng.choice([1, 2, 7, 100])
            return {"i": i, "op": "randint", "a": a, "b": b}
        if r < 50:
            a = rng.choice([0, 0, 1, rng.randint(-1000, 1000), rng.randint(-1000, 1000), 10 ** 12, 2 ** 53 + 1, -(2 ** 53) - 3])
            b = a + rng.choice([0, 1, 2, 5, rng.randint(0, 50), rng.randint(0, 2 ** 22)])
            return {"i": i, "op": "randints", "n": rng.randint(0, 5), "a": a, "b": b}
        if r < 64:
            h = {"i": i, "op": "shuffle", "n": rng.choice([0, 1, 2, 2, 3, 4, 5, 7, 9])}
            m = rng.below(5)
            if m == 0:
                h["inplace"] = True
            elif m == 1:
                h["iter"] = True
            elif m == 4:
                h["cont"] = rng.choice(["tuple", "range", "gen", "str"])
            return h
        if r < 76:
            n = rng.choice([0, 1, 1, 2, 2, 3, 4, 6]) if rng.chance(0.15) else rng.choice([1, 1, 2, 2, 3, 4, 6])
            h = {"i": i, "op": "choice", "n": n, "w": self.gen_weights(rng, n)}
            if n > 1 and rng.chance(0.4):
                h["labels"] = [rng.below(2) for _ in range(n)]
            if h["w"] is not None and rng.chance(0.5):
                h["wshare"] = rng.below(2)
            if h["w"] is None and rng.chance(0.3):
                h["explicit_none"] = True
            return h
        if r < 86:
            n = rng.choice([1, 1, 2, 2, 3, 4, 6])
            h = {"i": i, "op": "choicew", "n": n, "w": self.gen_weights(rng, n)}
            if n > 1 and rng.chance(0.4):
                h["labels"] = [rng.below(2) for _ in range(n)]
            if h["w"] is not None and rng.chance(0.5):
                h["wshare"] = rng.below(2)
            return h
        if r < 94:
            h = {"i": i, "op": "gauss"}
            if rng.chance(0.3):
                h["mu"], h["sigma"] = rng.randint(-5, 5), rng.randint(0, 4)
            return h
        h = {"i": i, "op": "gausses" if rng.chance(0.6) else "gaussiter", "n": rng.randint(0, 5)}
        if rng.chance(0.3):
            h["mu"], h["sigma"] = rng.randint(-5, 5), rng.randint(0, 4)
        return h

    def gen_entry(self, rng, seeds):
        i = rng.below(len(seeds))
        if seeds[i].get("module"):
            if rng.chance(0.12):      # coba.random.seed(s) in the middle of a history
                return {"i": i, "op": "reseed", "seed": self.gen_seed(rng)}
            if rng.chance(0.05):      # the module-level generator itself goes through pickle
                return {"i": i, "op": "pickle"}
        elif rng.chance(0.06):        # the generator object goes through pickle (multiprocessing)
            return {"i": i, "op": "pickle"}
        elif rng.chance(0.02):
            return {"i": i, "op": "reseed", "seed": self.gen_seed(rng)}
        return self.gen_op(rng, i)

    def generate(self, rng, tier):
        if rng.chance(0.05):
            return self.gen_filters_case(rng)
        if rng.chance(0.04):
            return self.gen_reservoir_case(rng)
        if rng.chance(0.05):
            return self.gen_inexact_case(rng)
        if rng.chance(0.12):
            return self.gen_via_case(rng)
        if rng.chance(0.08):
            return self.gen_learner_case(rng)
        ninst = rng.choice([1, 1, 2, 2, 3])
        seeds = [self.gen_seed(rng) for _ in range(ninst)]
        if rng.chance(0.35):
            sd = self.gen_seed(rng)
            sd["module"] = True
            seeds.append(sd)
        nops = rng.choice([1, 2, 3, 5, 8, 12, 20, 30])
        hist = []
        for _ in range(nops):
            if rng.chance(0.12):
                hist.append({"op": "noise", "what": rng.choice(["pyseed", "pyrandom", "other", "newinst"]), "v": rng.randint(0, 99)})
            else:
                hist.append(self.gen_entry(rng, seeds))
        case = {"seeds": seeds, "hist": hist}
        if rng.chance(0.01 if tier == "quick" else 0.003):
            case["subprocess"] = True
        if rng.chance(0.04 if tier == "quick" else 0.01):
            case["fork"] = True
        return case

    def search(self, rng, tier):
        ext = getattr(self, "_extracted", None)
        if ext and ext != (A, C, M) and not getattr(self, "_cycle_tried", False):
            # the source's LCG constants are not the proved ones: compute the period they give and replay it on the real code
            self._cycle_tried = True
            a, c, m = ext
            cap = (1 << 29) if tier == "thorough" else (1 << 27)
            if m & (m - 1) == 0:
                best = None
                for sd in list(range(64)) + [1 << k for k in range(6, 30)]:
                    P = affine_period(a, c, m, sd % m, cap)
                    if P is not None and P < (1 << 30) and (best is None or P < best[1]):
                        best = (sd, P)
                if best:
                    return {"cycle": {"seed": best[0], "steps": max(best[1], 8)}}
        # boundary-biased: one instance, a boundary seed, short history so the special uniform lands on each method
        k = rng.randint(1, 4)
        t = rng.choice([0, M - 1])
        seeds = [{"kind": "int", "v": seed_for(k, t)}]
        hist = []
        for _ in range(k - 1):
            hist.append({"i": 0, "op": "random", "lo": [0, 1], "hi": [1, 1], "exact": True})
        for _ in range(rng.randint(1, 3)):
            hist.append(self.gen_op(rng, 0))
        return {"seeds": seeds, "hist": hist}

    def corpus(self):
        cyc = [{"cycle": {"seed": sd, "steps": 1 << k}} for sd, k in ((0, 4), (1, 10), (7, 16), (482549499, 18), (123456789, 20))]
        return cyc + self.corpus_histories() + self.corpus_phase5() + self.corpus_phase6()

    def corpus_histories(self):
        s0 = seed_for(1, 0)
        smax = seed_for(1, M - 1)
        cs = []
        one = {"i": 0, "op": "random", "lo": [0, 1], "hi": [1, 1], "exact": True}
        for s in (s0, smax, seed_for(2, 0), seed_for(2, M - 1), seed_for(3, 0)):
            for op in ({"op": "gauss"}, {"op": "gausses", "n": 3}, {"op": "choice", "n": 2, "w": [[0, 1], [1, 1]]},
                       {"op": "choicew", "n": 3, "w": [[0, 1], [0, 1], [3, 1]]}, {"op": "choice", "n": 3, "w": None},
                       {"op": "randint", "a": 0, "b": 4194303}, {"op": "shuffle", "n": 5}, {"op": "randints", "n": 3, "a": 5, "b": 9},
                       {"op": "random", "lo": [-3, 1], "hi": [5, 2], "exact": True},
                       {"op": "random", "lo": q(Fraction(2 ** 20) - Fraction(1, 2 ** 20)), "hi": [2 ** 20, 1], "exact": False}):
                for pre in (0, 1, 2):
                    h = [dict(one) for _ in range(pre)] + [dict(op, i=0)]
                    cs.append({"seeds": [{"kind": "int", "v": s}], "hist": h})
        for s in (1, 7, s0):
            cs.append({"seeds": [{"kind": "int", "v": s}], "hist": [
                {"i": 0, "op": "choicew", "n": 3, "w": [[1, 1], [0, 1], [0, 1]], "wshare": 0},
                {"i": 0, "op": "choicew", "n": 3, "w": [[0, 1], [0, 1], [1, 1]], "wshare": 0},
                {"i": 0, "op": "choice", "n": 3, "w": [[0, 1], [2, 1], [0, 1]], "wshare": 0},
                {"i": 0, "op": "choice", "n": 3, "w": [[0, 1], [0, 1], [0, 1]], "wshare": 0},
                {"i": 0, "op": "choicew", "n": 2, "w": [[0, 1], [5, 1]], "wshare": 0}]})
        cs.append({"seeds": [{"kind": "int", "v": 5, "module": True}, {"kind": "int", "v": 9}],
                   "hist": [dict(one, i=0), dict(one, i=1), {"i": 0, "op": "shuffle", "n": 5}, {"i": 0, "op": "gauss"}], "fork": True})
        for s in (smax, s0, 7):
            cs.append({"seeds": [{"kind": "int", "v": s}], "hist": [{"i": 0, "op": "randint", "a": 10 ** 12, "b": 10 ** 12 + 5},
                                                                     {"i": 0, "op": "randint", "a": 2 ** 53 + 1, "b": 2 ** 53 + 3},
                                                                     {"i": 0, "op": "randints", "n": 3, "a": -(2 ** 53) - 3, "b": -(2 ** 53) - 1}]})
        cs += self.corpus_phase4()
        cs.append({"seeds": [{"kind": "str", "v": "abc"}, {"kind": "float", "v": "1.5"}, {"kind": "float", "v": "3.0"}],
                   "hist": [dict(one, i=0), dict(one, i=1), dict(one, i=2), {"i": 0, "op": "shuffle", "n": 6}], "subprocess": True})
        return cs

    def corpus_phase4(self):
        cs = []
        one = {"i": 0, "op": "random", "lo": [0, 1], "hi": [1, 1], "exact": True}
        S = lambda v, **kw: dict({"kind": "int", "v": v}, **kw)
        # round g (gm2): the probability reported with the sampled member, through the callers, with EQUAL members of different weight
        dup = [{"op": "choicew", "n": 3, "labels": [0, 1, 0], "w": [[0, 1], [1, 4], [3, 4]]},
               {"op": "choicew", "n": 3, "labels": [1, 1, 1], "w": [[0, 1], [0, 1], [1, 1]]},
               {"op": "choicew", "n": 4, "labels": [0, 0, 1, 1], "w": [[1, 8], [3, 8], [0, 1], [1, 2]]},
               {"op": "choicew", "n": 2, "labels": [5, 5], "w": [[1, 4], [3, 4]]}]
        for via in ("pmf", "pmfinfo", "safe"):
            for s in (1, 3):
                cs.append({"seeds": [S(s, via=via)], "hist": [dict(h, i=0) for h in dup + dup]})
        cs.append({"seeds": [S(2)], "hist": [dict(h, i=0) for h in dup + dup]})
        # round g (gm4): re-wrapped SafeLearners -- different seed, same seed, of one live wrapper, interleaved with it
        w4 = [[1, 8], [1, 4], [1, 8], [1, 2]]
        cw = lambda i: {"i": i, "op": "choicew", "n": 4, "w": w4}
        cs.append({"seeds": [S(5, via="safe", inner=S(1))], "hist": [cw(0)] * 6})
        cs.append({"seeds": [S(1, via="safe"), S(7, via="safe", of=0), S(7, via="safe", of=0)],
                   "hist": [cw(1), cw(2), cw(2), cw(0)] * 4})
        cs.append({"seeds": [S(1, via="safe"), S(1, via="safe", of=0)], "hist": [cw(0), cw(1), cw(1), cw(0), cw(1)] * 2})
        cs.append({"seeds": [S(1, via="safe"), S(7, via="safe", of=0), S(7)], "hist": [cw(1), cw(0), cw(2)] * 4})
        cs.append({"seeds": [{"kind": "float", "v": "0.0", "via": "safe", "inner": S(3)}, {"kind": "str", "v": "abc", "via": "pmf"}],
                   "hist": [cw(0), cw(1)] * 4})
        # module-level generator: seed() in the middle of a history, after a buffered gaussian, against an instance with the same seed
        for s in (0, 7, seed_for(1, 0)):
            cs.append({"seeds": [S(3, module=True), S(s)], "hist": [
                dict(one, i=0), {"i": 0, "op": "gauss"}, {"i": 0, "op": "reseed", "seed": S(s)},
                {"i": 0, "op": "gauss"}, {"i": 1, "op": "gauss"}, {"i": 0, "op": "randint", "a": 1, "b": 6}, {"i": 1, "op": "randint", "a": 1, "b": 6},
                {"i": 0, "op": "shuffle", "n": 5}, {"i": 1, "op": "shuffle", "n": 5}, {"i": 0, "op": "choicew", "n": 3, "w": [[1, 4], [0, 1], [3, 4]]},
                {"i": 0, "op": "randoms", "n": 2, "lo": [1, 1], "hi": [2, 1], "exact": True}, {"i": 0, "op": "randints", "n": 2, "a": 0, "b": 9},
                {"i": 0, "op": "gausses", "n": 3}, {"i": 0, "op": "choice", "n": 4, "w": None}, dict(one, i=0)]})
        # pickling: restores the seed (all kinds of seed), not the position
        for sd in (S(7), S(2 ** 40 + 3), S(-5), S(2 ** 62 + 5), S(-(2 ** 70) - 1), S(2 ** 53 + 1), {"kind": "float", "v": "1.5"}, {"kind": "float", "v": "3.0"}, {"kind": "str", "v": "abc"}, {"kind": "bool", "v": True}):
            cs.append({"seeds": [sd], "hist": [dict(one, i=0), {"i": 0, "op": "gauss"}, {"i": 0, "op": "pickle"}, dict(one, i=0), {"i": 0, "op": "gauss"},
                                                {"i": 0, "op": "gauss"}, {"i": 0, "op": "shuffle", "n": 4}]})
        # argument shapes accepted by the code
        for s in (1, seed_for(1, 0), seed_for(1, M - 1)):
            cs.append({"seeds": [S(s)], "hist": [
                {"i": 0, "op": "randint", "a": 5, "b": 5}, {"i": 0, "op": "randint", "a": 5, "b": 4}, {"i": 0, "op": "randint", "a": 9, "b": 2},
                {"i": 0, "op": "randints", "n": 0, "a": 1, "b": 3}, {"i": 0, "op": "randoms", "n": 0, "lo": [0, 1], "hi": [1, 1], "exact": True},
                {"i": 0, "op": "random", "lo": [3, 1], "hi": [3, 1], "exact": True}, {"i": 0, "op": "random", "lo": [3, 1], "hi": [1, 1], "exact": True},
                {"i": 0, "op": "randint", "a": 2 ** 62, "b": 2 ** 62 + 2 ** 22},
                {"i": 0, "op": "shuffle", "n": 4, "cont": "tuple"}, {"i": 0, "op": "shuffle", "n": 4, "cont": "str"}, {"i": 0, "op": "shuffle", "n": 3, "cont": "gen"},
                {"i": 0, "op": "shuffle", "n": 1, "cont": "range"}, {"i": 0, "op": "shuffle", "n": 0, "cont": "gen"},
                {"i": 0, "op": "choice", "n": 1, "w": [[1, 2]]}, {"i": 0, "op": "choicew", "n": 1, "w": [[5, 1]]}, {"i": 0, "op": "choice", "n": 1, "w": None},
                {"i": 0, "op": "choice", "n": 3, "w": [[3, 1], [-1, 1], [2, 1]]},
                {"i": 0, "op": "choice", "n": 2, "w": [[0, 1], [0, 1]]}, dict(one, i=0),
                {"i": 0, "op": "gaussiter", "n": 3}, {"i": 0, "op": "gausses", "n": 2}, {"i": 0, "op": "gaussiter", "n": 1}, {"i": 0, "op": "gausses", "n": 0}, dict(one, i=0),
                {"i": 0, "op": "choice", "n": 1, "w": [[-1, 1]]}]})      # negative total: StopIteration (choice_negative_total_counterexample)
        return cs + self.corpus_phase4b()

    def corpus_phase4b(self):
        cs = []
        one = {"i": 0, "op": "random", "lo": [0, 1], "hi": [1, 1], "exact": True}
        S = lambda v, **kw: dict({"kind": "int", "v": v}, **kw)
        # every error path of choice/choicew followed by draws: the stream position after the error is part of the correspondence
        errs = [{"op": "choice", "n": 2, "w": [[0, 1], [0, 1]]}, {"op": "choicew", "n": 2, "w": [[1, 1], [1, 1], [1, 1]]}, {"op": "choice", "n": 3, "w": []},
                {"op": "choice", "n": 0, "w": None}, {"op": "choicew", "n": 0, "w": None}, {"op": "choice", "n": 1, "w": [[-1, 1]]},
                {"op": "choicew", "n": 2, "w": [[1, 1], [-2, 1]]}, {"op": "choice", "n": 0, "w": []}]
        for s in (1, seed_for(1, 0)):
            for mod in (False, True):
                hist = []
                for e in errs:
                    hist += [dict(e, i=0), dict(one, i=0), {"i": 0, "op": "choicew", "n": 3, "w": [[1, 4], [1, 4], [1, 2]]}]
                hist += [{"i": 0, "op": "gauss"}, dict(errs[0], i=0), {"i": 0, "op": "gauss"}, dict(errs[5], i=0), {"i": 0, "op": "gauss"}, {"i": 0, "op": "shuffle", "n": 4}]
                cs.append({"seeds": [S(s, module=True) if mod else S(s)], "hist": hist})
        # module-level generator through pickle, after a re-seed
        cs.append({"seeds": [S(3, module=True)], "hist": [dict(one, i=0), {"i": 0, "op": "reseed", "seed": S(11)}, dict(one, i=0), {"i": 0, "op": "gauss"},
                                                            {"i": 0, "op": "pickle"}, dict(one, i=0), {"i": 0, "op": "gauss"}, {"i": 0, "op": "randint", "a": 1, "b": 6}]})
        # learners built on PMFPredictor, bare / wrapped / wrapped twice, same seed, interleaved
        pm = [[0, 1], [1, 4], [3, 4]]
        fx = lambda i: {"i": i, "op": "choicew", "n": 3, "w": pm, "labels": [0, 1, 0]}
        cs.append({"seeds": [S(4, via="fixed", n=3, pmf=pm, labels=[0, 1, 0]), S(4, via="fixed", n=3, pmf=pm, labels=[0, 1, 0], wrap=7),
                             S(4, via="fixed", n=3, pmf=pm, labels=[0, 1, 0], wrap=7, wrap2=2), S(4)],
                   "hist": [fx(0), fx(1), fx(1), fx(2), fx(3), fx(0), fx(2), fx(1), fx(3), fx(3)]})
        lp = lambda i, n, r: {"i": i, "op": "lpredict", "n": n, "reward": [r, 4]}
        for kd in LEARNER_KINDS:
            extra = {"eps": [1, 4]} if kd == "eps" else {}
            cs.append({"seeds": [S(6, via=kd, n=4, **extra), S(6, via=kd, n=4, wrap=3, **extra), S(6, via=kd, n=3, wrap=1, wrap2=5, **extra)],
                       "hist": [lp(0, 4, 1), lp(1, 4, 1), lp(2, 3, 0), lp(0, 4, 3), lp(1, 4, 3), lp(2, 3, 4), lp(0, 4, 0), lp(0, 4, 2), lp(1, 4, 0), lp(1, 4, 2),
                                lp(2, 3, 1), lp(0, 4, 4), lp(1, 4, 4), lp(2, 3, 2), lp(0, 4, 1), lp(1, 4, 1)]})
        # SafeLearner's batched PMF paths: the same rows, row-major / column-major / one by one / on a plain generator, one seed
        rows = [{"n": 3, "w": pm, "labels": [0, 1, 0]}, {"n": 3, "w": [[1, 2], [1, 2], [0, 1]]}, {"n": 3, "w": [[0, 1], [0, 1], [1, 1]], "labels": [1, 1, 1]},
                {"n": 3, "w": [[1, 4], [1, 2], [1, 4]]}]
        bt = lambda i, k: {"i": i, "op": "choicew_batch", "rows": rows[:k]}
        for s in (1, 5):
            cs.append({"seeds": [S(s, via="safe-row", n=3), S(s, via="safe-col", n=3), S(s), S(s, via="safe")],
                       "hist": [bt(0, 4), bt(1, 4), bt(2, 4), bt(0, 2), bt(1, 2), bt(2, 2), bt(0, 3), bt(1, 1), bt(2, 1), bt(0, 1)]
                       + [dict(r, i=3, op="choicew") for r in rows]})
        return cs

    def corpus_phase5(self):
        cs = []
        S = lambda v, **kw: dict({"kind": "int", "v": v}, **kw)
        # round h (hm3): Reservoir as a caller -- runs of 0, <=21, >21, >42, >63 replacement steps (batch borders at 20/40/60 triples)
        for seed in (1, 2, 3, 7):
            for count, n in ((1, 5), (3, 3), (3, 4), (5, 40), (10, 200), (4, 1000), (10, 2000), (10, 100000), (50, 5000), (2, 30000), (20, 1500)):
                cs.append({"reservoir": {"seed": S(seed), "count": count, "n": n}})
        cs.append({"reservoir": {"seed": {"kind": "str", "v": "abc"}, "count": 6, "n": 3000}})
        cs.append({"reservoir": {"seed": S(seed_for(4, 0)), "count": 4, "n": 900}})      # a uniform that is exactly 0 in the walk: the triple is skipped
        # round h (hm2): pmfs whose float sum is not exactly 1 (epsilon-greedy, softmax, inside SafeLearner's tolerance), through every caller
        pm = [[q(x) for x in p] for p in inexact_pmfs()]
        for seed in (1, 2, 3):
            for via in ("safe", "pmf", "pmfinfo", None):
                hist = []
                for p in pm:
                    hist += [{"i": 0, "op": "choicew", "n": len(p), "w": p, "inexact": True}] * 3
                cs.append({"seeds": [S(seed, via=via) if via else S(seed)], "hist": hist})
            cs.append({"seeds": [S(seed, via="safe", inner=S(5))], "hist": [{"i": 0, "op": "choicew", "n": len(p), "w": p, "inexact": True} for p in pm] * 2})
            # SafeLearner's batched PMF paths (row / column major) and a plain generator on the same rows
            for k in (3, 4, 7):
                rows = [{"n": len(p), "w": p} for p in pm if len(p) == k]
                if rows:
                    bt = lambda i, a, b: {"i": i, "op": "choicew_batch", "rows": rows[a:b], "inexact": True}
                    cs.append({"seeds": [S(seed, via="safe-row", n=k), S(seed, via="safe-col", n=k), S(seed)],
                               "hist": [bt(i, a, b) for a, b in ((0, 2), (2, 4), (0, len(rows)), (1, 2), (0, 2)) for i in (0, 1, 2) if rows[a:b] and not (i == 1 and b - a == k)]})
            # FixedLearner(pmf,seed) with an inexact pmf: bare, wrapped, wrapped twice
            for p in pm[:6]:
                fx = lambda i: {"i": i, "op": "choicew", "n": len(p), "w": p, "inexact": True}
                cs.append({"seeds": [S(seed, via="fixed", n=len(p), pmf=p), S(seed, via="fixed", n=len(p), pmf=p, wrap=7), S(seed, via="fixed", n=len(p), pmf=p, wrap=7, wrap2=2), S(seed)],
                           "hist": [fx(0), fx(1), fx(2), fx(3)] * 4})
        # size thresholds: randint bounds around 2^30 and 2^53, choice over more than 2^30 total integer weight, at the extreme uniforms
        big = [(0, 2 ** 30 - 2), (0, 2 ** 30 - 1), (0, 2 ** 30), (1, 2 ** 30), (-(2 ** 30), 2 ** 30), (0, 2 ** 30 + 1), (0, 2 ** 53 - 2), (0, 2 ** 53 - 1), (0, 2 ** 53),
               (0, 2 ** 53 + 1), (2 ** 53 - 1, 2 ** 53 + 1), (-(2 ** 53) - 1, 2 ** 53 + 1), (5, 2 ** 23 + 4), (5, 2 ** 23 + 5)]
        bigw = [[2 ** 30, 2 ** 30], [2 ** 31 - 1, 1], [1, 2 ** 31 - 1], [2 ** 30, 1], [1, 2 ** 30], [0, 2 ** 30 + 1, 0], [2 ** 29, 0, 2 ** 29, 1], [2 ** 52, 2 ** 52], [2 ** 53, 1]]
        for s_ in (seed_for(1, 0), seed_for(1, M - 1), seed_for(1, M // 2), seed_for(1, 1), 1, 7):
            hist = [{"i": 0, "op": "randint", "a": a, "b": b} for a, b in big] + [{"i": 0, "op": "randints", "n": 3, "a": a, "b": b} for a, b in big[:6]]
            cs.append({"seeds": [S(seed_for(1, 0)) if False else S(s_)], "hist": hist})
            for k in (1, 2, 3):     # the extreme uniform lands on each call once
                cs.append({"seeds": [S(seed_for(k, M - 1))], "hist": [{"i": 0, "op": "randint", "a": a, "b": b} for a, b in big[k - 1:k + 6]]})
            cs.append({"seeds": [S(s_)], "hist": [{"i": 0, "op": op_, "n": len(w), "w": [[x, 1] for x in w]} for w in bigw for op_ in ("choice", "choicew")]})
        # size thresholds: list sizes around 2^10
        for n in (1023, 1024, 1025):
            cs.append({"seeds": [S(3)], "hist": [{"i": 0, "op": "randoms", "n": n, "lo": [0, 1], "hi": [1, 1], "exact": True}, {"i": 0, "op": "randints", "n": n, "a": 0, "b": 1023},
                                                 {"i": 0, "op": "shuffle", "n": n}, {"i": 0, "op": "random", "lo": [0, 1], "hi": [1, 1], "exact": True}]})
        for n in (65535, 65536, 65537):
            cs.append({"seeds": [S(5)], "hist": [{"i": 0, "op": "randoms", "n": n, "lo": [0, 1], "hi": [1, 1], "exact": True}, {"i": 0, "op": "randints", "n": n, "a": 1, "b": 65536},
                                                 {"i": 0, "op": "random", "lo": [0, 1], "hi": [1, 1], "exact": True}]})
        return cs

    def gen_reservoir_case(self, rng):
        count = rng.choice([1, 2, 3, 4, 5, 8, 10, 16, 25])
        n = rng.choice([count, count + 1, count * 8, count * 100, count * 100, count * 1000, count * 1000, rng.randint(count, 40000)])
        return {"reservoir": {"seed": {"kind": "int", "v": rng.randint(0, 10 ** 6)} if rng.chance(0.8) else self.gen_seed(rng, boundary_ok=False), "count": count, "n": n}}

    # ---- phase 6: histories over the filters that own a generator
    def corpus_phase6(self):
        S = lambda v: {"kind": "int", "v": v}
        cs = []
        sh = lambda sd: {"kind": "shuffle", "seed": sd}
        rs = lambda sd, c, strict=False: {"kind": "reservoir", "seed": sd, "count": c, "strict": strict}
        # read / abandon / read again / read a sibling / resume the abandoned one; the caller passes the SAME list every time
        for sd in (S(0), S(1), S(7), {"kind": "bool", "v": True}, S(2 ** 30 + 1), S(2 ** 40 + 3)):
            for n in (2, 5, 11, 64):
                cs.append({"filters": {"objs": [sh(sd), sh(sd), sh(S(3))], "hist": [
                    {"o": 0, "n": n, "input": "shared", "take": 1}, {"o": 0, "n": n, "input": "shared"}, {"o": 1, "n": n, "input": "shared", "take": 2},
                    {"o": 2, "n": n, "input": "shared"}, {"resume": 0, "take": None}, {"o": 0, "n": n, "input": "shared"}, {"resume": 2, "take": None},
                    {"o": 0, "n": n, "input": "iter"}, {"o": 1, "n": n, "input": "tuple"}, {"o": 0, "n": n, "input": "shared"}]}})
        # every path of Reservoir for several kinds of seed (1, 1.0, True are the same stream; "1" and 2.5 are hashed); three reads each
        seeds = (S(1), {"kind": "float", "v": "1.0"}, {"kind": "bool", "v": True}, {"kind": "str", "v": "1"}, {"kind": "float", "v": "2.5"}, S(7), S(0))
        for sd in seeds:
            for c, n in ((None, 6), (None, 1), (0, 5), (5, 3), (5, 4), (5, 5), (5, 6), (1, 1), (1, 2), (3, 40), (10, 300), (2, 0)):
                objs = [rs(sd, c), rs(sd, c, True), rs(sd, c), sh(S(5))]
                cs.append({"filters": {"objs": objs, "hist": [
                    {"o": 0, "n": n, "input": "shared", "take": 1}, {"o": 1, "n": n, "input": "shared"}, {"o": 0, "n": n, "input": "shared"},
                    {"o": 2, "n": n, "input": "iter", "take": 2}, {"o": 3, "n": max(n, 2), "input": "list"}, {"resume": 0, "take": None}, {"close": 3},
                    {"o": 0, "n": n, "input": "shared"}, {"resume": 3, "take": None}, {"o": 1, "n": n, "input": "tuple"}, {"o": 2, "n": n, "input": "shared"}]}})
        return cs

    def gen_filters_case(self, rng):
        sd = lambda: ({"kind": "int", "v": rng.choice([0, 1, 1, 2, 7, rng.randint(0, 10 ** 6)])} if rng.chance(0.7) else
                      rng.choice([{"kind": "bool", "v": True}, {"kind": "float", "v": "1.0"}, {"kind": "str", "v": "1"}, {"kind": "float", "v": "2.5"}, {"kind": "str", "v": "abc"}]))
        objs = []
        for _ in range(rng.choice([1, 2, 2, 3])):
            if rng.chance(0.35):
                s_ = sd()
                objs.append({"kind": "shuffle", "seed": s_ if s_["kind"] in ("int", "bool") else {"kind": "int", "v": 1}})
            else:
                objs.append({"kind": "reservoir", "seed": sd(), "count": rng.choice([None, 0, 1, 2, 3, 5, 5, 10, 10]), "strict": rng.chance(0.3)})
        if rng.chance(0.5):
            objs.append(dict(rng.choice(objs)))          # a sibling: same kind, same seed
        hist, opens = [], 0
        for _ in range(rng.choice([3, 5, 8, 12])):
            r = rng.below(10)
            if opens and r < 3:
                hist.append({"resume": rng.below(opens), "take": rng.choice([None, 1, 2, 5])})
            elif opens and r == 3:
                hist.append({"close": rng.below(opens)})
            else:
                o = rng.below(len(objs))
                c = objs[o].get("count") or 4
                n = rng.choice([0, 1, 2, c - 1, c, c + 1, c * 3, c * 30, c * 30, rng.randint(0, 400)])
                hist.append({"o": o, "n": max(n, 0), "input": rng.choice(["shared", "shared", "list", "iter", "tuple"]), "take": rng.choice([None, None, 0, 1, 2, 3])})
                opens += 1
        return {"filters": {"objs": objs, "hist": hist}}

    def evaluate_filters(self, case, driver):
        """Shuffle / Reservoir as CALLERS of CobaRandom(seed), under histories of filter calls. (B): the pieces read from one `filter` call,
        joined, are a prefix of (all of, when read to the end) the output the stream of CobaRandom(seed) determines for that input — whatever
        was read, abandoned, resumed or closed in between, on the same object or a sibling; a list the caller passed is left as it was.
        (A): the same against the Lean model's `fltRun` (driver), for the walk path with Algorithm L on the model's triples."""
        c = case["filters"]
        objs, hist = c["objs"], c["hist"]
        outs = run_filters(case)
        fails, tags = [], []
        opens = [h for h in hist if "o" in h]
        got, done, closed, matched = {}, {}, set(), {}
        gi = 0
        for h, o in zip(hist, outs):
            if o.get("skipped"):
                continue
            if "close" in h:
                tags.append("hist:close")
                if not o.get("closed"):
                    fails.append(F("B", "closing an abandoned filter generator raised %s" % o.get("err"), "filter-close-raises"))
                closed.add(h["close"])
                continue
            j = o["gen"]
            if "o" in h:
                ob = objs[h["o"]]
                tags += ["flt:" + flt_path(ob, h["n"]), "input:" + h.get("input", "list"), "fseed:" + ob["seed"]["kind"]]
                if h.get("take") is not None: tags.append("hist:abandon")
                if any(x["o"] == h["o"] and x["n"] == h["n"] for x in opens[:gi]): tags.append("hist:read-again")
                elif any(objs[x["o"]] == ob and x["n"] == h["n"] for x in opens[:gi]): tags.append("hist:read-sibling")
                gi += 1
                if o.get("input_after") is not None:
                    fails.append(F("B", "%s.filter(lst) changed the caller's list: range(%d) became %s… (the next call with the same list gets other values)"
                                   % (ob["kind"], h["n"], o["input_after"]), "filter-input-mutated:" + flt_path(ob, h["n"])))
            else:
                tags.append("hist:resume")
            if o.get("err"):
                fails.append(F("B", "reading filter call #%d raised %s" % (j, o["err"]), "filter-raises:" + o["err"]))
            got.setdefault(j, []).extend(o["out"])
            want = h.get("take")
            if j not in closed and (want is None or len(o["out"]) < want):
                done[j] = True
        refs = {}
        for j, h in enumerate(opens):
            if j not in got:
                continue
            ob, n = objs[h["o"]], h["n"]
            path = flt_path(ob, n)
            key = (json.dumps(ob, sort_keys=True), n)
            if key not in refs:
                refs[key] = filter_reference(ob, n)
            ref = refs[key][0]
            g = got[j]
            ok = (g == ref) if done.get(j) else (g == ref[:len(g)])
            if not ok:
                kind = "B" if path not in ("reservoir-zero", "reservoir-short-strict") else "A"
                sig = {"shuffle": "shuffle-filter", "reservoir-walk": "reservoir", "reservoir-exact": "reservoir"}.get(path, path)
                fails.append(F(kind, "filter call #%d: %s(%s).filter(range(%d)) [%s, input %s] gave %s%s, the stream of CobaRandom(seed) determines %s%s"
                               % (j, ob["kind"], json.dumps({k: v for k, v in ob.items() if k != "kind"}), n, path, h.get("input", "list"), g[:12],
                                  "" if done.get(j) else " (read so far)", ref[:12], "; an earlier identical call was right" if matched.get(key) else ""),
                               ("caller-not-seed-stream:" + sig + (":later-call" if matched.get(key) else "")) if kind == "B" else "A:filter-empty-path"))
            else:
                matched[key] = True
        model = None
        if driver is not None and opens:
            ans = driver.ask({"filters": {"objs": [dict(kind=ob["kind"], seed=seed_for_model(ob["seed"]), count=ob.get("count"), strict=bool(ob.get("strict"))) for ob in objs],
                                          "calls": [[h["o"], h["n"]] for h in opens]}})
            model = ans["outs"]
            for j, (h, mo) in enumerate(zip(opens, model)):
                if j not in got:
                    continue
                ob, n = objs[h["o"]], h["n"]
                if "items" in mo:
                    mfull = mo["items"]
                else:
                    used = refs[(json.dumps(ob, sort_keys=True), n)][2]
                    w = driver.ask({"reservoir": {"seed": seed_for_model(ob["seed"]), "count": ob["count"], "batches": used // 20 + 1}})
                    if w["perm"] != mo["perm"]:
                        fails.append(F("A", "model: fltOut and reservoirWalk disagree on the shuffled reservoir", "A:filter-model-perm"))
                    mfull = reservoir_reference(iter([(a / M, b / M, d / M) for a, b, d in w["triples"]]), mo["perm"], n, ob["count"])[0]
                g = got[j]
                if not ((g == mfull) if done.get(j) else (g == mfull[:len(g)])):
                    fails.append(F("A", "filter call #%d %s over range(%d): implementation %s, model %s" % (j, json.dumps(ob), n, g[:12], mfull[:12]), "A:filter:" + flt_path(ob, n)))
        nontrivial = any(len(g) >= 2 for g in got.values())
        return {"fails": fails, "nontrivial": nontrivial, "tags": tags, "impl": outs, "model": model}

    def gen_inexact_case(self, rng):
        """pmfs with float sum != 1 through a caller, interleaved with a plain generator of the same seed"""
        pms = inexact_pmfs()
        sd = {"kind": "int", "v": rng.randint(0, 99)}
        via = rng.choice(["safe", "safe", "pmf", "pmfinfo", "safe-row", "safe-col", "rewrap"])
        first = dict(sd, via="safe", inner={"kind": "int", "v": rng.randint(0, 9)}) if via == "rewrap" else dict(sd, via=via)
        hist = []
        if via in ("safe-row", "safe-col"):
            k = rng.choice([3, 3, 4, 7])
            first["n"] = k
            pool = [p for p in pms if len(p) == k]
            for _ in range(rng.choice([2, 4, 6])):
                B = rng.choice([b for b in (1, 2, 3, 4) if via == "safe-row" or b != k])
                rows = [{"n": k, "w": [q(x) for x in rng.choice(pool)]} for _ in range(B)]
                i = rng.below(2)
                hist.append({"i": i, "op": "choicew_batch", "rows": rows, "inexact": True})
        else:
            for _ in range(rng.choice([3, 6, 10])):
                p = rng.choice(pms)
                hist.append({"i": rng.below(2), "op": "choicew", "n": len(p), "w": [q(x) for x in p], "inexact": True})
        return {"seeds": [first, dict(sd)], "hist": hist}

    # ---- evaluation
    def evaluate(self, case, driver):
        fails, tags = [], []
        if "cycle" in case:
            o = run_cycle(case)
            c = case["cycle"]
            tags.append("cycle:2^%d" % (c["steps"].bit_length() - 1) if c["steps"] & (c["steps"] - 1) == 0 else "cycle:%d" % c["steps"])
            if o["repeats"] and c["steps"] % M != 0:
                fails.append(F("B", "CobaRandom(%d): after %d draws (< 2^30) the stream is back at its start and repeats: draws %d.. equal draws 1.. (%s)"
                               % (c["seed"], c["steps"], c["steps"] + 1, json.dumps(o["first"])), "stream-short-cycle"))
            # (A)/(C): the model's closed form says where the stream is after `steps` draws
            if driver is not None:
                ans = driver.ask({"seeds": [{"int": c["seed"]}], "hist": [{"i": 0, "op": "random", "lo": [0, 1], "hi": [1, 1]}] * 4})
                mo = [x[1].get("rat") for x in ans["model"]]
                if mo != o["first"]:
                    fails.append(F("A", "first four uniforms of seed %d: implementation %s, model %s" % (c["seed"], o["first"], mo), "A:cycle-first"))
            return {"fails": fails, "nontrivial": True, "tags": tags, "impl": o, "model": None}
        if "reservoir" in case:
            return self.evaluate_reservoir(case, driver)
        if "filters" in case:
            return self.evaluate_filters(case, driver)
        impl = run_history(case)
        hist = case["hist"]
        n_values = 0
        # (B) contracts, directly on the implementation's outputs
        for h, o in zip(hist, impl):
            op = h["op"]
            if op == "noise" or "skipped" in o:
                continue
            tags.append("op:" + op)
            if h.get("inexact"):
                tags.append("pmf:float-sum-not-1")
            if op in ("reseed", "pickle"):
                continue
            via = case["seeds"][h["i"]].get("via")
            if via:
                sdi = case["seeds"][h["i"]]
                tags.append("via:" + via + ("-rewrap-live" if "of" in sdi else "-rewrap" if "inner" in sdi else ""))
                if h.get("labels") and len(set(h["labels"])) < h["n"]:
                    tags.append("via:equal-members")
            if "err" in o:
                tags.append("err:" + o["err"])
                legit = True
                if op in ("choice", "choicew"):
                    w = h.get("w")
                    n = h["n"]
                    if n == 0 or (w is not None and (len(w) != n or sum(unq(p) for p in w) == 0 or any(unq(p) < 0 for p in w))):
                        legit = False       # documented rejections / empty sequence / negative weights (outside the contract)
                if op in ("randoms", "randints", "gausses") and h.get("n", 1) < 0:
                    legit = False
                if legit:
                    fails.append(F("B", "%s raised %s on legal arguments %s (seeds %s)" % (op, o["err"], json.dumps(h), json.dumps(case["seeds"])),
                                   "%s-raises-%s" % (op, o["err"])))
                continue
            n_values += 1
            if op in ("random", "randoms"):
                lo, hi = unq(h["lo"]), unq(h["hi"])
                xs = [o["rat"]] if op == "random" else o["rats"]
                if lo >= hi:
                    tags.append("random:min>=max")
                    if lo == hi and any(unq(x) != lo for x in xs):
                        fails.append(F("B", "%s(%s,%s) returned %s" % (op, lo, hi, xs), "random-degenerate-not-min"))
                    continue        # [min,max) is empty: only the correspondence applies
                if op == "randoms" and len(xs) != h["n"]:
                    fails.append(F("B", "randoms(%d) returned %d values" % (h["n"], len(xs)), "randoms-length"))
                for x in xs:
                    x = unq(x)
                    if not (lo <= x < hi):
                        at = "max" if x == hi else ("above" if x > hi else "below")
                        sig = "random-out-of-range-" + at
                        # even the exact value for the largest uniform, hi-(hi-lo)/2^30, rounds to hi in double precision
                        if x == hi and Fraction(float(hi - (hi - lo) / M)) == hi:
                            sig = "random-rounds-to-max"
                        fails.append(F("B", "%s(%s,%s) returned %s which is not in [min,max)" % (op, lo, hi, x), sig))
            elif op in ("randint", "randints"):
                xs = [o["int"]] if op == "randint" else o["ints"]
                if op == "randints" and len(xs) != h["n"]:
                    fails.append(F("B", "randints(%d) returned %d values" % (h["n"], len(xs)), "randints-length"))
                if h["a"] > h["b"]:
                    tags.append("randint:a>b")
                    continue        # [a,b] is empty: only the correspondence applies (theorem randint_reversed)
                if h["a"] == h["b"]:
                    tags.append("randint:a=b")
                for x in xs:
                    if not (h["a"] <= x <= h["b"]):
                        fails.append(F("B", "%s(%d,%d) returned %d" % (op, h["a"], h["b"], x), "randint-out-of-range"))
            elif op == "shuffle":
                if sorted(o["perm"], key=lambda x: (0, x) if isinstance(x, int) else (1, str(x))) != list(range(h["n"])):
                    fails.append(F("B", "shuffle(range(%d)) returned %s: not a permutation / input mutated" % (h["n"], o["perm"]), "shuffle-not-perm"))
            elif op in ("choice", "choicew"):
                w = h.get("w")
                i = o["idx"]
                if w is not None and any(unq(p) < 0 for p in w):
                    tags.append("choice:negative-weight")
                    continue        # negative weights are outside the contract: only the correspondence applies
                if w is not None:
                    if unq(w[i]) == 0:
                        fails.append(F("B", "%s returned member %d whose weight is 0 (weights %s, seeds %s)" % (op, i, w, json.dumps(case["seeds"])), "choice-zero-weight"))
                    if op == "choicew" and unq(o["w"]) != unq(w[i]):
                        fails.append(F("B", "choicew reported weight %s for member %d whose weight is %s" % (o["w"], i, w[i]), "choicew-wrong-weight"))
                elif op == "choicew" and unq(o["w"]) != unq(q(1 / h["n"])):
                    fails.append(F("B", "choicew without weights reported %s, expected 1/%d" % (o["w"], h["n"]), "choicew-wrong-weight"))
            elif op == "lpredict":
                i = o["idx"]
                if unq(o["pmf"][i]) == 0:
                    fails.append(F("B", "%s learner predicted member %d whose probability is 0 (pmf %s)" % (via, i, o["pmf"]), "choice-zero-weight"))
                if unq(o["w"]) != unq(o["pmf"][i]):
                    fails.append(F("B", "%s learner reported probability %s for member %d whose probability is %s" % (via, o["w"], i, o["pmf"][i]), "choicew-wrong-weight"))
            elif op == "choicew_batch":
                tags.append("batch:%d" % len(h["rows"]))
                if len(o["batch"]) != len(h["rows"]):
                    fails.append(F("B", "batched predict of %d rows returned %d actions" % (len(h["rows"]), len(o["batch"])), "batch-length"))
                for r, ob in zip(h["rows"], o["batch"]):
                    if unq(r["w"][ob["idx"]]) == 0:
                        fails.append(F("B", "batched predict returned member %d whose weight is 0 (weights %s)" % (ob["idx"], r["w"]), "choice-zero-weight"))
                    if unq(ob["w"]) != unq(r["w"][ob["idx"]]):
                        fails.append(F("B", "batched predict reported weight %s for member %d whose weight is %s" % (ob["w"], ob["idx"], r["w"][ob["idx"]]), "choicew-wrong-weight"))
            elif op in ("gauss", "gausses", "gaussiter"):
                if op != "gauss" and len(o["gaussv"]) != h["n"]:
                    fails.append(F("B", "gausses(%d) returned %d values" % (h["n"], len(o["gaussv"])), "gausses-length"))
                for v in o["gaussv"]:
                    if not (isinstance(v, float) and math.isfinite(v)):
                        fails.append(F("B", "gauss returned %r" % (v,), "gauss-not-finite"))
        # (B) purity: each instance alone (fresh objects, no noise) gives the same values
        for i in range(len(case["seeds"])):
            alone = {"seeds": [standalone_seed(case, i)], "hist": [dict(h, i=0) for h in hist if h.get("i") == i]}
            if len(case["seeds"]) == 1 and not any(h["op"] == "noise" for h in hist):
                break
            exp = run_history(alone)
            got = [o for h, o in zip(hist, impl) if h.get("i") == i]
            if json.dumps(exp, default=str) != json.dumps(got, default=str):
                fails.append(F("B", "instance %d (seed %s) produced different values when its calls were interleaved with other generators: alone %s, interleaved %s"
                               % (i, case["seeds"][i], json.dumps(exp, default=str)[:300], json.dumps(got, default=str)[:300]), "not-pure-interleaving"))
        # (B) a function of the SEED: the module-level functions and the callers (PMFPredictor, PMFInfoPredictor, SafeLearner --
        # however often re-wrapped) give what a CobaRandom created with that seed gives for the same calls; after seed(s) / a pickle
        # round trip the values are those of a brand-new CobaRandom of the (new / stored) seed
        for i, sd in enumerate(case["seeds"]):
            own = [(h, o) for h, o in zip(hist, impl) if h.get("i") == i]
            if any("skipped" in o for _, o in own):
                continue
            if sd.get("via") in LEARNER_KINDS:
                # one seed -> the same draws whatever the learner, its wrapping or the other generators: CobaRandom(seed) is fed the pmfs the learner used
                import coba.random as cr_
                refg = cr_.CobaRandom(mk_seed(sd))
                for k, (h, o) in enumerate(own):
                    if "pmf" not in o:
                        break
                    a, pw = refg.choicew(list(range(h["n"])), [tofloat(x) for x in o["pmf"]])
                    if a != o["idx"] or q(pw) != o["w"]:
                        fails.append(F("B", "instance %d (seed %s): call %d of the %s learner%s returned member %d with probability %s, CobaRandom(seed).choicew on the same pmf %s gives member %d with %s"
                                       % (i, json.dumps(sd), k, sd["via"], " wrapped in SafeLearner" if sd.get("wrap") is not None else "", o["idx"], o["w"], o["pmf"], a, q(pw)),
                                       "caller-not-seed-stream:" + sd["via"]))
                        break
                continue
            if sd.get("module") or sd.get("via"):
                ref = run_history({"seeds": [plain_seed(sd)], "hist": [dict(h, i=0) for h, _ in own]})
                got = [o for _, o in own]
                if json.dumps(ref, default=str) != json.dumps(got, default=str):
                    what = "the module-level functions (coba.random.seed(s); coba.random.f(...))" if sd.get("module") else \
                        {"pmf": "PMFPredictor(pmf,seed).predict", "pmfinfo": "PMFInfoPredictor(pmf,seed).predict", "fixed": "FixedLearner(pmf,seed).predict (bare or SafeLearner-wrapped)",
                         "safe-row": "SafeLearner(learner,seed).predict on a row-major batch", "safe-col": "SafeLearner(learner,seed).predict on a column-major batch"}.get(sd["via"], "SafeLearner(%slearner,seed).predict" % ("SafeLearner(..)-wrapped " if ("of" in sd or "inner" in sd) else ""))
                    k = next((j for j, (a, b) in enumerate(zip(ref, got)) if json.dumps(a, default=str) != json.dumps(b, default=str)), 0)
                    fails.append(F("B", "instance %d (seed %s): %s did not give the values CobaRandom(seed) gives for the same calls; call %d %s: CobaRandom %s, got %s"
                                   % (i, json.dumps(sd), what, k, json.dumps(own[k][0]), json.dumps(ref[k], default=str)[:160], json.dumps(got[k], default=str)[:160]),
                                   "module-differs-from-instance" if sd.get("module") else "caller-not-seed-stream:" + sd["via"] + ("-rewrap" if ("of" in sd or "inner" in sd) else "")))
            ev = [k for k, (h, _) in enumerate(own) if h["op"] in ("reseed", "pickle")]
            if ev and not sd.get("via"):
                eff = plain_seed(sd)
                for k in ev:
                    if own[k][0]["op"] == "reseed":
                        eff = plain_seed(own[k][0]["seed"])
                post = own[ev[-1] + 1:]
                ref = run_history({"seeds": [eff], "hist": [dict(h, i=0) for h, _ in post]})
                if json.dumps(ref, default=str) != json.dumps([o for _, o in post], default=str):
                    last = own[ev[-1]][0]["op"]
                    fails.append(F("B", "instance %d (seed %s%s): after %s the values are not those of a new CobaRandom(%s): expected %s, got %s"
                                   % (i, json.dumps(sd), " module-level" if sd.get("module") else "", "coba.random.seed(s)" if last == "reseed" else "a pickle round trip",
                                      json.dumps(eff), json.dumps(ref, default=str)[:200], json.dumps([o for _, o in post], default=str)[:200]),
                                   "reseed-not-fresh-stream" if last == "reseed" else "unpickled-not-seed-stream"))
        if len(case["seeds"]) > 1:
            tags.append("multi-instance")
        # (B) repeatability incl. another process
        again = run_history(case)
        if json.dumps(again, default=str) != json.dumps(impl, default=str):
            fails.append(F("B", "the same history gave different values on a second run in the same process", "not-repeatable"))
        if case.get("fork"):
            tags.append("fork")
            forked = run_history(case, fork=True)
            if json.dumps(forked, default=str) != json.dumps(json.loads(json.dumps(impl, default=str))):
                fails.append(F("B", "a child created by fork() after the generators were seeded produced different values: child %s, parent %s"
                               % (json.dumps(forked, default=str)[:300], json.dumps(impl, default=str)[:300]), "not-pure-fork"))
        if case.get("subprocess"):
            tags.append("subprocess")
            code = ("import sys,json; sys.path.insert(0,%r); sys.path.insert(0,%r); import warnings; warnings.filterwarnings('ignore');"
                    "from props.c05 import run_history; print(json.dumps(run_history(json.loads(sys.stdin.read())),default=str))"
                    % (os.environ.get("COBA_REPO", "/repo"), os.path.join(lean.VERIF, "harness")))
            p = subprocess.run([sys.executable, "-W", "ignore", "-c", code], input=json.dumps(case), capture_output=True, text=True, timeout=50)
            if p.returncode != 0 or p.stdout.strip() != json.dumps(impl, default=str):
                fails.append(F("B", "another process produced different values: %s %s" % (p.stdout[:200], p.stderr[-200:]), "not-pure-process"))
        # (A) correspondence with the Lean model
        model = None
        if driver is not None:
            mhist, midx = [], []
            for k, (h, o) in enumerate(zip(hist, impl)):
                if h["op"] == "noise" or "skipped" in o:
                    continue
                if h["op"] == "lpredict":
                    continue        # the pmf is the learner's own (floats, not dyadic): (B) only
                if h["op"] == "choicew_batch":
                    for r in h["rows"]:
                        mhist.append({"i": h["i"], "op": "choicew", "n": r["n"], "w": r["w"]})
                    midx.extend([k] * len(h["rows"]))
                    continue
                if h["op"] == "reseed":
                    mhist.append({"i": h["i"], "op": "reseed", "seed": seed_for_model(h["seed"])})
                    continue
                if h["op"] == "pickle":
                    mhist.append({"i": h["i"], "op": "pickle"})
                    continue
                mh = {kk: vv for kk, vv in h.items() if kk in ("i", "op", "lo", "hi", "n", "a", "b", "w")}
                mhist.append(mh)
                midx.extend([k] * (h["n"] if h["op"] == "gaussiter" else 1))     # the model runs n single gauss() calls
            ans = driver.ask({"seeds": [seed_for_model(s) for s in case["seeds"]], "hist": mhist})
            model = ans["model"]
            merged, order = {}, []
            if len(model) != len(midx):
                fails.append(F("A", "model produced %d outputs for %d value-returning calls" % (len(model), len(midx)), "A:count"))
            for (inst, mo), k in zip(model, midx):
                if hist[k]["op"] == "choicew_batch":
                    if k not in merged:
                        merged[k] = (inst, {"batch": []})
                        order.append(k)
                    merged[k][1]["batch"].append(mo)
                elif hist[k]["op"] == "gaussiter" and "gauss" in mo:
                    if k not in merged:
                        merged[k] = (inst, {"gauss": []})
                        order.append(k)
                    merged[k][1]["gauss"].extend(mo["gauss"])
                else:
                    merged[k] = (inst, mo)
                    order.append(k)
            for k in order:
                inst, mo = merged[k]
                h, o = hist[k], impl[k]
                d = self.compare(h, o, mo)
                if d:
                    fails.append(F("A", "call #%d %s: implementation %s, model %s (%s)" % (k, json.dumps(h), json.dumps(o, default=str)[:200], json.dumps(mo)[:200], d), "A:" + h["op"]))
            # (C) frame theorem, run-time sanity: model interleaved = model alone
            alone = ans["alone"]
            for i in range(len(case["seeds"])):
                proj = [mo for (inst, mo) in model if inst == i]
                if proj != alone[i]:
                    fails.append(F("C", "model: interleaved run of instance %d differs from running it alone" % i, "C:frame"))
        return {"fails": fails, "nontrivial": n_values >= 3, "tags": tags, "impl": finite_json(impl), "model": model}

    def evaluate_reservoir(self, case, driver):
        """Reservoir(count,seed) as a CALLER of CobaRandom(seed): (B) its sample is the one the seed's stream determines (Algorithm L fed
        with shuffle + consecutive uniforms of CobaRandom(seed), one public call at a time); (A) the same with the uniforms of the Lean
        model's `reservoirWalk` (proved = the consecutive triples of the model's stream, `reservoir_consumes_stream`)"""
        fails, c = [], case["reservoir"]
        o = run_reservoir(case)
        st = o["steps"]
        tags = ["via:reservoir", "reservoir:steps" + (">63" if st > 63 else ">42" if st > 42 else ">21" if st > 21 else ">0" if st else "=0")]
        if o["used"] > st + 1:       # the last triple ends the run (StopIteration); any further unused triple held a uniform 0.0
            tags.append("reservoir:zero-uniform-skipped")
        if o["list"] != o["iter"]:
            fails.append(F("B", "Reservoir(%d,seed=%s) over range(%d): list input and iterator input give different samples" % (c["count"], json.dumps(c["seed"]), c["n"]), "reservoir-input-kind"))
        if o["list"] != o["ref"]:
            k = next((j for j, (a, b) in enumerate(zip(o["list"], o["ref"])) if a != b), -1)
            fails.append(F("B", "Reservoir(count=%d,seed=%s).filter(range(%d)) (%d replacement steps) is not the sample the stream of CobaRandom(seed) determines "
                           "(shuffle of the first %d items, then three consecutive uniforms per step): slot %d holds %s, the stream gives %s"
                           % (c["count"], json.dumps(c["seed"]), c["n"], st, c["count"], k, o["list"][k] if 0 <= k < len(o["list"]) else None, o["ref"][k] if 0 <= k < len(o["ref"]) else None),
                           "caller-not-seed-stream:reservoir"))
        model = None
        if driver is not None:
            model = driver.ask({"reservoir": {"seed": seed_for_model(c["seed"]), "count": c["count"], "batches": o["used"] // 20 + 1}})
            trip = [(a / M, b / M, d / M) for a, b, d in model["triples"]]
            mref, msteps, mused = reservoir_reference(iter(trip), model["perm"], c["n"], c["count"])
            if mused >= len(trip) and msteps and len(o["list"]) == c["count"] and c["n"] > c["count"]:
                fails.append(F("A", "model walk too short (%d triples)" % len(trip), "A:reservoir-short"))
            elif mref != o["list"] or msteps != st:
                fails.append(F("A", "Reservoir(count=%d,seed=%s) over range(%d): implementation %s, Algorithm L on the model's walk %s"
                               % (c["count"], json.dumps(c["seed"]), c["n"], o["list"][:12], mref[:12]), "A:reservoir"))
            model = {"perm": model["perm"], "steps": msteps}
        return {"fails": fails, "nontrivial": st >= 1, "tags": tags, "impl": o, "model": model}

    def compare(self, h, o, mo):
        op = h["op"]
        if "err" in o or "err" in mo:
            if o.get("err") != mo.get("err"):
                return "exception differs"
            return None
        if op == "random":
            return self.cmp_rat(o["rat"], mo["rat"], h.get("exact", True))
        if op == "randoms":
            if len(o["rats"]) != len(mo["rats"]):
                return "length differs"
            for a, b in zip(o["rats"], mo["rats"]):
                d = self.cmp_rat(a, b, h.get("exact", True))
                if d:
                    return d
            return None
        if op in ("randint", "randints"):
            xs, ms = ([o["int"]], [mo["int"]]) if op == "randint" else (o["ints"], mo["ints"])
            if len(xs) != len(ms):
                return "length differs"
            # width*u is exact in double precision up to width 2^23 (u has 30 bits); beyond that the product is rounded before floor():
            # the model's exact floor may differ by the rounding of a (<= 2^84)-sized product, i.e. by 1 (+ width/2^52 for widths > 2^53)
            w = abs(h["b"] - h["a"]) + 1
            tol = 0 if w <= 2 ** 23 else max(1, w >> 51)
            return None if all(abs(x - m) <= tol for x, m in zip(xs, ms)) else "value differs"
        if op == "shuffle":
            return None if o["perm"] == mo["perm"] else "permutation differs"
        if op in ("choice", "choicew") and h.get("w") and not h.get("inexact") and sum(abs(unq(p)) for p in h["w"]) > 2 ** 23 \
                and any((sum(unq(p) for p in h["w"]) * k).denominator != 1 or (sum(unq(p) for p in h["w"]) * k) >= 2 ** 53 for k in (1, M - 1)):
            return None     # u*total is not exact in double precision (total > 2^23 and not a power of two): contract (B) only for this value
        if op == "choice":
            return None if o["idx"] == mo["idx"] else "index differs"
        if op == "choicew_batch":
            if len(o["batch"]) != len(mo["batch"]):
                return "batch length differs"
            for a, b in zip(o["batch"], mo["batch"]):
                if "err" in b or a["idx"] != b["idx"] or unq(a["w"]) != unq(b["w"]):
                    return "batch row differs"
            return None
        if op == "choicew":
            if o["idx"] != mo["idx"]:
                return "index differs"
            return None if unq(o["w"]) == unq(mo["w"]) or abs(unq(o["w"]) - unq(mo["w"])) <= Fraction(1, 10 ** 15) else "weight differs"
        if op in ("gauss", "gausses", "gaussiter"):
            ds = mo["gauss"]
            if len(ds) != len(o["gaussv"]):
                return "length differs"
            mu, sigma = h.get("mu", 0), h.get("sigma", 1)
            for v, (k1, k2, is_cos) in zip(o["gaussv"], ds):
                R = math.sqrt(-2 * math.log(k1 / M))
                S = 2 * math.pi * (k2 / M)
                e = mu + sigma * (R * math.cos(S) if is_cos else R * math.sin(S))
                if not (isinstance(v, float) and abs(v - e) <= 1e-12 * max(1.0, abs(e))):
                    return "gaussian value differs from Box-Muller of the model's uniforms (%r vs %r)" % (v, e)
            return None
        return "unknown op"

    def cmp_rat(self, a, b, exact):
        a, b = unq(a), unq(b)
        if a == b:
            return None
        if not exact and abs(a - b) <= Fraction(1, 10 ** 12) * max(1, abs(b)):
            return None
        return "value differs (impl %s, model %s)" % (a, b)

    def shrink(self, case):
        if "cycle" in case or "reservoir" in case:
            return
        if "filters" in case:
            hist = case["filters"]["hist"]
            for k in range(len(hist) - 1, -1, -1):      # drop an entry nobody refers to later
                opens = sum(1 for h in hist[:k] if "o" in h)
                if "o" in hist[k] and any(h.get("resume", h.get("close", -1)) >= opens for h in hist[k + 1:]):
                    continue
                yield {"filters": dict(case["filters"], hist=hist[:k] + hist[k + 1:])}
            return
        hist = case["hist"]
        for k in range(len(hist)):
            c = dict(case, hist=hist[:k] + hist[k + 1:])
            c.pop("subprocess", None)
            yield c
        if len(case["seeds"]) > 1:
            for i in range(len(case["seeds"])):
                used = [h for h in hist if h.get("i") == i]
                if not used and not any(x.get("of") == i for x in case["seeds"]):
                    seeds = [dict(x, of=x["of"] - 1) if x.get("of", -1) > i else x for x in case["seeds"][:i] + case["seeds"][i + 1:]]
                    nh = [dict(h, i=h["i"] - 1) if h.get("i", -1) > i else h for h in hist]
                    yield dict(case, seeds=seeds, hist=nh)
        for k, h in enumerate(hist):
            if h.get("n", 0) > 1 and h["op"] in ("randoms", "randints", "gausses", "gaussiter"):
                yield dict(case, hist=hist[:k] + [dict(h, n=h["n"] - 1)] + hist[k + 1:])

    def snippet(self, case):
        if "cycle" in case:
            return ("import sys; sys.path[:0]=['/repo']\nfrom coba.random import CobaRandom\nr=CobaRandom(%d); a=[r.random() for _ in range(4)]\n"
                    "left=%d-4\nwhile left>0:\n    n=min(left,1<<20); r.randoms(n); left-=n\nb=[r.random() for _ in range(4)]\nprint(a==b, a, b)  # True: the stream repeats after %d draws\n"
                    % (case["cycle"]["seed"], case["cycle"]["steps"], case["cycle"]["steps"]))
        if "filters" in case:
            return ("import sys; sys.path[:0]=['/repo','/verif/harness']\nfrom props.c05 import run_filters, filter_reference\nimport json\n"
                    "case = json.loads(%r)\nprint(run_filters(case))  # every generator's pieces, joined, must be a prefix of:\n"
                    "print([filter_reference(case['filters']['objs'][h['o']], h['n'])[0] for h in case['filters']['hist'] if 'o' in h])\n" % json.dumps(case))
        if "reservoir" in case:
            return ("import sys; sys.path[:0]=['/repo','/verif/harness']\nfrom props.c05 import run_reservoir\nimport json\n"
                    "o = run_reservoir(json.loads(%r))\nprint(o['list'] == o['ref'], o['steps'], o['list'], o['ref'])  # False: not the sample the seed's stream determines\n" % json.dumps(case))
        return ("import sys; sys.path[:0]=['/repo','/verif/harness']\nfrom props.c05 import run_history\nimport json\n"
                "case = json.loads(%r)\nprint(run_history(case))\n" % json.dumps(case))


PROPERTY = C05()
