"""Instrumented environment / learner / evaluator objects for the C07 harness.

They live in an importable module (not __main__) so that coba's pickling checks and deepcopy see
ordinary classes.  All behaviour is a pure function of the data handed to the constructors."""
import copy


def dec(v):
    """decode the JSON-able tagged value encoding used in C07 cases into a Python value"""
    if v is None or isinstance(v, bool):
        return v
    t = v[0]
    if t == "i":
        return int(v[1])
    if t == "f":
        return float(v[1])
    if t == "s":
        return v[1]
    if t == "l":
        return [dec(x) for x in v[1]]
    if t == "t":
        return tuple(dec(x) for x in v[1])
    if t == "d":
        return {dec(k): dec(x) for k, x in v[1]}
    if t == "r":
        from coba.primitives import L1Reward, BinaryReward, HammingReward, DiscreteReward
        cls = {"L1": L1Reward, "BR": BinaryReward, "HR": HammingReward, "DR": DiscreteReward}[v[1]]
        return cls(*[dec(a) for a in v[2]])
    raise ValueError("bad tagged value %r" % (v,))


class Env:
    """environment-like: only `params` and `read` are ever used by the experiment machinery"""

    def __init__(self, tag, params):
        self.tag = tag
        self._params = params
        self.poison_params = False

    @property
    def params(self):
        # poison_params: a tuple key, which json cannot write as an object key (the run stops at this component's record)
        return copy.deepcopy(self._params) if not getattr(self, "poison_params", False) else {**copy.deepcopy(self._params), (1, 2): 3}

    def read(self):
        return iter(())


class EnvNoParams:
    def __init__(self, tag):
        self.tag = tag

    def read(self):
        return iter(())


class Lrn:
    def __init__(self, tag, params):
        self.tag = tag
        self._params = params
        self.poison_params = False

    @property
    def params(self):
        return copy.deepcopy(self._params) if not getattr(self, "poison_params", False) else {**copy.deepcopy(self._params), (1, 2): 3}

    def predict(self, context, actions):  # never called by our evaluators
        return [1] + [0] * (len(actions) - 1)

    def learn(self, *args, **kwargs):
        pass


class LrnNoParams:
    def __init__(self, tag):
        self.tag = tag

    def predict(self, context, actions):
        return [1] + [0] * (len(actions) - 1)

    def learn(self, *args, **kwargs):
        pass


class _Unwritable:
    """a value neither json nor coba's registry can write"""


def _interrupted(rows):
    for r in rows:
        yield r
    raise KeyboardInterrupt()


class Evl:
    """evaluator whose output rows are looked up in `table[(env.tag, lrn.tag)]`.

    `skip` is a set of (env.tag,lrn.tag) on which evaluate raises (the triple is then not completed:
    coba logs the exception and records nothing).  `lazy` yields the rows from a generator, otherwise a
    list is returned.  `calls` records every call."""

    def __init__(self, tag, params, table, lazy=True):
        self.tag = tag
        self._params = params
        self.table = table
        self.lazy = lazy
        self.skip = set()
        self.poison = {}
        self.calls = []

    @property
    def params(self):
        return copy.deepcopy(self._params) if not getattr(self, "poison_params", False) else {**copy.deepcopy(self._params), (1, 2): 3}

    def _rows(self, key):
        return [copy.deepcopy(r) for r in self.table.get(key, [])]

    def evaluate(self, env, lrn):
        key = (env.tag, lrn.tag)
        self.calls.append(key)
        if key in self.skip:
            raise RuntimeError("planned evaluator failure on %r" % (key,))
        rows = self._rows(key)
        poison = getattr(self, "poison", None) or {}
        if key in poison:
            # the evaluation of this triple makes the whole run stop: a cell the encoder cannot write (set / plain object) or Ctrl-C
            kind, ri = poison[key]
            if kind == "interrupt":
                if not self.lazy:
                    raise KeyboardInterrupt()
                return _interrupted(rows[:ri])
            bad = {1, 2} if kind == "set" else ({"k": {(1, 2): 3}} if kind == "tuplekey" else _Unwritable())
            if rows:
                rows[ri % len(rows)]["bad"] = bad
            else:
                rows = [{"bad": bad}]
        if self.lazy:
            return (r for r in rows)
        return rows


class EvlNoParams(Evl):
    def __init__(self, tag, table, lazy=True):
        Evl.__init__(self, tag, None, table, lazy)

    @property
    def params(self):
        raise AttributeError("params")


# ---- components that inherit coba's base classes and do NOT define params at all (several classes per kind:
#      what coba records for them must come from each object alone, never from another class' or an earlier experiment's)
def _base_classes():
    from coba.primitives import Learner, Environment, Evaluator
    out = {}
    for letter in "ABC":
        def read(self):
            return iter(())

        def __init__(self, tag):
            self.tag = tag
        out["env" + letter] = type("BaseEnv" + letter, (Environment,), {"read": read, "__init__": __init__, "__module__": __name__})

        def predict(self, context, actions):
            return [1] + [0] * (len(actions) - 1)

        def learn(self, *args, **kwargs):
            pass
        out["lrn" + letter] = type("BaseLrn" + letter, (Learner,), {"predict": predict, "learn": learn, "__init__": __init__, "__module__": __name__})

        def e_init(self, tag, table, lazy=True):
            self.tag, self.table, self.lazy, self.skip, self.calls = tag, table, lazy, set(), []
        out["val" + letter] = type("BaseEvl" + letter, (Evaluator,), {"__init__": e_init, "evaluate": Evl.evaluate, "_rows": Evl._rows, "__module__": __name__})
    return out


_BASE = None


def base_class(kind, letter):
    """BaseEnvA/B/C, BaseLrnA/B/C, BaseEvlA/B/C: subclasses of coba.primitives.Environment/Learner/Evaluator without a params of their own"""
    global _BASE
    if _BASE is None:
        _BASE = _base_classes()
        globals().update({c.__name__: c for c in _BASE.values()})     # importable by name (deepcopy / pickle)
    return _BASE[kind + letter]
