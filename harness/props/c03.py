"""C03 Each evaluation is isolated from every other evaluation.

Shares the model, the driver request format, the toy components, the permuting simulator and the
case format with C01 (props/c01.py).

(B) on every case, directly on what the real code returned:
    * the rows of each listed triple in the multi-triple Result == the rows of the same triple when an
      experiment lists it alone (fresh construction, in-process) — hence they do not depend on the other
      triples, their order, or the configuration; every non-failing triple is present;
    * a triple whose evaluation raises has no rows and its exception is in the log;
    * the caller's learner objects that are listed in more than one triple are untouched after run().
(A) the Result, the number of logged exceptions and the learner objects after the run equal what the
    Lean model `Coba.C01.run` predicts.  (C) model = spec (`run_eq_spec`).
"""
import collections
import json
import pickle
import re
import time

from core.engine import Property, F
from core.prng import Rng
from props import c01
from props.c01 import (build, run_once, run_iso, RunTimeout, observe, model_view, markers, gen_toy, gen_builtin, shrink_case, gen_cfg,
                       cached_failing_envs, logged_shuffled_envs, cache_bug_present, logged_envs, has_info_learner, strip_info,
                       compare_with_model, is_leaky)


def ids_of(triples):
    """first-appearance ids, as the property statement defines them (a 2-tuple gets its own default evaluator)"""
    es, ls, vs = {}, {}, {}
    out = []
    for i, (e, l, v) in enumerate(triples):
        vk = ("v", v) if v >= 0 else ("default", i)
        es.setdefault(e, len(es))
        ls.setdefault(l, len(ls))
        vs.setdefault(vk, len(vs))
        out.append((es[e], ls[l], vs[vk]))
    return out


def rows_at(res, key):
    for k, rows in res["ints"]:
        if tuple(k) == tuple(key):
            return rows
    return []


REJECT = re.compile(r"SequentialCB\([^)]*\) requires ")


def t4_markers(log):
    """the exceptions of evaluation tasks a log reports: toy markers (keyed by triple) and — phase 4 — the CobaException with
    which the built-in SequentialCB rejects an environment (the set in its message prints in hash order: only counted)"""
    return ([m for m in markers(log) if not m.endswith(":params") and not m.endswith(":finish")]
            + ["REJECTED-BY-SequentialCB"] * sum(bool(REJECT.search(l)) for l in log))


EVAL_EXC = re.compile(r"Evaluating Learner (\d+) on Environment (\d+)\.\.\. \([^)]*\) \(exception\)")


def failed_pairs(log):
    """phase 4, the log at key level: the (environment_id, learner_id) pairs whose evaluation the log reports as failed
    (`Evaluating Learner l on Environment e... (t seconds) (exception)`, written by ProcessTasks around every evaluation;
    absent with quiet=True)"""
    return collections.Counter((int(m.group(2)), int(m.group(1))) for m in (EVAL_EXC.search(l) for l in log) if m)


def alone_case(case, triple):
    c = {k: v for k, v in case.items() if k not in ("pe", "pl", "pv", "single_eval", "rerun", "perm")}
    c["mode"] = "tuples"
    c["triples"] = [list(triple)]
    return c


def permuted_case(case, seed):
    rng = Rng(seed, "perm")
    c = dict(case)
    if case["mode"] == "tuples":
        c["triples"] = rng.shuffle(case["triples"])
    else:
        c["pe"], c["pl"], c["pv"] = rng.shuffle(case["pe"]), rng.shuffle(case["pl"]), rng.shuffle(case["pv"])
    return c


class C03(Property):
    id = "C03"
    prop_modules = ["CobaVerif.Props.C03"]
    quick_n = 400
    thorough_n = 10000
    search_n = 500
    case_timeout = 900       # engine alarm per case; the runs have their own timeouts (c01.TIMEOUT_REAL / TIMEOUT_OTHER, one retry)
    workers = 8
    rule = ("an experiment recipe as for C01 (toy or built-in components, shared objects in random patterns, duplicated triples, raising variants at "
            "params / predict / learn / read / evaluate) run under 1-3 configurations (mostly in-process, where objects are really shared; simulator; "
            "few real workers) and optionally with the triple list permuted; every listed triple is additionally run alone; non-trivial = at least two "
            "triples listed and at least one interaction row recorded; runs draw quiet=True (35 %) and the logger kind (25 % IndentLogger); 8 % of the cases are of the "
            "seq kind (built-in SequentialCB, rows predicted by the model); the log is checked by exception marker and, for non-quiet runs, by (environment_id, learner_id)")
    trusted_base = c01.C01.trusted_base
    assumptions = c01.C01.assumptions
    partial_theorems = {}

    def generate(self, rng, tier):
        real_p = 0.014 if tier == "quick" else 0.008
        if rng.chance(0.68):
            if rng.chance(0.12):
                case = c01.gen_seq(rng, tier, real_p)        # phase 4: built-in SequentialCB, rows predicted by the model
            else:
                case = gen_toy(rng, tier, real_p, fail_bias=1.6, share_bias=1.6)
        else:
            case = gen_builtin(rng, tier, real_p)
        case.pop("rerun", None)
        for r in case["runs"]:
            r.pop("resume", None)           # resumed runs are checked by C01 (and C02)
        # C03 looks at each run on its own; keep the in-process run (objects really shared) and at most two others
        case["runs"] = case["runs"][:1 + rng.choice([0, 1, 1, 2])]
        if rng.chance(0.3):
            case["runs"][0] = {"cfg": [1, 0, rng.choice([1, 2, 3])], "how": "inproc", "sched": 0}
        if rng.chance(0.3):
            case["perm"] = rng.randint(1, 10 ** 6)
        return c01.add_run_opts(rng, case, 0.35, 0.25)

    def search(self, rng, tier):
        case = gen_toy(rng, tier, 0.0, fail_bias=2.5, share_bias=2.5)
        case.pop("rerun", None)
        for r in case["runs"]:
            r.pop("resume", None)
        case["runs"] = case["runs"][:2]
        if rng.chance(0.5):
            case["perm"] = rng.randint(1, 10 ** 6)
        return c01.add_run_opts(rng, case, 0.5, 0.25)

    def corpus(self):
        cs = []
        # one learner object for two environments and two evaluators, in place only when listed once
        cs.append({"kind": "toy", "seed": 3, "envs": [{"tag": 0, "xs": [1, 2, 3], "raw": True}, {"tag": 1, "xs": [4, 5], "raw": True}],
                   "lrns": [{"tag": 0, "mult": 2}, {"tag": 1, "mult": 1}], "vals": [{"tag": 0, "seed": None, "learn": True}, {"tag": 1, "seed": 5, "learn": True}],
                   "mode": "tuples", "triples": [[0, 0, 0], [1, 0, 0], [0, 0, 1], [1, 1, 1]],
                   "runs": [{"cfg": [1, 0, 0], "how": "inproc", "sched": 0}, {"cfg": [2, 0, 2], "how": "sim", "sched": 4}], "perm": 5})
        # every kind of failure in one experiment
        cs.append({"kind": "toy", "seed": 1,
                   "envs": [{"tag": 0, "xs": [1, 2, 3], "raw": True}, {"tag": 1, "xs": [4, 5, 6], "raw": True, "fail_at": 2}, {"tag": 2, "xs": [7], "raw": True, "params_fail": True}],
                   "lrns": [{"tag": 0, "mult": 1}, {"tag": 1, "mult": 1, "fp": 1}, {"tag": 2, "mult": 1, "fl": 0}, {"tag": 3, "mult": 1, "params_fail": True}],
                   "vals": [{"tag": 0, "seed": None, "learn": True}, {"tag": 1, "seed": None, "learn": True, "fail_at": 1}, {"tag": 2, "seed": 2, "learn": False, "params_fail": True}],
                   "mode": "product", "pe": [0, 1, 2], "pl": [0, 1, 2, 3], "pv": [0, 1, 2],
                   "runs": [{"cfg": [1, 0, 0], "how": "inproc", "sched": 0}, {"cfg": [3, 1, 1], "how": "sim", "sched": 8}, {"cfg": [2, 0, 0], "how": "real", "sched": 0}]})
        # round g: the failure of a triple is reported in the log under EVERY execution parameter of run(): quiet=True
        # (only the progress messages are switched off) and whichever logger the caller installed; in-process, simulated
        # and really spawned workers.  Every failure position (env read / params, learner predict / learn / params,
        # evaluator / params) is present.
        allfail = cs[-1]
        cs.append(dict(allfail, seed=4, runs=[
            {"cfg": [1, 0, 0], "how": "inproc", "sched": 0, "quiet": True},
            {"cfg": [1, 0, 2], "how": "inproc", "sched": 0, "quiet": True, "logger": "indent"},
            {"cfg": [2, 1, 1], "how": "sim", "sched": 11, "quiet": True},
            {"cfg": [2, 0, 0], "how": "real", "sched": 0, "quiet": True},
            {"cfg": [1, 0, 0], "how": "inproc", "sched": 0, "logger": "indent"}]))
        cs.append({"kind": "toy", "seed": 2, "envs": [{"tag": 0, "xs": [1, 2, 3, 4], "raw": True}],
                   "lrns": [{"tag": 0, "mult": 1, "fp": 0}, {"tag": 1, "mult": 2}], "vals": [{"tag": 0, "seed": None, "learn": True}],
                   "mode": "product", "pe": [0], "pl": [0, 1], "pv": [0],
                   "runs": [{"cfg": [1, 0, 0], "how": "inproc", "sched": 0, "quiet": True}, {"cfg": [3, 0, 0], "how": "sim", "sched": 2, "quiet": True, "logger": "indent"}]})
        cs.append({"kind": "builtin", "seed": 1, "envs": [{"src": "linear", "n": 12, "na": 3, "seed": 2, "prefix": [], "branches": [[]]}],
                   "lrns": [{"type": "info", "tag": 0, "where": ["predict"], "fail_learn_at": 1}, {"type": "random", "seed": 2}],
                   "vals": [{"type": "seq", "record": ["reward", "action", "probability"], "seed": None}],
                   "mode": "product", "pe": [0], "pl": [0, 1], "pv": [0],
                   "runs": [{"cfg": [1, 0, 0], "how": "inproc", "sched": 0, "quiet": True}, {"cfg": [2, 0, 0], "how": "sim", "sched": 3, "quiet": True}]})
        cs += c01.seq_directed_cases()
        cs += c01.seq_directed_cases5()[1::2]      # (the two tuple-list cases; the cross products cost too many alone-runs) phase 5: PMF / info learners, chunk()/cache() pipelines, batched sources (orientation probe)
        cs += c01.seq_directed_cases6()[1:]        # phase 6: RejectionCB objects inside the model-predicted experiment (tuple list; 103-interaction source, peek of 100)
        # shared chunk()/cache() prefix, all triples of the group in one address space
        cs.append({"kind": "toy", "seed": 2, "envs": [{"tag": 0, "xs": [3, 1, 4, 1, 5], "prefix": [["chunk"]], "branches": [[["shuffle", 3]]]}],
                   "lrns": [{"tag": 0, "mult": 1}, {"tag": 1, "mult": 3}], "vals": [{"tag": 0, "seed": None, "learn": True}],
                   "mode": "product", "pe": [0, 1, 2], "pl": [0, 1], "pv": [0], "single_eval": True,
                   "runs": [{"cfg": [1, 0, 0], "how": "inproc", "sched": 0}, {"cfg": [2, 0, 0], "how": "sim", "sched": 1}, {"cfg": [2, 2, 4], "how": "sim", "sched": 2}]})
        cs.append(c01.cache_defect_case())
        for c in c01.directed_cases():          # process-global state between evaluations (follow-up round)
            c = {k: v for k, v in c.items() if k != "rerun"}
            c["runs"] = [r if r["how"] != "real" else dict(r, how="sim") for r in c["runs"]]
            cs.append(c)
        # fixed finding F2 (e4fe683): a single triple over a logged, shuffled environment on a worker vs. alone in-process
        cs.append({"envs": [{"branches": [[["shuffle", 2]]], "log_seed": 3, "logged": True, "n": 12, "na": 2, "prefix": [], "seed": 1, "src": "linear"}], "kind": "builtin", "lrns": [{"tag": 0, "type": "pmf"}, {"seed": 4, "type": "random"}, {"eps": 0.05, "seed": 4, "type": "eps"}], "mode": "product", "pe": [1], "pl": [2], "pv": [1], "runs": [{"cfg": [2, 2, 3], "how": "sim", "sched": 921037}], "seed": 1, "vals": [{"eval": "on", "learn": "on", "record": ["reward", "action", "probability"], "seed": None, "type": "seq"}, {"eval": "on", "learn": "on", "record": ["reward", "action", "context", "time"], "seed": None, "type": "seq"}]})
        # built-in stateful learners shared between environments
        cs.append({"kind": "builtin", "seed": 1, "envs": [{"src": "linear", "n": 12, "na": 3, "seed": 2, "prefix": [], "branches": [[["shuffle", 2]]]}],
                   "lrns": [{"type": "eps", "eps": 0.1, "seed": 1}, {"type": "ucb", "seed": 2}, {"type": "pmf", "tag": 1}],
                   "vals": [{"type": "seq", "record": ["reward", "action", "probability"], "seed": None}],
                   "mode": "product", "pe": [0, 1], "pl": [0, 1, 2], "pv": [0],
                   "runs": [{"cfg": [1, 0, 0], "how": "inproc", "sched": 0}, {"cfg": [2, 0, 0], "how": "sim", "sched": 3}]})
        return cs

    def exhaustive(self, tier):
        for c in c01.small_scope_cases():
            c = dict(c, runs=[c["runs"][0], c["runs"][3]])
            yield c

    # ---- evaluation
    def evaluate(self, case, driver):
        fails, tags = [], []
        del c01.RETRIED[:]
        kind = case["kind"]
        tags += ["kind:" + kind, "mode:" + case["mode"]] + c01.feature_tags(case)
        for r in case["envs"]:
            for op in r.get("prefix", []) + [o for br in r.get("branches", [[]]) for o in br]:
                if op[0] == "batch":
                    tags.append("op:batch")
        variants = [("listed", case)]
        if case.get("perm"):
            variants.append(("permuted", permuted_case(case, case["perm"])))
            tags.append("permuted")
        bad_envs = cached_failing_envs(case) if cache_bug_present() else set()
        known_defect = False
        alone_cache = {}
        alone_failed = {}
        nrows = 0
        ntriples = 0
        model = None
        obs = None
        t_end = time.time() + c01.CASE_BUDGET
        timed_out = False
        nocopy = {i for i, r in enumerate(case["lrns"]) if r.get("type") == "nocopy" or r.get("nocopy")}
        leaky = is_leaky(case)          # a toy evaluator that is not process-local clean: only the model's prediction is checked
        if leaky:
            tags.append("not-process-local-clean(A only)")
        for vname, vcase in variants:
            if timed_out:
                break
            for run in vcase["runs"][:c01.MAX_RUNS]:
                if time.time() > t_end:
                    tags.append("truncated:case-budget")     # the remaining runs of this case are not started
                    timed_out = True
                    break
                try:
                    o = run_iso(vcase, run["cfg"], run["how"], run["sched"], run.get("pre"), None, c01.run_opts(run))
                except RunTimeout as e:
                    fails.append(F("T", "%s triple list, cfg %s (%s): %s" % (vname, run["cfg"], run["how"], e), "timeout"))
                    tags.append("timeout")
                    timed_out = True
                    break
                if run.get("pre"):
                    tags.append("session:pre-run-" + run["pre"]["how"])
                multi = run["cfg"][0] > 1 or run["cfg"][1] != 0
                want_markers_hint = bool(t4_markers(o["log"]))
                tags.append("how:" + run["how"])
                tags += ["run:" + k + ("+failing-triple" if want_markers_hint else "") for k in ("quiet", "logger") if run.get(k)]
                tags.append("cfg:%s%s" % ("multi" if multi else "inproc", ",mt>0" if run["cfg"][2] else ""))
                triples = [tuple(t) for t in o["triples"]]
                ids = ids_of(triples)
                ntriples = max(ntriples, len(set(triples)))
                count_l = collections.Counter(l for _, l, _ in triples)
                want_markers = collections.Counter()
                want_pairs = collections.Counter()
                want_copy_errors = 0
                seen = set()
                for t, key in zip(triples, ids):
                    if t[1] in nocopy and count_l[t[1]] > 1:
                        # no pristine copy of this learner can be made: the statement then demands that the exception is
                        # reported and that exactly this triple has no rows
                        alone_cache[t] = ([], [])
                        want_copy_errors += 1
                    if t not in alone_cache:
                        try:
                            a = run_iso(alone_case(vcase, t), [1, 0, 0], "inproc", 0)
                        except RunTimeout as e:
                            fails.append(F("T", "alone run of %s: %s" % (list(t), e), "timeout"))
                            timed_out = True
                            break
                        alone_cache[t] = (rows_at(a["result"], (0, 0, 0)), t4_markers(a["log"]))
                        alone_failed[t] = bool(failed_pairs(a["log"]))
                    arows, amarks = alone_cache[t]
                    want_markers.update(amarks)
                    if alone_failed.get(t):
                        want_pairs[(key[0], key[1])] += 1
                    if t in seen:
                        continue
                    seen.add(t)
                    got = rows_at(o["result"], key)
                    nrows += len(got)
                    if json.dumps(got, sort_keys=True) != json.dumps(arows, sort_keys=True):
                        sig = "isolation:rows-differ"
                        if t[0] in bad_envs:
                            sig += ":cache-after-failed-read"
                            known_defect = True
                        elif (has_info_learner(case) and t[0] in logged_envs(case)
                              and json.dumps(strip_info(got), sort_keys=True) == json.dumps(strip_info(arows), sort_keys=True)):
                            # finding F3: a `logged` environment absorbs learning_info left behind by an earlier evaluation
                            sig += ":logged-env-learning-info"
                        what = ("missing" if arows and not got else "present although the evaluation alone records none" if got and not arows else "different")
                        fails.append(F("B", "%s triple list, cfg %s (%s): rows of triple (env %d, learner %d, evaluator %d) ids %s are %s: in the experiment %s, alone %s" % (
                            vname, run["cfg"], run["how"], t[0], t[1], t[2], list(key), what, json.dumps(got)[:300], json.dumps(arows)[:300]), sig))
                # a raising triple is reported in the log
                got_markers = collections.Counter(t4_markers(o["log"]))
                missing = want_markers - got_markers
                unknown_cache = cache_bug_present() and cached_failing_envs(case)
                if missing and not unknown_cache:
                    fails.append(F("B", "%s triple list, cfg %s (%s): exceptions %s of failing triples are not reported in the log" % (
                        vname, run["cfg"], run["how"], dict(missing)), "isolation:exception-not-logged"))
                # … for exactly the failing triples (key level): the evaluations the log reports as failed are, with multiplicity,
                # the (environment_id, learner_id) of the listed triples whose alone run fails — no other evaluation is reported
                # as failed, none of the failing ones is missing
                if not run.get("quiet") and not timed_out and not unknown_cache:
                    # an error raised by a learner's finish() hook is written inside the same timing block although the rows were
                    # recorded (it is not a failure of the evaluation): learners with such a hook are left out on both sides
                    hook_ids = {key[1] for t, key in zip(triples, ids) if vcase["lrns"][t[1] % len(vcase["lrns"])].get("finish") in ("raise", "lazy")}
                    got_pairs = collections.Counter({k: v for k, v in failed_pairs(o["log"]).items() if k[1] not in hook_ids})
                    want_pairs = collections.Counter({k: v for k, v in want_pairs.items() if k[1] not in hook_ids})
                    if got_pairs != want_pairs:
                        fails.append(F("B", "%s triple list, cfg %s (%s): the log reports failed evaluations for (environment_id, learner_id) %s, the triples that "
                                            "fail when evaluated alone are %s" % (vname, run["cfg"], run["how"], sorted(got_pairs.elements()), sorted(want_pairs.elements())),
                                       "isolation:failure-logged-for-wrong-triple"))
                    if want_pairs:
                        tags.append("log-checked-by-key")
                n_copy_errors = sum("cannot pickle" in l for l in o["log"])
                if n_copy_errors < want_copy_errors:
                    fails.append(F("B", "%s triple list, cfg %s (%s): %d triples list a learner that cannot be copied, only %d copy errors are reported in the log" % (
                        vname, run["cfg"], run["how"], want_copy_errors, n_copy_errors), "isolation:exception-not-logged"))
                if want_copy_errors:
                    tags.append("uncopyable-shared-learner")
                if want_markers:
                    tags.append("with-failing-triple")
                # the caller's shared learner objects are untouched
                for li, modified in enumerate(o["lrn_modified"]):
                    if count_l[li] > 1 and modified:
                        fails.append(F("B", "%s triple list, cfg %s (%s): learner object %d is listed in %d triples and was modified by run()" % (
                            vname, run["cfg"], run["how"], li, count_l[li]), "isolation:user-learner-modified"))
                if any(v > 1 for v in count_l.values()):
                    tags.append("shared-learner")
                if len(set(triples)) < len(triples):
                    tags.append("duplicate-triple")
                # (A) + (C)
                if driver is not None and kind == "toy" and not known_defect and not (cache_bug_present() and cached_failing_envs(case)):
                    if not (leaky and (run["how"] == "real" or (run.get("pre") or {}).get("how") == "real")):
                        fs, ans = compare_with_model(driver, vcase, observe(vcase), run, o, vname + " triple list, ")
                        fails += fs
                        model = ans["model"]
                if driver is not None and kind == "seq":
                    fs, ans = c01.compare_seq(driver, vcase, c01.observe_seq(vcase), run, o, vname + " triple list, ")
                    fails += fs
                    model = {"ints": len(ans["model"]["ints"])}
                    tags.append("seq:model-predicted")
                if leaky:
                    fails[:] = [f for f in fails if f["kind"] != "B"]
        if cache_bug_present() and cached_failing_envs(case):
            tags.append("skipA:cache-bug")
        tags += c01.RETRIED      # `real:timeout-retried` / `run:timeout-retried`: a run timed out once and was repeated (c01.run_iso)
        return {"fails": fails, "nontrivial": ntriples >= 2 and nrows > 0, "tags": tags, "impl": {"triples": ntriples, "rows": nrows}, "model": model}

    def shrink(self, case):
        for c in shrink_case(case):
            yield c
        if case.get("perm"):
            yield {k: v for k, v in case.items() if k != "perm"}
        runs = case["runs"]
        if len(runs) > 1:
            yield dict(case, runs=runs[1:])

    def snippet(self, case):
        return ("import sys, json; sys.path[:0] = ['/repo', '/verif/harness']\n"
                "from props.c01 import run_iso\nfrom props.c03 import alone_case, rows_at, ids_of\n"
                "case = json.loads(%r)\n"
                "if __name__ == '__main__':\n"
                "    for run in case['runs']:\n"
                "        out = run_iso(case, run['cfg'], run['how'], run['sched'])      # each run in a forked child of this process\n"
                "        triples = [tuple(t) for t in out['triples']]\n"
                "        for t, key in zip(triples, ids_of(triples)):\n"
                "            alone = run_iso(alone_case(case, t), [1, 0, 0])\n"
                "            print(run['cfg'], 'triple', t, 'ids', key, 'in experiment:', rows_at(out['result'], key), 'alone:', rows_at(alone['result'], (0, 0, 0)))\n"
                "        print('   exceptions logged:', [l for l in out['log'] if 'TOYFAIL' in l][:5])\n" % json.dumps(case))


PROPERTY = C03()
