"""Toy experiment components for the C01 / C03 checks.

They live in an importable module so that spawned worker processes can unpickle them.  Their
behaviour is mirrored exactly by `Coba.C01.Driver` (lean/CobaVerif/Driver/C01.lean):

* ToyLearner : state (n, acc).  predict(x) = x*mult + 7*acc + n; learn(x): n += 1, acc += x.
               A learner that is not pristine when an evaluation starts taints every output.
* ToyEnv     : yields the contexts `xs` in order; raises at position `fail_at`.
* ToyEval    : row = {x, p, n, seed}; seed = own seed or the experiment seed from CobaContext.store.
"""
from coba.context import CobaContext


class ToyFail(Exception):
    pass


def _env_key(environment):
    """tag (and shuffle seed) of a toy environment or of the pipeline built on it"""
    try:
        p = dict(environment.params)
        return "%s-%s" % (p.get("tag"), p.get("shuffle_seed", "")) if "shuffle_seed" in p else str(p.get("tag"))
    except Exception:
        return str(getattr(environment, "tag", "x"))


class ToyEnv:
    def __init__(self, tag, xs, fail_at=None, params_fail=False):
        self.tag, self.xs, self.fail_at, self.params_fail = tag, list(xs), fail_at, params_fail

    @property
    def params(self):
        if self.params_fail:
            raise ToyFail("TOYFAIL:env%d:params" % self.tag)
        return {"tag": self.tag}

    def read(self):
        for i, x in enumerate(self.xs):
            if i == self.fail_at:
                raise ToyFail("TOYFAIL:env%d:read" % self.tag)
            yield {"context": x, "actions": [0, 1], "rewards": [0, 1]}


class ToyLearner:
    def __init__(self, tag, mult=1, fp=None, fl=None, params_fail=False, info=False, nocopy=False):
        self.tag, self.mult, self.fp, self.fl, self.params_fail = tag, mult, fp, fl, params_fail
        self.info = info            # predict reports 100*tag+n through the process-global CobaContext.learning_info
        self.n = 0
        self.acc = 0
        if nocopy:
            self._schedule = (k for k in range(3))     # a generator: the object can be used but not deep-copied / pickled

    @property
    def params(self):
        if self.params_fail:
            raise ToyFail("TOYFAIL:lrn%d:params" % self.tag)
        return {"tag": self.tag, "mult": self.mult}

    def predict(self, context, actions):
        if self.fp is not None and self.n == self.fp:
            raise ToyFail("TOYFAIL:lrn%d:predict" % self.tag)
        if self.info:
            CobaContext.learning_info["li"] = 100 * self.tag + self.n
        return context * self.mult + 7 * self.acc + self.n

    def learn(self, context, action, reward, probability, **kwargs):
        if self.fl is not None and self.n == self.fl:
            raise ToyFail("TOYFAIL:lrn%d:learn" % self.tag)
        self.n += 1
        self.acc += context


class ToyLearnerF(ToyLearner):
    """a ToyLearner with a `finish()` hook (coba calls it on the evaluated COPY of a shared learner after its evaluation):
    'mark'  - finish marks the object; a finished object raises in predict (so a copy made from a finished original fails),
    'raise' - finish itself raises,
    'lazy'  - finish releases a resource that only exists once the learner has learned (AttributeError otherwise)"""

    def __init__(self, tag, mult=1, fp=None, fl=None, params_fail=False, info=False, nocopy=False, finish="mark"):
        super().__init__(tag, mult, fp, fl, params_fail, info, nocopy)
        self.finish_kind = finish
        self.finished = False

    def predict(self, context, actions):
        if self.finished:
            raise ToyFail("TOYFAIL:lrn%d:finished" % self.tag)
        return super().predict(context, actions)

    def learn(self, context, action, reward, probability, **kwargs):
        super().learn(context, action, reward, probability, **kwargs)
        if self.finish_kind == "lazy":
            self._resource = ["open"]

    def finish(self):
        if self.finish_kind == "raise":
            raise ToyFail("TOYFAIL:lrn%d:finish" % self.tag)
        if self.finish_kind == "lazy":
            self._resource.append("closed")
        self.finished = True


class ToyEval:
    """mode 0: ignores CobaContext.learning_info; mode 1: clears it when the evaluation starts and moves it into every row
    (what coba's evaluators do); mode 2: moves it into the rows without clearing first — such an evaluator is NOT
    process-local clean, its rows depend on what earlier evaluations of the same process left behind"""

    def __init__(self, tag, seed=None, fail_at=None, learn=True, params_fail=False, skip_mult=None, mode=0):
        self.tag, self.seed, self.fail_at, self.learn, self.params_fail = tag, seed, fail_at, learn, params_fail
        self.skip_mult = skip_mult      # learners with this `mult` legitimately get no rows at all (and are not touched)
        self.mode = mode

    @property
    def params(self):
        if self.params_fail:
            raise ToyFail("TOYFAIL:val%d:params" % self.tag)
        return {"tag": self.tag, "seed": self.seed}

    def evaluate(self, environment, learner):
        """every ToyFail that leaves an evaluation carries the key of the triple (`@e<env>.l<learner>.v<evaluator>`),
        so that the log can be checked per triple"""
        try:
            yield from self._evaluate(environment, learner)
        except ToyFail as e:
            raise ToyFail("%s@e%s.l%s.v%s" % (e, _env_key(environment), learner.tag, self.tag)) from None

    def _evaluate(self, environment, learner):
        seed = self.seed if self.seed is not None else CobaContext.store.get("experiment_seed")
        if self.fail_at == 0:
            raise ToyFail("TOYFAIL:val%d:evaluate" % self.tag)
        if self.skip_mult is not None and learner.mult == self.skip_mult:
            return
        info = CobaContext.learning_info
        if self.mode == 1:
            info.clear()
        k = 0
        for interaction in environment.read():
            x = interaction["context"]
            p = learner.predict(x, interaction["actions"])
            n = learner.n
            if self.learn:
                learner.learn(x, 0, 0, None)
            row = {"x": x, "p": p, "n": n, "seed": seed}
            if self.mode:
                v = info.pop("li", None)
                info.clear()
                if v is not None:
                    row["li"] = v
            yield row
            k += 1
            if k == self.fail_at:
                raise ToyFail("TOYFAIL:val%d:evaluate" % self.tag)


# ---- components for the built-in (config-invariance only) cases

def _rows_only(context, actions):
    """these learners are not batch aware: coba has to fall back to row-by-row calls for batched environments"""
    from coba.primitives import is_batch
    if is_batch(context) or is_batch(actions):
        raise TypeError("not batch aware")


class InfoLearner:
    """stateful; reports diagnostics through the process-global CobaContext.learning_info from score / predict /
    learn; may raise in learn after predict has already written its info (so the info is never flushed to a row)"""

    def __init__(self, tag, where=("score", "predict", "learn"), fail_learn_at=None):
        self.tag, self.where, self.fail_learn_at = tag, tuple(where), fail_learn_at
        self.ns = self.np = self.nl = 0

    @property
    def params(self):
        return {"family": "InfoLearner", "tag": self.tag, "where": "+".join(self.where)}

    def score(self, context, actions, action):
        _rows_only(context, actions)
        self.ns += 1
        if "score" in self.where:
            CobaContext.learning_info["n_score%d" % self.tag] = self.ns
        return 1 / len(actions)

    def predict(self, context, actions):
        _rows_only(context, actions)
        self.np += 1
        if "predict" in self.where:
            CobaContext.learning_info["n_pred%d" % self.tag] = self.np
        return actions[self.nl % len(actions)], 1 / len(actions)

    def learn(self, context, action, reward, probability):
        _rows_only(context, None)
        if self.fail_learn_at is not None and self.nl == self.fail_learn_at:
            raise ToyFail("TOYFAIL:lrn%d:learn" % self.tag)
        self.nl += 1
        if "learn" in self.where:
            CobaContext.learning_info["n_learn%d" % self.tag] = self.nl


class PolicyLearner:
    """a fixed policy whose score is `p` (p = 0: rejection sampling legitimately accepts nothing -> zero rows)"""

    def __init__(self, tag, p):
        self.tag, self.p = tag, p

    @property
    def params(self):
        return {"family": "PolicyLearner", "tag": self.tag, "p": self.p}

    def score(self, context, actions, action):
        _rows_only(context, actions)
        return self.p

    def predict(self, context, actions):
        _rows_only(context, actions)
        return actions[0], self.p

    def learn(self, context, action, reward, probability):
        pass


class RowLearner:
    """stateful and not batch aware (float(context[0]) raises for a batch of contexts)"""

    def __init__(self, tag):
        self.tag, self.n, self.s = tag, 0, 0.0

    @property
    def params(self):
        return {"family": "RowLearner", "tag": self.tag}

    def predict(self, context, actions):
        i = (int(abs(float(context[0])) * 10) + self.n) % len(actions)
        return {"action_prob": (actions[i], 1.0)}

    def learn(self, context, action, reward, probability):
        self.s += float(context[0])
        self.n += 1


class PmfLearner:
    """stateful, returns a PMF (played through SafeLearner's seeded rng)"""

    def __init__(self, tag):
        self.tag = tag
        self.counts = {}

    @property
    def params(self):
        return {"family": "PmfLearner", "tag": self.tag}

    def predict(self, context, actions):
        _rows_only(context, actions)
        w = [1 + self.counts.get(i, 0) for i in range(len(actions))]
        t = sum(w)
        return [x / t for x in w]

    def learn(self, context, action, reward, probability):
        try:
            i = int(reward * 3) % 5
        except Exception:
            i = 0
        self.counts[i] = self.counts.get(i, 0) + 1


class KwargsLearner:
    """stateful, returns (action, prob, kwargs) and demands the kwargs back in learn"""

    def __init__(self, tag):
        self.tag = tag
        self.t = 0

    @property
    def params(self):
        return {"family": "KwargsLearner", "tag": self.tag}

    def predict(self, context, actions):
        _rows_only(context, actions)
        i = (self.t * (self.tag + 1)) % len(actions)
        return actions[i], 1.0, {"info": self.t}

    def learn(self, context, action, reward, probability, info):
        if info != self.t:
            raise ToyFail("TOYFAIL:kwargs%d:learn info %r at t=%r" % (self.tag, info, self.t))
        self.t += 1


class MaybeScoreLearner:
    """instances of ONE class that differ in what they can do: `score` exists only when the instance was built with
    can_score=True (resolved through __getattr__, so the class itself never has the attribute)"""

    def __init__(self, tag, can_score):
        self.tag, self.can_score, self.n = tag, bool(can_score), 0

    def __getattr__(self, name):
        if name == "score" and self.__dict__.get("can_score"):
            return self._score
        raise AttributeError("'MaybeScoreLearner' object has no attribute '%s'" % name)

    @property
    def params(self):
        return {"family": "MaybeScoreLearner", "tag": self.tag, "can_score": self.can_score}

    def _score(self, context, actions, action):
        _rows_only(context, actions)
        return 1 / len(actions)

    def predict(self, context, actions):
        _rows_only(context, actions)
        return actions[(self.n + self.tag) % len(actions)], 1 / len(actions)

    def learn(self, context, action, reward, probability):
        self.n += 1


class NoCopyLearner:
    """stateful learner that keeps its schedule as a generator: it can be used, but neither deep-copied nor pickled"""

    def __init__(self, tag):
        self.tag, self.t = tag, 0
        self._schedule = (k % 3 for k in iter(int, 1))

    @property
    def params(self):
        return {"family": "NoCopyLearner", "tag": self.tag}

    def predict(self, context, actions):
        _rows_only(context, actions)
        return actions[(next(self._schedule) + self.t) % len(actions)], 1.0

    def learn(self, context, action, reward, probability):
        self.t += 1


def fn_evaluator(environment, learner):
    """a custom evaluator given as a plain function"""
    from coba.safety import SafeLearner
    lrn = SafeLearner(learner, CobaContext.store.get("experiment_seed"))
    for k, interaction in enumerate(environment.read()):
        if k >= 6:
            break
        a, p, kw = lrn.predict(interaction["context"], interaction["actions"])
        r = interaction["rewards"](a)
        lrn.learn(interaction["context"], a, r, p, **kw)
        yield {"k": k, "reward": r, "seed": CobaContext.store.get("experiment_seed")}



# ---------------------------------------------------------------- phase 4: components of the `seq` kind
# Experiments over the BUILT-IN SequentialCB whose Result the Lean model predicts (`seqComps`: Model/C06.evaluate as
# the evaluation component of Model/C01).  The learner is C06's scripted `RecLearner` (props/c06_learners.py).
class SeqEnv:
    """an in-memory environment: C06-format interaction specs (props/c06.py `build_inter`), optionally batched; with
    `fail` the read raises after the last interaction"""

    def __init__(self, tag, inters, batch=None, fail=False):
        self.tag, self.inters, self.batch, self.fail = tag, inters, batch, fail

    @property
    def params(self):
        return {"env_type": "c01seq", "tag": self.tag}

    def _items(self):
        from props.c06 import build_inter
        for p in self.inters:
            yield build_inter(p, False)
        if self.fail:
            raise ToyFail("TOYFAIL:env%d:read" % self.tag)

    def read(self):
        if self.batch:
            from coba.environments import Batch
            return Batch(self.batch).filter(self._items())
        return self._items()


class Head:
    """a deterministic user-defined environment filter: the first k interactions (phase 5: fan-out behind a shared
    chunk()/cache() prefix in front of `SeqEnv`)"""

    def __init__(self, k):
        self.k = k

    @property
    def params(self):
        return {"head": self.k}

    def filter(self, interactions):
        import itertools
        return itertools.islice(interactions, self.k)
