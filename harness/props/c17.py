"""C17 Indexed table queries return exactly what a full scan would.

case = {"init": {...}, "ops": [...]}   (see `generate`); cells are tagged JSON lists
  ["n"] None, ["m"] Missing, ["i",5], ["f",num,den] (exact rational of the float), ["s","ab"].

(A) every observable of the real `coba.results.core.Table` (rows, columns, indexes, groups, exception kind)
    after every operation is compared with the Lean model (`drv_c17`),
(B) every operation is compared with a naive list-of-rows evaluation written here (row by row, in table
    order, with multiplicity), relative to what the table contained just before the operation.
"""
import json
import os
import re

from core.engine import Property, F

COLS = "abcdef"
ERRN = {"TypeError", "IndexError", "KeyError", "AssertionError"}
OPS = ["=", "!=", "<", "<=", ">", ">=", "in", "!in", "match"]


def _core():
    import coba.results.core as core
    return core


# ---------------------------------------------------------------- cells
def to_py(c):
    t = c[0]
    if t == "n":
        return None
    if t == "m":
        return _core().Missing
    if t == "i":
        return int(c[1])
    if t == "f":
        return c[1] / c[2]
    if t == "s":
        return c[1]
    if t == "b":          # a bool probe (only in the harness' own re-queries: the model has no bool)
        return bool(c[1])
    if t == "z":          # negative zero (likewise)
        return -0.0
    raise ValueError(c)


def from_py(v):
    if v is None:
        return ["n"]
    if v is _core().Missing:
        return ["m"]
    if isinstance(v, bool):
        return ["o", repr(v)]
    if isinstance(v, int):
        return ["i", v]
    if isinstance(v, float):
        if v != v or v in (float("inf"), float("-inf")):
            return ["o", repr(v)]
        n, d = v.as_integer_ratio()
        return ["f", n, d]
    if isinstance(v, str):
        return ["s", v]
    return ["o", repr(v)[:60]]


def cid(name):
    return COLS.index(name)


# ---------------------------------------------------------------- plain ("naive") semantics used by (B)
class Undefined(Exception):
    """the plain row-by-row evaluation itself raises (incomparable operands): the property demands nothing"""


def is_missing(x):
    return x is _core().Missing


def n_eq(a, b):
    if is_missing(a) or is_missing(b):
        return (a is None or is_missing(a)) and (b is None or is_missing(b))
    return a == b


def _cmp(f, a, b):
    try:
        return bool(f(a, b))
    except TypeError:
        raise Undefined()


def n_lt(a, b):
    # coba's ordering: Missing is greater than everything (MissingType.__gt__ = True, __lt__ = False)
    if is_missing(a):
        return False
    if is_missing(b):
        return True
    return _cmp(lambda x, y: x < y, a, b)


def n_gt(a, b):
    if is_missing(a):
        return True
    if is_missing(b):
        return False
    return _cmp(lambda x, y: x > y, a, b)


def n_le(a, b):
    if is_missing(a):
        return False
    if is_missing(b):
        return True
    return _cmp(lambda x, y: x <= y, a, b)


def n_ge(a, b):
    if is_missing(a):
        return True
    if is_missing(b):
        return False
    return _cmp(lambda x, y: x >= y, a, b)


def n_in(c, vs):
    return any(n_eq(c, v) for v in vs)


def is_num(x):
    return isinstance(x, (int, float)) and not isinstance(x, bool)


def retype_number(cell):
    """the same number written the other way: ["i",n] <-> ["f",n,1] (None for anything else)"""
    if cell[0] == "i":
        return ["f", cell[1], 1]
    if cell[0] == "f" and cell[2] == 1:
        return ["i", cell[1]]
    return None


def match_twin(op):
    """for a where by keywords in which some keyword is compared by match with an integral number as its probe:
    the same where with those numbers written the other way; else None"""
    if op.get("op") != "where" or op.get("pred") or not op.get("kws"):
        return None
    kws, changed = [], False
    for col, arg in op["kws"]:
        new = arg
        if "d" in arg:
            if arg["d"][0] == "match" and "v" in arg["d"][1]:
                v = retype_number(arg["d"][1]["v"])
                if v is not None:
                    new = {"d": ["match", {"v": v}]}
        elif op.get("pos") == "match" and "v" in arg:
            v = retype_number(arg["v"])
            if v is not None:
                new = {"v": v}
        changed = changed or new is not arg
        kws.append([col, new])
    return dict(op, kws=kws) if changed else None


def number_spellings(cell):
    """the other ways to write the same integral number: 1 / 1.0 / True, 0 / 0.0 / -0.0 / False, n / float(n) - all == and all
    hashed alike, but each formats to its own pattern"""
    if cell[0] == "i":
        n = cell[1]
    elif cell[0] == "f" and cell[2] == 1:
        n = cell[1]
    elif cell[0] == "b":
        n = int(bool(cell[1]))
    elif cell[0] == "z":
        n = 0
    else:
        return []
    fam = [["i", n], ["f", n, 1]]
    if n in (0, 1):
        fam.append(["b", n])
    if n == 0:
        fam.append(["z"])
    return [x for x in fam if x != list(cell)]


def match_spellings(op):
    """for a where by keywords in which some keyword is compared by match with an integral number: the same where with that
    number written in each of the other ways (see number_spellings); [] when there is no such keyword"""
    if op.get("op") != "where" or op.get("pred") or not op.get("kws"):
        return []
    out = []
    for k in range(3):
        kws, changed = [], False
        for col, arg in op["kws"]:
            new = arg
            if "d" in arg:
                if arg["d"][0] == "match" and "v" in arg["d"][1]:
                    alt = number_spellings(arg["d"][1]["v"])
                    if k < len(alt):
                        new = {"d": ["match", {"v": alt[k]}]}
            elif op.get("pos") == "match" and "v" in arg:
                alt = number_spellings(arg["v"])
                if k < len(alt):
                    new = {"v": alt[k]}
            changed = changed or new is not arg
            kws.append([col, new])
        if changed:
            out.append(dict(op, kws=kws))
    return out


def n_match(c, a):
    if c is None or is_missing(c):
        return False
    if is_num(a) or isinstance(a, bool):      # `isinstance(arg, Number)`: True / False are numbers too
        if is_num(c):
            return c == a
        if isinstance(c, str):
            return bool(re.search(r"(\D|^)%s(\D|$)" % a, c))
        raise Undefined()
    if isinstance(a, str):
        return bool(re.search(a, c if isinstance(c, str) else str(c)))
    raise Undefined()


def cellpred_fn(p):
    if "eq" in p:
        v = to_py(p["eq"])
        return lambda c: n_eq(c, v)
    if "in" in p:
        vs = [to_py(x) for x in p["in"]]
        return lambda c: n_in(c, vs)
    if "ismissing" in p:
        return lambda c: is_missing(c)
    if "isnone" in p:
        return lambda c: c is None and not is_missing(c)
    if "const" in p:
        b = bool(p["const"])
        return lambda c: b
    if "not" in p:
        f = cellpred_fn(p["not"])
        return lambda c: not f(c)
    raise ValueError(p)


def rowpred_fn(p, cols):
    """row predicate over the row tuple (cells in table column order)"""
    if "cell" in p:
        name, cp = p["cell"]
        k = cols.index(name)
        f = cellpred_fn(cp)
        return lambda r: f(r[k])
    if "or" in p:
        a, b = rowpred_fn(p["or"][0], cols), rowpred_fn(p["or"][1], cols)
        return lambda r: a(r) or b(r)
    if "and" in p:
        a, b = rowpred_fn(p["and"][0], cols), rowpred_fn(p["and"][1], cols)
        return lambda r: a(r) and b(r)
    raise ValueError(p)


def rowpred_cols(p):
    if "cell" in p:
        return [p["cell"][0]]
    k = "or" if "or" in p else "and"
    return rowpred_cols(p[k][0]) + rowpred_cols(p[k][1])


def argv_py(a):
    return to_py(a["v"]) if "v" in a else [to_py(x) for x in a["l"]]


def sat(c, op, a):
    """does cell c satisfy `op a` under the plain reading; a is the JSON value part"""
    scalar = "v" in a
    v = argv_py(a)
    if op in ("in", "!in"):
        if scalar:
            raise Undefined()
        r = n_in(c, v)
        return r if op == "in" else not r
    if not scalar:
        raise Undefined()
    if op == "=":
        return n_eq(c, v)
    if op == "!=":
        return not n_eq(c, v)
    if op == "match":
        return n_match(c, v)
    if c is None:
        return False     # documented: `c is not None and c < arg`
    if is_missing(v):
        raise Undefined()    # Missing > Missing and Missing == Missing both hold in coba: an order comparison *with* Missing says nothing
    return {"<": n_lt, "<=": n_le, ">": n_gt, ">=": n_ge}[op](c, v)


def spec_conds(op):
    """(column, operator, value) each keyword stands for: its own {op: v}, else the positional one, else =/in"""
    out = []
    for col, arg in op["kws"]:
        if "f" in arg:
            out.append((col, "fn", arg["f"]))
        elif "d" in arg:
            out.append((col, arg["d"][0], arg["d"][1]))
        else:
            o = op.get("pos") or ("=" if "v" in arg else "in")
            out.append((col, o, arg))
    return out


def code_conds(op, cfg):
    """what the code (as found in the tree) makes of each keyword: operator it applies and value"""
    out = []
    comparison = op.get("pos")
    for col, arg in op["kws"]:
        if "f" in arg:
            out.append((col, "fn", arg["f"]))
            continue
        if "d" in arg:
            o, a = arg["d"]
            if not cfg["localOp"]:
                comparison = o
            out.append((col, o, a))
        else:
            out.append((col, comparison or ("=" if "v" in arg else "in"), arg))
    return out


def naive_where(cols, rows, op):
    if op.get("pred"):
        f = rowpred_fn(op["pred"], cols)
        return [r for r in rows if f(r)]
    conds = []
    for col, o, a in spec_conds(op):
        if col not in cols:
            raise Undefined()
        conds.append((cols.index(col), o, cellpred_fn(a) if o == "fn" else a))
    out = []
    for r in rows:
        keep = False
        for k, o, a in conds:
            if (a(r[k]) if o == "fn" else sat(r[k], o, a)):
                keep = True
        if keep:
            out.append(r)
    return out


def lex_lt(cols, ks, r, s):
    for c in ks:
        k = cols.index(c)
        if n_lt(r[k], s[k]):
            return True
        if n_lt(s[k], r[k]):
            return False
    return False


def sorted_by(cols, ks, rows):
    """rows are in lexicographic non-decreasing order on columns ks (None: not decidable, incomparable cells)"""
    try:
        return all(not lex_lt(cols, ks, rows[i + 1], rows[i]) for i in range(len(rows) - 1))
    except Undefined:
        return None


def none_next_to_missing(cols, rows, idx):
    """some index column shows both a None cell and a Missing cell (they are == each other, yet None < Missing holds)"""
    for c in idx:
        if c in cols:
            cells = [r[cols.index(c)] for r in rows]
            if any(x is None for x in cells) and any(is_missing(x) for x in cells):
                return True
    return False


def bcell(v):
    """a cell up to Python's `==` (2 == 2.0, Missing == None): what (B) compares; (A) compares exact types"""
    if v is None or is_missing(v):
        return ["null"]
    if is_num(v):
        n, d = float(v).as_integer_ratio() if isinstance(v, float) else (v, 1)
        return ["q", n, d]
    return from_py(v)


def canon_rows(cols, rows):
    """rows as records that do not depend on the column order"""
    return [json.dumps(sorted((c, bcell(v)) for c, v in zip(cols, r))) for r in rows]


# ---------------------------------------------------------------- real code runner
def errname(e):
    n = type(e).__name__
    return n if n in ERRN else "Other:" + n


def snap(t):
    cols = list(t.columns)
    rows = [tuple(r) for r in t]
    return cols, rows


def observe(t):
    try:
        cols, rows = snap(t)
        return {"rows": [[from_py(v) for v in r] for r in rows], "columns": [cid(c) for c in cols], "indexes": [cid(c) for c in t.indexes]}
    except Exception as e:  # noqa
        return {"err": errname(e)}


def build_init(init):
    core = _core()
    k = init["kind"]
    if k == "columns":
        if not init["columns"] and init.get("bare"):
            return core.Table()
        return core.Table(columns=list(init["columns"]))
    data = {c: [to_py(x) for x in v] for c, v in init["data"]}
    if k == "coldict":
        return core.Table(data)
    if k == "coldict_cols":
        return core.Table(data, columns=list(init["columns"]))
    raise ValueError(k)


def insert_payload(op):
    """the data handed to insert.  `own` (Phase 6) says how the caller owns it: "shared" = members that read the same are ONE
    object (the same row list / dict twice in the list, the same list as two columns of a mapping); "reuse" = the caller clears
    its lists / dicts right after the call (a buffer it fills again), see Runner.do_insert"""
    sh = op["shape"]
    if sh == "rows":
        data = [[to_py(x) for x in r] for r in op["rows"]]
    elif sh == "dicts":
        data = [{c: to_py(v) for c, v in d} for d in op["rows"]]
    elif sh == "cols":
        data = {c: [to_py(x) for x in v] for c, v in op["cols"]}
    else:
        raise ValueError(sh)
    if op.get("own") == "shared":
        seen = {}
        if sh == "cols":
            data = {c: seen.setdefault(own_key(v), v) for c, v in data.items()}
        else:
            data = [seen.setdefault(own_key(x), x) for x in data]
    return data


def own_key(x):
    """reads the same = same cells of the same types in the same places (repr alone would take Missing for None)"""
    return repr([(k, type(c).__name__, c) for k, c in (x.items() if isinstance(x, dict) else enumerate(x))])


def freeze(x):
    """what a caller-owned list / dict holds, cell for cell (exact types), for comparing before / after"""
    if isinstance(x, list):
        return ["L"] + [freeze(y) for y in x]
    if isinstance(x, dict):
        return ["D"] + [[k, freeze(v)] for k, v in x.items()]
    return from_py(x)


def scribble(data):
    """the caller empties the lists / dicts it had handed to insert (as one does with a buffer that is filled again)"""
    for x in (list(data.values()) if isinstance(data, dict) else list(data)):
        if isinstance(x, (list, dict)):
            x.clear()
    data.clear()


def where_call(t, op, cols, live=None, watch=None):
    """`watch` collects (keyword, object, copy) for every list handed to the call: the caller's lists must be as they were afterwards"""
    kwargs = {}
    for col, arg in op["kws"]:
        if "f" in arg:
            kwargs[col] = cellpred_fn(arg["f"])
            continue
        obj = argv_wrap(arg["d"][1] if "d" in arg else arg, live)
        if watch is not None and type(obj) is list:
            watch.append((col, obj, list(obj)))
        kwargs[col] = {arg["d"][0]: obj} if "d" in arg else obj
    pred = rowpred_fn(op["pred"], cols) if op.get("pred") else None
    if op.get("pos") is not None:
        return t.where(pred, op["pos"], **kwargs)
    if pred is not None:
        return t.where(pred, **kwargs)
    return t.where(**kwargs)


class ReIterable:
    """an iterable that is neither a Sequence nor a Set (no __len__, __getitem__, __contains__), iterable any number of times"""

    def __init__(self, vs):
        self._vs = list(vs)

    def __iter__(self):
        return iter(self._vs)


FLAVOURS = ["list", "tuple", "set", "frozenset", "dictkeys", "dictvalues", "deque", "range", "iterable"]


def as_range(vs):
    """the range holding exactly the ints vs (in that order), or None"""
    if vs and all(isinstance(v, int) and not isinstance(v, bool) for v in vs) and vs == list(range(vs[0], vs[0] + len(vs))):
        return range(vs[0], vs[0] + len(vs))
    return None


def argv_wrap(a, live=None):
    """the probe collection in the flavour the case asks for: every one of them is `collections.abc.Iterable and not str`,
    which is what the code tests to take a bare argument for a collection (`in`)"""
    if "v" in a:
        return to_py(a["v"])
    kind = a.get("as", "list")
    if kind == "livecol" and live is not None and tuple(a["src"]) in live:
        return live[tuple(a["src"])]          # the very column object `table[col]` hands out
    vs = [to_py(x) for x in a["l"]]
    if kind == "tuple":
        return tuple(vs)
    if kind == "set":
        return set(vs)
    if kind == "frozenset":
        return frozenset(vs)
    if kind == "dictkeys":
        return dict.fromkeys(vs).keys()
    if kind == "dictvalues":
        return dict(enumerate(vs)).values()
    if kind == "deque":
        import collections
        return collections.deque(vs)
    if kind == "iterable":
        return ReIterable(vs)
    if kind == "range":
        r = as_range(vs)
        return r if r is not None else vs
    return vs


def plan(case):
    """static part of the scope rule: which operations are performed at all.
    An operation is skipped when its target does not exist, is a view and the operation mutates, or shares its
    column lists with another table object that has been mutated since (copy() and where() share storage; what the
    other object then shows is not something the property speaks about)."""
    tables = [{"data": 0, "view": False, "dead": False, "fresh": True}]
    out = []
    stale_mode = bool(case.get("stale"))     # Phase 4: aliases stay alive after another object's mutation; (B) is then asked of fresh objects only

    def aliases(t):
        """live table objects that share the column lists of table t: (id, is a copy-sibling i.e. not a view)"""
        return [(i, not x["view"] and not tables[t]["view"]) for i, x in enumerate(tables)
                if i != t and x["data"] == tables[t]["data"] and not x["dead"]]
    nd = 1
    for op in case["ops"]:
        k = op["op"]
        creates = k in ("where", "copy")
        t = op.get("t", 0)
        ok = 0 <= t < len(tables) and not tables[t]["dead"]
        if ok and k in ("insert", "index") and tables[t]["view"]:
            ok = False
        if ok and k == "where" and op.get("pred") is None and not op.get("kws"):
            ok = False
        if ok and stale_mode and k in ("insert", "index") and tables[t].get("lag"):
            # another object may have added columns to the shared dict that this object's _columns do not list: a mutation through it leaves
            # the lists with different lengths (IndexError in the code where the model pads) - not modelled, not performed
            ok = False
        if ok and stale_mode and k == "copy" and not tables[t].get("fresh", True):
            # copy() of an object whose dict gained a column through another object takes the `else` branch of Table.__init__
            # (data.keys() != set(columns)): an independent table with its own lists and the extra column - separate storages are not modelled
            ok = False
        out.append({"skip": not ok, "creates": creates, "stale": bool(ok and not tables[t].get("fresh", True))})
        if not ok:
            if creates:
                tables.append({"data": -1, "view": True, "dead": True, "fresh": False})
            continue
        if k == "insert":
            payload = op.get("rows") if op["shape"] != "cols" else op.get("cols")
            if payload:
                out[-1]["aliases"] = aliases(t)       # looked at once, right after the mutation, then left alone
                for i, x in enumerate(tables):
                    if i != t and x["data"] == tables[t]["data"]:
                        x["fresh"] = False
                        if op["shape"] != "rows":
                            x["lag"] = True
                        if not stale_mode:
                            x["dead"] = True
        elif k == "index":
            if op["cols"]:
                out[-1]["aliases"] = aliases(t)
                for i, x in enumerate(tables):
                    if i != t and x["data"] == tables[t]["data"]:
                        x["fresh"] = False
                        if not stale_mode:
                            x["dead"] = True
        elif k == "where":
            tables.append({"data": tables[t]["data"], "view": True, "dead": False, "fresh": tables[t].get("fresh", True), "lag": tables[t].get("lag", False)})
        elif k == "copy":
            tables.append({"data": tables[t]["data"], "view": tables[t]["view"], "dead": False, "fresh": tables[t].get("fresh", True)})
    return out


_CFG = {}


def detect_cfg():
    """which of the proposed repairs the tree under test contains (tiny behavioural probes of the real code)"""
    if _CFG:
        return _CFG
    core = _core()
    T, M = core.Table, core.Missing

    def ok(f):
        try:
            return bool(f())
        except Exception:  # noqa
            return False
    cfg = {}
    cfg["dedupIn"] = ok(lambda: len(list(T(columns=["a"]).insert([[1], [1]]).index("a").where(a=[1, 1]))) == 2)
    cfg["notinKey"] = ok(lambda: list(T(columns=["a"]).insert([["x"], ["y"]]).where(a={"!in": ["x"]})) == [("y",)])
    cfg["localOp"] = ok(lambda: list(T(columns=["a", "b"]).insert([[1, 1], [2, 2]]).where(a={"<": 0}, b=1)) == [(1, 1)])
    cfg["guardEmpty"] = ok(lambda: list(T(columns=["a"]).index("a").where(a=1)) == [])
    cfg["dedupIdx"] = ok(lambda: list(T(columns=["a", "b"]).insert([[2, "x"], [1, "y"], [3, "z"]]).index("a", "a")) == [(1, "y"), (2, "x"), (3, "z")])
    cfg["missingLe"] = ok(lambda: list(T(columns=["a"]).insert([[1], [M], [3]]).where(a={"<=": 1})) == [(1,)])
    cfg["missingGe"] = ok(lambda: len(list(T(columns=["a"]).insert([[1], [M], [3]]).where(a={">=": 3}))) == 2)
    cfg["matchEmpty"] = ok(lambda: list(T(columns=["a"]).where(a={"match": 1})) == [] and list(T(columns=["a"]).where(a={"match": "x"})) == [])
    cfg["dictLen"] = ok(lambda: len(list(T(columns=["a"]).insert([{}, {}]))) == 2)
    cfg["resortInsert"] = ok(lambda: list(T(columns=["a"]).insert([[3], [1]]).index("a").insert([[2], [0]])) == [(0,), (1,), (2,), (3,)])
    cfg["bisectFallback"] = ok(lambda: list(T(columns=["a"]).insert([[2], [1]]).index("a").where(a="q")) == [])
    cfg["notinSentinel"] = ok(lambda: len(list(T(columns=["a"]).insert([[M], [M]]).index("a").where(None, "!in", a=[None]))) == 0)
    cfg["matchPerCell"] = ok(lambda: list(T(columns=["a"]).insert([{"a": "y"}, {"a": "x", "c": "on"}]).where(c={"match": "on"})) == [("x", "on")])
    _CFG.update(cfg)
    return _CFG


def view_obs(t):
    """Phase 5: what a table / view shows besides list(table): len, to_dicts, and per column the object t[c] (class, len, list, [0], [-1])"""
    def ex(f, conv):
        try:
            return {"ok": conv(f())}
        except Exception as e:  # noqa
            return {"err": errname(e)}
    out = {"len": ex(lambda: len(t), int),
           "dicts": ex(lambda: list(t.to_dicts()), lambda ds: [[[cid(k), from_py(v)] for k, v in d.items()] for d in ds]), "cols": []}
    for c in list(t.columns):
        def one(c=c):
            s = t[c]
            kind = 0 if isinstance(s, list) else {"SliceView": 1, "ListView": 2}.get(type(s).__name__, 9)
            return {"kind": kind, "len": len(s), "items": ex(lambda: list(s), lambda xs: [from_py(x) for x in xs]),
                    "first": ex(lambda: s[0], from_py), "last": ex(lambda: s[-1], from_py)}
        out["cols"].append([cid(c), ex(one, lambda x: x)])
    return out


def view_monitor(j, t, v):
    """(B): the other observables of one and the same object must tell what list(table) tells"""
    fails = []
    try:
        cols, rows = list(t.columns), [tuple(r) for r in t]
    except Exception:  # noqa
        return fails
    same = lambda a, b: type(a) is type(b) and (a is b or a == b)
    if cols and "ok" in v["len"] and v["len"]["ok"] != len(rows):
        fails.append(F("B", "table %d: len(table) = %d but list(table) has %d rows" % (j, v["len"]["ok"], len(rows)), "view:len-differs-from-rows"))
    try:
        ds = list(t.to_dicts())
        if len(set(cols)) == len(cols) and (len(ds) != len(rows) or any(list(d.keys()) != cols or not all(same(d[c], r[k]) for k, c in enumerate(cols)) for d, r in zip(ds, rows))):
            fails.append(F("B", "table %d: to_dicts() gives %r but list(table) gives %r (columns %r)" % (j, ds[:6], rows[:6], cols), "view:to_dicts-differs-from-rows"))
    except Exception as e:  # noqa
        fails.append(F("B", "table %d: to_dicts() raises %r; list(table) gives %d rows" % (j, e, len(rows)), "view:to_dicts-raised:" + errname(e)))
    for k, c in enumerate(cols):
        try:
            s = t[c]
            items = list(s)
            if len(s) != len(rows) or len(items) != len(rows) or not all(same(a, r[k]) for a, r in zip(items, rows)) or (rows and not same(s[0], rows[0][k])) or (rows and not same(s[len(rows) - 1], rows[-1][k])):
                fails.append(F("B", "table %d: column access table[%r] shows %r (len %d) but list(table) has %r in that column" % (j, c, items[:8], len(s), [r[k] for r in rows][:8]), "view:column-differs-from-rows"))
                break
        except Exception as e:  # noqa
            fails.append(F("B", "table %d: column access table[%r] raises %r; list(table) gives %d rows" % (j, c, e, len(rows)), "view:column-raised:" + errname(e)))
            break
    return fails


class Runner:
    """runs the case on the real Table, observing after every operation and checking (B) against the
    contents just before the operation"""

    def __init__(self, case):
        self.case = case
        self.cfg = detect_cfg()
        self.fails = []
        self.tags = []
        self.obs = []
        self.model_ops = []
        self.nontrivial = False
        self.naive = {}      # op number -> rows the plain evaluation keeps (exact cells), or None when it raises
        self.lin_cur, self.lin_stop, self.lin_obs = 0, False, None   # the linear history of the case (see Driver.linearOf)
        self.mop_case = []   # model op number -> number of the case op it belongs to (None for the peeks added by the runner)
        self.suspect = {}    # table id -> signature of the failed operation that produced it (or an ancestor of it)
        self.cur_t = None
        self.last_sig = None
        self.live = {}       # (table id, column) -> the column object handed to the current where as a probe collection
        self.poisoned = set()  # stale mode: objects left alone after a mutation through another object raised
        self.tainted = set()   # objects another object has mutated under (not looked at by the Phase 5 view observation)
        self.views = {}        # table id -> view_obs of the live, untainted objects at the end of the run
        self.given = []        # (op number, shape, object, freeze(object)) of every payload handed to insert and not scribbled on

    def resolve(self, op, tables):
        """a probe collection given as {"col": [table id, column]} is the live column `tables[id][column]` (a list of a table
        that owns its lists, a view's ListView / SliceView otherwise): for the plain evaluation and for the model it is the list
        of its present cells; the call itself gets the object.  ([] when there is no such table / column.)"""
        self.live = {}
        if op["op"] != "where" or not any("col" in (a["d"][1] if "d" in a else a) for _, a in op["kws"]):
            return op
        kws = []
        for col, arg in op["kws"]:
            inner = arg["d"][1] if "d" in arg else arg
            if "col" in inner:
                tid, c = inner["col"]
                new = {"l": [], "as": "list"}
                try:
                    src = tables[tid] if 0 <= tid < len(tables) else None
                    if src is not None and c in list(src.columns):
                        obj = src[c]
                        new = {"l": [from_py(x) for x in obj], "as": "livecol", "src": [tid, c]}
                        self.live[(tid, c)] = obj
                except Exception:  # noqa
                    new = {"l": [], "as": "list"}
                arg = {"d": [arg["d"][0], new]} if "d" in arg else new
            kws.append([col, arg])
        return dict(op, kws=kws)

    def fail(self, what, sig):
        # a table returned by an operation that already violated the property (e.g. a view with repeated / unordered row
        # numbers after P8) is not a sound starting point: what goes wrong on it is reported as a consequence of that failure
        generic = sig.startswith(("where:", "groupby:", "copy:", "list-raised"))     # not explained by a known trigger of its own
        if generic and self.cur_t in self.suspect:
            sig = "downstream:" + self.suspect[self.cur_t]
            what = what + " [the table operated on was itself returned by an operation that violated the property]"
        self.last_sig = sig
        self.fails.append(F("B", what, sig))

    def run(self):
        case = self.case
        pl = plan(case)
        t0 = build_init(case["init"])
        tables = [t0]
        self.obs.append(observe(t0))
        for n, (op, p) in enumerate(zip(case["ops"], pl)):
            k = op["op"]
            if not self.lin_stop and not p["skip"] and k in ("insert", "index") and op["t"] != self.lin_cur:
                # the linear history ends here: another object is mutated; remember what its table shows now
                self.lin_stop = True
                self.lin_obs = observe(tables[self.lin_cur]) if tables[self.lin_cur] is not None else None
            moves = not self.lin_stop and not p["skip"] and k in ("where", "copy") and op["t"] == self.lin_cur
            self.mop_case.append(n)
            if op.get("t", 0) in self.poisoned:
                p = dict(p, skip=True)
            if p["skip"]:
                self.obs.append({"skip": True})
                self.model_ops.append({"op": "skip", "creates": p["creates"]})
                if p["creates"]:
                    tables.append(None)
                self.tags.append("skip:" + k)
                continue
            t = tables[op["t"]]
            op = self.resolve(op, tables)
            if t is None:
                self.obs.append({"skip": True})
                self.model_ops.append(self.model_op(op, []))
                if p["creates"]:
                    tables.append(None)
                self.tags.append("dead:" + k)
                if moves:
                    self.lin_cur = len(tables) - 1
                continue
            try:
                cols, rows = snap(t)
                idx = list(t.indexes)
            except Exception as e:  # noqa
                self.fail("op #%d: the table could not be listed before %s: %r" % (n, k, e), "list-raised:" + errname(e))
                self.obs.append({"err": errname(e)})
                self.model_ops.append(self.model_op(op, list(t.columns)))
                if p["creates"]:
                    tables.append(None)
                if moves:
                    self.lin_cur = len(tables) - 1
                continue
            self.model_ops.append(self.model_op(op, cols))
            self.cur_t, self.last_sig = op["t"], None
            ntab = len(tables)
            before = {}
            for j, sibling in p.get("aliases", []):
                if tables[j] is not None:
                    try:
                        before[j] = snap(tables[j])
                    except Exception:  # noqa
                        pass
            nfails = len(self.fails)
            getattr(self, "do_" + k)(n, op, t, tables, cols, rows, idx)
            if self.given and not (k == "insert" and self.given[-1][0] == n and len(self.given) == 1):
                self.check_given(n, k)
            if k in ("insert", "index"):
                self.tainted |= set(range(len(tables))) - {op["t"]}
            if case.get("stale") and k in ("insert", "index") and tables[op["t"]] is None:
                # a mutation that raised may have permuted some of the shared lists before it did (index: column by column): what the
                # other objects show then is not modelled - they are left alone from here on
                self.poisoned = set(range(len(tables))) - {op["t"]}
                self.tags.append("stale:mutation-raised")
            if p.get("stale"):
                # the object was mutated under by another object (findings C17-F19/F20): the property claims nothing of its answers;
                # they are compared with the machine with caches (A) only.  Mutations THROUGH it still count for its siblings below.
                del self.fails[nfails:]
                self.last_sig = None
                self.tags.append("stale:" + k)
            if k in ("groupby", "copy") and not p.get("stale"):
                try:
                    after = snap(t)
                except Exception as e:  # noqa
                    after = ("raised", repr(e))
                if after != (cols, rows):
                    self.fail("op #%d %s changed what the table shows: before %s %s, after %s" % (n, k, cols, rows[:12], after[1][:12] if isinstance(after[1], list) else after),
                              k + "-changes-a-table")
            if tables[op["t"]] is not None:
                # the mutation went through: look once at every other object that shows the same lists
                for j, sibling in p.get("aliases", []):
                    if tables[j] is None or j not in before:
                        continue
                    self.obs.append(observe(tables[j]))
                    self.model_ops.append({"op": "peek", "t": j})
                    self.mop_case.append(None)
                    self.tags.append("alias:peek-" + ("copy" if sibling else "view"))
                    if sibling and not p.get("stale"):
                        try:
                            after = snap(tables[j])
                        except Exception as e:  # noqa
                            after = ("raised", repr(e))
                        if after != before[j]:
                            self.cur_t = None
                            self.fail("op #%d %s on table %d changed what table %d shows (one is a copy() of the other): before %s %s, after %s"
                                      % (n, k, op["t"], j, before[j][0], before[j][1][:12], after[1][:12] if isinstance(after[1], list) else after),
                                      "copy-shares-storage:%s-through-one-object-changes-the-other" % k)
            if moves:
                self.lin_cur = len(tables) - 1
            if len(tables) > ntab:
                if op["t"] in self.suspect:
                    self.suspect[ntab] = self.suspect[op["t"]]
                elif self.last_sig is not None:
                    self.suspect[ntab] = self.last_sig[len("downstream:"):] if self.last_sig.startswith("downstream:") else self.last_sig
        if not self.lin_stop:
            self.lin_obs = observe(tables[self.lin_cur]) if tables[self.lin_cur] is not None else None
        if not case.get("stale"):
            for j, t in enumerate(tables):
                if t is None or j in self.tainted or j in self.suspect:
                    continue
                v = self.views[j] = view_obs(t)
                kinds = sorted(set(c[1]["ok"]["kind"] for c in v["cols"] if "ok" in c[1]))
                self.tags.append("view:%s:%s" % ("+".join({0: "list", 1: "SliceView", 2: "ListView"}.get(x, "other") for x in kinds) or "no-columns",
                                                 "empty" if v["len"].get("ok") == 0 else "rows"))
                self.fails.extend(view_monitor(j, t, v))
        return self

    # ---- conversions for the model
    def model_op(self, op, cols):
        k = op["op"]
        if k == "insert":
            if op["shape"] == "rows":
                return {"op": "insert", "t": op["t"], "shape": "rows", "rows": op["rows"]}
            if op["shape"] == "dicts":
                return {"op": "insert", "t": op["t"], "shape": "dicts", "rows": [[[cid(c), v] for c, v in d] for d in op["rows"]]}
            return {"op": "insert", "t": op["t"], "shape": "cols", "cols": [[cid(c), v] for c, v in op["cols"]]}
        if k == "index":
            return {"op": "index", "t": op["t"], "cols": [cid(c) for c in op["cols"]]}
        if k == "copy":
            return {"op": "copy", "t": op["t"]}
        if k == "groupby":
            s = op.get("select")
            if isinstance(s, dict):
                s = {"one": cid(s["one"])} if "one" in s else {"many": [cid(c) for c in s["many"]]}
            return {"op": "groupby", "t": op["t"], "level": op["level"], "select": s}
        if k == "where":
            def rp(p):
                if "cell" in p:
                    name, cp = p["cell"]
                    return {"cell": [cols.index(name) if name in cols else 99, cp]}
                kk = "or" if "or" in p else "and"
                return {kk: [rp(p[kk][0]), rp(p[kk][1])]}

            def strip(a):
                return {"v": a["v"]} if "v" in a else {"l": a["l"]}
            kws = []
            for col, arg in op["kws"]:
                if "f" in arg:
                    kws.append([cid(col), {"f": arg["f"]}])
                elif "d" in arg:
                    kws.append([cid(col), {"d": [arg["d"][0], strip(arg["d"][1])]}])
                else:
                    kws.append([cid(col), strip(arg)])
            return {"op": "where", "t": op["t"], "pred": rp(op["pred"]) if op.get("pred") else None, "pos": op.get("pos"), "kws": kws}
        raise ValueError(k)

    # ---- operations
    def do_insert(self, n, op, t, tables, cols, rows, idx):
        """Phase 6: the data belongs to the caller.  insert must leave it as it was (`insert-changes-its-argument`), no later
        operation on any table may change it (`check_given`), and what the table shows must not follow what the caller does with
        its own lists / dicts afterwards (`insert:table-follows-the-callers-data`)"""
        payload = insert_payload(op)
        was = freeze(payload)
        own = op.get("own")
        if own:
            self.tags.append("insert:own:%s:%s" % (own, op["shape"]))
            if own == "shared" and len({id(x) for x in (payload.values() if isinstance(payload, dict) else payload)}) < len(payload):
                self.tags.append("insert:own:same-object-twice:" + op["shape"])
        self._do_insert(n, op, t, tables, cols, rows, idx, payload)
        if freeze(payload) != was:
            self.fail("op #%d insert(%s) changed the data it was given: before %s, after %s" % (n, op["shape"], was, freeze(payload)), "insert-changes-its-argument")
            return
        if tables[op["t"]] is None:
            return
        if own == "reuse":
            try:
                shown = snap(t)
            except Exception:  # noqa
                return
            scribble(payload)
            try:
                after = snap(t)
            except Exception as e:  # noqa
                after = ("raised", repr(e))
            if after != shown:
                self.fail("op #%d insert(%s): after the caller emptied the lists / dicts it had given, the table shows %s; before it showed %s %s"
                          % (n, op["shape"], after[1][:12] if isinstance(after[1], list) else after, shown[0], shown[1][:12]), "insert:table-follows-the-callers-data")
        else:
            self.given.append((n, op["shape"], payload, was))

    def check_given(self, n, k):
        """data handed to an earlier insert is still the caller's: no operation on any table changes it"""
        for m, sh, payload, was in self.given:
            if freeze(payload) != was:
                self.fail("op #%d %s changed the data the caller had given to insert (op #%d, %s): it was %s, now %s" % (n, k, m, sh, was, freeze(payload)),
                          k + "-changes-data-given-to-an-earlier-insert")
                self.given = [g for g in self.given if g[0] != m]
                return

    def _do_insert(self, n, op, t, tables, cols, rows, idx, payload):
        sh = op["shape"]
        self.tags.append("insert:" + sh)
        # plain meaning: the new rows, cells of columns a row does not mention are Missing; new columns are Missing in old rows
        M = _core().Missing
        if sh == "rows":
            newrows = [dict(zip(cols, r)) for r in payload]
            aligned = all(len(r) == len(cols) for r in payload)
        elif sh == "dicts":
            newrows = [dict(d) for d in payload]
            aligned = True
        else:
            ln = [len(v) for v in payload.values()]
            aligned = len(set(ln)) <= 1
            newrows = [{c: payload[c][i] for c in payload} for i in range(ln[0] if ln else 0)]
        named = set(payload) if sh == "cols" else {c for r in newrows for c in r}
        allcols = list(cols) + sorted(named - set(cols))
        if named - set(cols):
            self.tags.append("insert:new-column")
        if any(c not in r for r in newrows for c in cols):
            self.tags.append("insert:ragged")
        expect = [tuple(r.get(c, M) for c in cols) + tuple(M for _ in allcols[len(cols):]) for r in [dict(zip(cols, x)) for x in rows]]
        expect += [tuple(r.get(c, M) for c in allcols) for r in newrows]
        if not allcols:
            expect = []          # a table without any column has nothing to show a row with
        try:
            r = t.insert(payload)
        except Exception as e:  # noqa
            tables[op["t"]] = None
            self.obs.append({"err": errname(e)})
            if aligned:
                self.fail("op #%d insert(%s) raised %r" % (n, sh, e), "insert:raised:" + errname(e))
            return
        self.obs.append(observe(t))
        if not aligned:
            return
        try:
            cols2, rows2 = snap(t)
        except Exception as e:  # noqa
            self.fail("op #%d: table cannot be listed after insert: %r" % (n, e), "insert:list-raised")
            return
        got = canon_rows(cols2, rows2)
        exp = canon_rows(allcols, expect)
        # every row complete: all columns hold one cell per row (zip(*columns) in __iter__ would hide a longer column)
        try:
            lens = {c: len(t[c]) for c in cols2}
            nrows = len(t)
        except Exception as e:  # noqa
            self.fail("op #%d: len(table) / table[column] raised after insert: %r" % (n, e), "insert:len-raised")
            return
        if cols2 and (len(set(lens.values())) > 1 or nrows != len(expect) or any(v != len(expect) for v in lens.values())):
            self.fail("op #%d insert(%s): %d rows were expected; len(table) = %d, column lengths %s" % (n, sh, len(expect), nrows, lens), "insert:column-lengths")
            return
        if r is not t:
            self.fail("op #%d insert did not return the table" % n, "insert:return")
        if idx and payload and set(cols2) == set(allcols) and len(cols2) == len(allcols):
            # the table was indexed: afterwards it either still is and its rows are in index order (the old rows followed by the
            # new ones if that is in order, else the same rows sorted), or - when the values cannot be ordered - it is no longer
            # indexed and shows the old rows followed by the new ones
            self.tags.append("insert:into-indexed")
            try:
                idx2 = list(t.indexes)
            except Exception as e:  # noqa
                self.fail("op #%d: indexes raised after insert: %r" % (n, e), "insert:indexes-raised")
                return
            in_order = sorted_by(allcols, idx, expect)
            sortable = True
            try:
                import functools
                sorted(expect, key=functools.cmp_to_key(lambda x, y: -1 if lex_lt(allcols, idx, x, y) else (1 if lex_lt(allcols, idx, y, x) else 0)))
                for c in idx:
                    vals = [x[allcols.index(c)] for x in expect]
                    for a in vals:
                        for b in vals:
                            n_lt(a, b)
            except Undefined:
                sortable = False
            self.tags.append("insert:into-indexed:" + ("in-order" if in_order else "unsortable" if not sortable else "out-of-order"))
            what = "op #%d insert(%s) into a table indexed by %s: afterwards indexes %s rows %s; old rows + new rows are %s" % (n, sh, idx, idx2, rows2[:12], expect[:12])
            if sorted(got) != sorted(exp):
                self.fail(what, "insert:rows-differ")
            elif idx2 == idx:
                if sorted_by(cols2, idx, rows2) is not True:
                    self.fail(what + " - the table still claims the index but its rows are not in index order", "insert-leaves-rows-out-of-index-order")
                elif in_order and got != exp:
                    self.fail(what + " - the rows were in index order already but were rearranged", "insert:reordered-needlessly")
            elif idx2 == []:
                if got != exp:
                    self.fail(what, "insert:rows-differ")
                elif sortable:
                    self.fail(what + " - the index was dropped although the rows can be ordered", "insert:index-dropped")
            else:
                self.fail(what, "insert:indexes-changed")
            return
        if got != exp or set(cols2) != set(allcols) or len(cols2) != len(allcols):
            sig = "insert:rows-differ"
            if sh == "dicts" and payload and all(len(d) == 0 for d in payload) and not self.cfg["dictLen"]:
                sig = "insert-all-empty-dicts"
            self.fail("op #%d insert(%s): table holds %s (columns %s) but previous rows + inserted rows are %s (columns %s)"
                      % (n, sh, rows2[:12], cols2, expect[:12], allcols), sig)

    def do_index(self, n, op, t, tables, cols, rows, idx):
        req = [c for c in op["cols"] if c in cols]
        self.tags.append("index:%d" % len(req))
        if len(set(req)) < len(req):
            self.tags.append("index:duplicate-columns")
        dup = len(set(req)) < len(req) and not self.cfg["dedupIdx"]     # repeated names are a known trigger only in a tree without the repair
        req = list(dict.fromkeys(req))
        try:
            r = t.index(*op["cols"])
        except Exception as e:  # noqa
            tables[op["t"]] = None
            self.obs.append({"err": errname(e)})
            self.tags.append("index:raised:" + errname(e))
            comparable = True
            try:
                for c in req:
                    k = cols.index(c)
                    vals = [x[k] for x in rows]
                    for a in vals:
                        for b in vals:
                            n_lt(a, b)
            except Undefined:
                comparable = False
            if comparable:
                self.fail("op #%d index(%s) raised %r although all cells of the index columns are mutually comparable" % (n, op["cols"], e),
                          "index:raised:" + errname(e))
            return
        self.obs.append(observe(t))
        try:
            cols2, rows2 = snap(t)
            idx2 = list(t.indexes)
        except Exception as e:  # noqa
            self.fail("op #%d: table cannot be listed after index: %r" % (n, e), "index:list-raised")
            return
        if r is not t:
            self.fail("op #%d index did not return the table" % n, "index:return")
        if sorted(canon_rows(cols2, rows2)) != sorted(canon_rows(cols, rows)):
            sig = "index-duplicate-columns:rows-altered" if dup else "index:not-a-permutation"
            self.fail("op #%d index(%s) changed the rows: before %s after %s" % (n, op["cols"], rows[:12], rows2[:12]), sig)
            return
        if not op["cols"] or not cols:
            return
        srt = sorted_by(cols2, req, rows2)
        if srt is False:
            if dup:
                sig = "index-duplicate-columns:not-sorted"
            elif tuple(idx) == tuple(req) and sorted_by(cols, idx, rows) is False and not self.cfg["resortInsert"]:
                sig = "index-noop-on-stale-index"
            else:
                sig = "index:not-sorted"
            self.fail("op #%d index(%s): rows are not in lexicographic order of the index columns afterwards: %s" % (n, op["cols"], rows2[:12]), sig)
        if idx2 != req and not dup:
            self.fail("op #%d index(%s): indexes reported %s" % (n, op["cols"], idx2), "index:indexes-attr")
        if len(rows) >= 2 and srt:
            self.nontrivial = True

    def where_features(self, op, cols, rows, idx):
        cfg = self.cfg
        f = {"ops": [], "paths": []}
        srt = sorted_by(cols, [c for c in idx if c in cols], rows) if idx else True
        f["dupidx"] = len(set(idx)) < len(idx)
        f["stale"] = bool(idx) and srt is not True
        f["empty"] = len(rows) == 0
        # finding C17-F21: an index column that holds a None cell next to Missing cells (None == Missing, but None < Missing)
        f["none_missing_idx"] = none_next_to_missing(cols, rows, idx)
        if op.get("pred"):
            f["ops"].append("rowpred")
            f["paths"].append("scan")
            return f
        sc = spec_conds(op)
        cc = code_conds(op, cfg)
        f["leak"] = any(a[1] != b[1] for a, b in zip(sc, cc))
        f["notin_dict"] = any("d" in arg and arg["d"][0] == "!in" for _, arg in op["kws"])
        for (col, o, a) in cc:
            f["ops"].append(o)
            if col not in cols:
                f["paths"].append("nocol")
                continue
            k = cols.index(col)
            cells = [r[k] for r in rows]
            bis = col in idx and o not in ("match", "fn")
            f["paths"].append("bisect" if bis else "scan")
            if o == "fn":
                continue
            probes = [to_py(a["v"])] if "v" in a else [to_py(x) for x in a["l"]]
            if bis:
                if o == "in" and any(n_eq(x, y) for i, x in enumerate(probes) for y in probes[i + 1:]):
                    f["dup_probes"] = True
                if any(p is None and not is_missing(p) for p in probes):
                    f["none_probe"] = True
                try:
                    for p in probes:
                        for c in cells:
                            n_lt(p, c)
                        for q in probes:
                            n_lt(p, q)
                except Undefined:
                    f["incomparable_probe"] = True
            if o in ("<=", ">=") and (any(is_missing(c) for c in cells) or any(is_missing(p) for p in probes)):
                f["le_ge_missing"] = True
            if not bis:
                if o == "match":
                    kinds = {("num" if is_num(c) else "str" if isinstance(c, str) else "null") for c in cells}
                    if len(kinds) > 1 or kinds == {"null"}:
                        f["match_mixed"] = True
        return f

    def where_sig(self, f, outcome):
        """signature of a failing where: the first known defect of the tree under test (cfg) that the call can trigger
        and that explains the kind of outcome; otherwise operator / path / outcome"""
        cfg = self.cfg
        if f.get("dupidx") and not cfg["dedupIdx"]:
            return "where-after-duplicate-index-columns"
        if f.get("stale") and not cfg["resortInsert"]:
            return "where-on-stale-index"
        if f["empty"] and outcome == "raised:IndexError":
            if "bisect" in f["paths"] and not cfg["guardEmpty"]:
                return "where-empty-indexed-IndexError"
            if "match" in f["ops"] and not cfg["matchEmpty"]:
                return "where-match-empty-IndexError"
        if f.get("none_missing_idx") and "bisect" in f["paths"] and outcome == "rows":
            return "where-index-column-holds-None-next-to-Missing"
        if f.get("leak") and not cfg["localOp"]:
            return "where-operator-leaks-to-later-keyword"
        if f.get("notin_dict") and not cfg["notinKey"]:
            return "where-dict-notin-not-unpacked"
        if outcome == "rows":
            if f.get("dup_probes") and not cfg["dedupIn"]:
                return "where-in-duplicate-probes-indexed"
            if f.get("none_probe") and not cfg["notinSentinel"]:
                return "where-indexed-none-probe"
            if f.get("match_mixed") and not cfg["matchPerCell"]:
                return "where-match-mixed-column:rows"
        if outcome == "raised:TypeError":
            if f.get("le_ge_missing") and not (cfg["missingLe"] and cfg["missingGe"]):
                return "where-le-ge-missing-scan-TypeError"
            if f.get("incomparable_probe") and not cfg["bisectFallback"]:
                return "where-indexed-incomparable-probe-TypeError"
            if f.get("match_mixed") and not cfg["matchPerCell"]:
                return "where-match-mixed-column:raised"
        return "where:%s:%s:%s" % ("+".join(f["ops"]), "+".join(f["paths"]), outcome)

    def do_where(self, n, op, t, tables, cols, rows, idx):
        f = self.where_features(op, cols, rows, idx)
        for o, p in zip(f["ops"], f["paths"]):
            self.tags.append("where:%s:%s" % (o, p))
        if len(op["kws"]) > 1:
            self.tags.append("where:multi-keyword")
        for _, arg in op["kws"]:
            inner = arg["d"][1] if "d" in arg else arg
            if "l" in inner:
                self.tags.append("where:probes-as:%s:%s" % (inner.get("as", "list"), "explicit-op" if ("d" in arg or op.get("pos")) else "bare"))
        if t is not tables[0] and getattr(t, "_data", None).__class__.__name__ == "View":
            self.tags.append("where:of-view")
        if f["empty"]:
            self.tags.append("where:empty-table")
        for key in ("stale", "dupidx", "leak", "notin_dict", "dup_probes", "incomparable_probe", "none_probe", "le_ge_missing", "match_mixed"):
            if f.get(key):
                self.tags.append("where:feature:" + key)
        try:
            exp = naive_where(cols, rows, op)
            undefined = False
        except Undefined:
            exp, undefined = None, True
            self.tags.append("where:plain-evaluation-raises")
        self.naive[n] = None if undefined else [[from_py(v) for v in r] for r in exp]
        watch = []
        others = {}
        for (tid, c) in self.live:
            if tid != op["t"] and tables[tid] is not None:
                try:
                    others[tid] = snap(tables[tid])
                except Exception:  # noqa
                    pass
        try:
            r = where_call(t, op, cols, self.live, watch)
            cols2, rows2 = snap(r)
            err = None
        except Exception as e:  # noqa
            r, err = None, e
        tables.append(r)
        self.obs.append(observe(r) if err is None else {"err": errname(err)})
        # a query changes neither the table it is asked of, nor any other table, nor the objects it is given
        desc0 = "where(%s%s)" % (("pos=%r, " % op["pos"]) if op.get("pos") else "", "row_pred" if op.get("pred") else json.dumps(op["kws"]))
        changed = False
        for tid, before in [(op["t"], (cols, rows))] + sorted(others.items()):
            try:
                after = snap(tables[tid])
            except Exception as e:  # noqa
                after = ("raised", repr(e))
            if after != before:
                changed = True
                self.tags.append("where:changed-a-table")
                self.fail("op #%d %s asked of table %d changed what table %d shows: before %s %s, after %s"
                          % (n, desc0, op["t"], tid, before[0], before[1][:12], after[1][:12] if isinstance(after[1], list) else after), "where-changes-a-table")
                break
        if not changed:
            for kw, obj, was in watch:
                if len(obj) != len(was) or any(x is not y for x, y in zip(obj, was)):
                    self.fail("op #%d %s: the list given for %r was %s before the call and is %s after it" % (n, desc0, kw, was[:12], obj[:12]), "where-changes-its-argument")
                    changed = True
                    break
        if watch:
            self.tags.append("where:list-argument-watched")
        if self.live:
            self.tags.append("where:probes-are-a-live-column:" + ("own-table" if any(tid == op["t"] for tid, _ in self.live) else "other-table"))
        if undefined or changed:
            return
        desc = "where(%s%s)" % (("pos=%r, " % op["pos"]) if op.get("pos") else "", "row_pred" if op.get("pred") else json.dumps(op["kws"]))
        if err is not None:
            self.tags.append("where:raised:" + errname(err))
            self.fail("op #%d %s on table with columns %s indexes %s rows %s raised %r; plain evaluation gives %s"
                      % (n, desc, cols, idx, rows[:12], err, exp[:12]), self.where_sig(f, "raised:" + errname(err)))
            return
        if 0 < len(exp) < len(rows) or (f["paths"] and "bisect" in f["paths"] and len(rows) > 0):
            self.nontrivial = True
        if len(exp) == 0:
            self.tags.append("where:result-empty")
        elif len(exp) == len(rows):
            self.tags.append("where:result-all")
        if canon_rows(cols2, rows2) != canon_rows(cols, exp):
            self.fail("op #%d %s on table with columns %s indexes %s rows %s returned %s; plain row-by-row evaluation gives %s"
                      % (n, desc, cols, idx, rows[:12], rows2[:12], exp[:12]), self.where_sig(f, "rows"))
        elif list(r.indexes) != idx or set(r.columns) != set(cols):
            self.fail("op #%d %s: result has columns %s indexes %s, source %s %s" % (n, desc, list(r.columns), list(r.indexes), cols, idx), "where:attrs")
        else:
            self.requery_match(n, op, t, cols, rows, idx, desc)

    def requery_match(self, n, op, t, cols, rows, idx, desc):
        """a query is answered from its own arguments: after a `match` with an integral number the same table is asked the same
        with the number written the other way (1 / 1.0: equal, but other patterns) and then the first question again; each answer
        must be its own plain row-by-row evaluation.  (Nothing is added to the case: the extra wheres are read-only.)"""
        tws = match_spellings(op)
        if not tws:
            return
        self.tags.append("where:match:asked-again-with-the-number-written-the-other-way")
        for what, q in [("the same number written another way", tw) for tw in tws] + [("the first question again", op)]:
            try:
                exp = naive_where(cols, rows, q)
            except Undefined:
                return
            try:
                _, rows2 = snap(where_call(t, q, cols, self.live))
            except Exception as e:  # noqa
                self.fail("op #%d %s answered correctly; then %s, where(%s), raised %r; plain evaluation gives %s"
                          % (n, desc, what, json.dumps(q["kws"]), e, exp[:12]), "where-match-answer-depends-on-earlier-queries")
                return
            if canon_rows(cols, rows2) != canon_rows(cols, exp):
                self.fail("op #%d %s on table with columns %s rows %s answered correctly; then %s, where(%s%s), returned %s; plain row-by-row evaluation gives %s"
                          % (n, desc, cols, rows[:12], what, ("pos=%r, " % q["pos"]) if q.get("pos") else "", json.dumps(q["kws"]), rows2[:12], exp[:12]),
                          "where-match-answer-depends-on-earlier-queries")
                return

    def do_copy(self, n, op, t, tables, cols, rows, idx):
        self.tags.append("copy")
        try:
            r = t.copy()
            cols2, rows2 = snap(r)
            idx2 = list(r.indexes)
        except Exception as e:  # noqa
            tables.append(None)
            self.obs.append({"err": errname(e)})
            self.fail("op #%d copy raised %r" % (n, e), "copy:raised")
            return
        tables.append(r)
        self.obs.append(observe(r))
        if cols2 != cols or canon_rows(cols2, rows2) != canon_rows(cols, rows) or idx2 != idx or r is t:
            self.fail("op #%d copy differs from its source: %s %s %s vs %s %s %s" % (n, cols2, idx2, rows2[:12], cols, idx, rows[:12]), "copy:differs")

    def do_groupby(self, n, op, t, tables, cols, rows, idx):
        level, sel = op["level"], op.get("select")
        self.tags.append("groupby:level%d:%s" % (level, "keys" if sel is None else sel if isinstance(sel, str) else list(sel)[0]))
        if sel is None:
            s = None
        elif sel == "count":
            s = "count"
        elif "one" in sel:
            s = sel["one"]
        else:
            s = list(sel["many"])
        try:
            gs = list(t.groupby(level, s))
            err = None
        except Exception as e:  # noqa
            gs, err = None, e
        if err is not None:
            self.obs.append({"err": errname(err)})
            self.tags.append("groupby:raised:" + errname(err))
        else:
            try:
                if sel is None:
                    o = [[[from_py(x) for x in g], None] for g in gs]
                elif sel == "count":
                    o = [[[from_py(x) for x in g[0]], int(g[1])] for g in gs]
                elif "one" in sel:
                    o = [[[from_py(x) for x in g[0]], [from_py(x) for x in g[1]]] for g in gs]
                else:
                    o = [[[from_py(x) for x in g[0]], [[from_py(x) for x in col] for col in g[1]]] for g in gs]
                self.obs.append({"groups": o})
            except Exception as e:  # noqa
                self.obs.append({"err": "Other:shape"})
                self.fail("op #%d groupby returned something of an unexpected shape: %r (%r)" % (n, gs, e), "groupby:shape")
                return
        # scope: level must name an index column; select columns must exist
        if level >= len(idx) or any(c not in cols for c in idx):
            return
        if isinstance(s, str) and s != "count" and s not in cols:
            return
        if isinstance(s, list) and any(c not in cols for c in s):
            return
        ks = idx[:level]
        dup = len(set(idx)) < len(idx) and not self.cfg["dedupIdx"]
        srt = sorted_by(cols, idx, rows)
        if srt is None:
            return
        pre = "groupby-after-duplicate-index-columns" if dup else "groupby-on-stale-index" if (srt is False and not self.cfg["resortInsert"]) else None
        if err is not None:
            self.fail("op #%d groupby(%d,%r) raised %r on table columns %s indexes %s rows %s" % (n, level, s, err, cols, idx, rows[:12]),
                      pre or "groupby:raised:" + errname(err))
            return
        # expected partition: maximal runs of equal prefix
        kpos = [cols.index(c) for c in ks]
        runs = []
        for r in rows:
            key = tuple(r[k] for k in kpos)
            if runs and all(n_eq(a, b) for a, b in zip(runs[-1][0], key)):
                runs[-1][1].append(r)
            else:
                runs.append((key, [r]))
        if level == 0:
            runs = [((), list(rows))]
        if any(x is None for key, _ in runs for x in key):
            return
        ok = len(gs) == len(runs)
        detail = ""
        if ok:
            for g, (key, rs) in zip(gs, runs):
                gk = g if sel is None else g[0]
                if len(gk) != len(key) or not all(n_eq(a, b) for a, b in zip(gk, key)):
                    ok, detail = False, "group key %r, expected %r" % (gk, key)
                    break
                if sel == "count" and g[1] != len(rs):
                    ok, detail = False, "count %r, expected %d" % (g[1], len(rs))
                    break
                if isinstance(sel, dict) and "one" in sel:
                    k = cols.index(s)
                    if [from_py(x) for x in g[1]] != [from_py(r[k]) for r in rs]:
                        ok, detail = False, "column %s of group %r is %r, expected %r" % (s, key, list(g[1]), [r[k] for r in rs])
                        break
                if isinstance(sel, dict) and "many" in sel:
                    exp = [[from_py(r[cols.index(c)]) for r in rs] for c in s]
                    if [[from_py(x) for x in col] for col in g[1]] != exp:
                        ok, detail = False, "columns %s of group %r are %r" % (s, key, [list(c) for c in g[1]])
                        break
        else:
            detail = "%d groups, expected %d" % (len(gs), len(runs))
        if len(runs) > 1:
            self.nontrivial = True
        if not ok:
            self.fail("op #%d groupby(%d,%r) does not partition the rows by the index prefix %s: %s; rows %s groups %s"
                      % (n, level, s, ks, detail, rows[:12], gs[:8]), pre or "groupby:partition")


# ---------------------------------------------------------------- generator
class Gen:
    def __init__(self, rng, boundary=False):
        self.r = rng
        self.boundary = boundary
        self.stale = False       # Phase 4: keep operating on aliases after another object mutated the shared lists
        # tiny per-column alphabets so that duplicates, ties and absent probes are frequent
        self.kind = {}
        self.ncols = rng.choice([1, 2, 2, 3, 3, 4])
        for c in COLS:
            self.kind[c] = rng.wchoice([(7, "int"), (3, "num"), (4, "str"), (1, "mixed")])

    def cell(self, col, missing_ok=False):
        r = self.r
        k = self.kind[col]
        if missing_ok and r.chance(0.12):
            return ["m"]
        if r.chance(0.008):
            return ["n"]
        if k == "mixed":
            k = r.choice(["int", "str", "num"])
        if k == "int":
            return ["i", r.choice([0, 1, 1, 2, 2, 3, 4])]
        if k == "num":
            x = r.choice([0, 1, 2, 3, 4, 5])        # halves: 0.0 0.5 1.0 ...
            if r.chance(0.5):
                return ["f", x, 2] if x % 2 else ["f", x // 2, 1]
            return ["i", x // 2 if x % 2 == 0 else r.choice([0, 1, 2])]
        return ["s", r.choice(["a", "b", "b", "ab", "ba", "c", "a1", "12", "1", "", "1.0", "v1", "2.0", "10", "0.0"])]

    def probe(self, col, wide=True):
        """a probe value: usually from the column's alphabet, sometimes outside the data range / another type"""
        r = self.r
        x = r.below(100)
        k = self.kind[col]
        if x < 74:
            return self.cell(col)
        if x < 90:
            if k in ("int", "num"):
                return r.choice([["i", -1], ["i", 5], ["i", 9], ["f", 7, 2], ["f", -1, 2], ["f", 3, 2]])
            return r.choice([["s", "0"], ["s", "zz"], ["s", "aa"], ["s", "b0"]])
        if x < 94:
            return ["m"]
        if x < 96:
            return ["n"]
        return r.choice([["s", "a"], ["i", 1], ["f", 1, 2], ["s", "1"]])    # possibly of another type

    def row(self, cols):
        return [self.cell(c) for c in cols]

    def insert(self, t, cols, known):
        # Phase 6: the caller's ownership of the data (see insert_payload): 22 % "reuse", 18 % "shared" - then some members repeat
        op, cols2 = self._insert(t, cols, known)
        r = self.r
        own = r.wchoice([(60, None), (22, "reuse"), (18, "shared")])
        if own:
            op["own"] = own
        if own == "shared":
            if op["shape"] == "cols" and len(op["cols"]) >= 2 and r.chance(0.8):
                # two (or all) columns get the very same list: their alphabets differ, so the cells of one are given to the other(s)
                src = r.choice(op["cols"])[1]
                for c in op["cols"]:
                    if r.chance(0.7):
                        c[1] = list(src)
            elif op["shape"] != "cols" and len(op["rows"]) >= 2 and r.chance(0.8):
                src = r.choice(op["rows"])
                op["rows"] = [list(src) if r.chance(0.5) else x for x in op["rows"]]
                if op["shape"] == "dicts":
                    cols2 = list(cols) + sorted({c for d in op["rows"] for c, _ in d} - set(cols))
        return op, cols2

    def _insert(self, t, cols, known):
        r = self.r
        n = r.choice([0, 1, 1, 2, 3, 4, 6])
        sh = r.wchoice([(4, "rows"), (4, "dicts"), (2, "cols")])
        if not cols:
            sh = r.choice(["dicts", "cols"])      # a table without columns takes its columns from the first insert
            n = r.choice([1, 2, 3, 4, 6])
        if sh == "rows":
            return {"op": "insert", "t": t, "shape": "rows", "rows": [self.row(cols) for _ in range(n)]}, cols
        pool = list(COLS[:min(len(COLS), max(self.ncols, len(cols)) + r.wchoice([(6, 0), (3, 1), (2, 2), (1, 3)]))])
        if not cols:
            pool = list(COLS[:r.choice([1, 2, 2, 3, 4])])
        if sh == "dicts":
            ds = []
            for _ in range(n):
                if cols and r.chance(0.6):
                    ks = list(cols)
                else:
                    ks = [c for c in pool if r.chance(0.6)]
                ks = r.shuffle(ks) if r.chance(0.3) else ks
                ds.append([[c, self.cell(c)] for c in ks])
            new = sorted({c for d in ds for c, _ in d} - set(cols))
            return {"op": "insert", "t": t, "shape": "dicts", "rows": ds}, cols + new
        ks = list(cols) if cols and r.chance(0.6) else [c for c in pool if r.chance(0.6 if cols else 0.85)]
        if r.chance(0.3):
            ks = r.shuffle(ks)
        cs = [[c, [self.cell(c) for _ in range(n)]] for c in ks]
        if n == 0 and r.chance(0.5):
            cs = []
        new = sorted(set(ks) - set(cols))
        return {"op": "insert", "t": t, "shape": "cols", "cols": cs}, cols + (new if cs else [])

    def argv(self, col, coll, allow_dup=True):
        r = self.r
        if not coll:
            return {"v": self.probe(col)}
        if getattr(self, "_live", None) and r.chance(0.12):
            # the probes are a live column of this or another table (t.where(a=other['id']), t.where(a={'!in': t['b']})):
            # an object the caller keeps using - the query must leave it, and every table, as it was
            tid, tcols = r.choice(self._live)
            if tcols:
                same = [c for c in tcols if self.kind.get(c) == self.kind.get(col)]
                return {"col": [tid, r.choice(same) if same and r.chance(0.8) else r.choice(tcols)]}
        n = r.choice([0, 1, 2, 2, 3, 4])
        vs = [self.probe(col) for _ in range(n)]
        if vs and allow_dup and r.chance(0.3):
            vs.insert(r.below(len(vs) + 1), r.choice(vs))
        a = {"l": vs}
        distinct = len({("null" if v[0] in "nm" else (v[1] / (v[2] if v[0] == "f" else 1)) if v[0] in "if" else v[1]) for v in vs}) == len(vs)
        k = r.below(20)
        if k < 9:
            fl = FLAVOURS[k]
            if fl in ("set", "frozenset", "dictkeys") and not distinct:
                fl = "dictvalues"    # a set / dict would drop a member that is == another (2 == 2.0, Missing == None)
            if fl == "range":
                # a range holds consecutive ints only: make the probes such a run
                n = r.choice([0, 1, 2, 3])
                st = r.choice([-1, 0, 1, 2, 3, 4])
                a["l"] = [["i", st + i] for i in range(n)]
                if n == 0:
                    fl = "iterable"
            a["as"] = fl
        return a

    def cellpred(self, col):
        r = self.r
        k = r.below(6)
        if k == 0:
            return {"eq": self.probe(col)}
        if k == 1:
            return {"in": [self.probe(col) for _ in range(r.randint(0, 3))]}
        if k == 2:
            return {"ismissing": True}
        if k == 3:
            return {"not": {"eq": self.probe(col)}}
        if k == 4:
            return {"const": r.chance(0.5)}
        return {"not": {"ismissing": True}}

    def kwarg(self, col, pos):
        """one keyword argument; `pos` is the positional comparison of the call (or None)"""
        r = self.r
        x = r.below(100)
        if x < 8:
            return {"f": self.cellpred(col)}
        if x < 45:
            o = r.choice(OPS)
            if o == "match":
                return {"d": [o, {"v": self.matcharg(col)}]}
            return {"d": [o, self.ordarg(col, o)]}
        # plain value: must fit the positional comparison
        if pos is None:
            return self.argv(col, r.chance(0.4))
        if pos == "match":
            return {"v": self.matcharg(col)}
        return self.ordarg(col, pos)

    def ordarg(self, col, o):
        """value for operator o; order comparisons *with* Missing / None say nothing (see assumptions) and are left out"""
        a = self.argv(col, o in ("in", "!in"))
        while o in ("<", "<=", ">", ">=") and a["v"][0] in ("m", "n"):
            a = self.argv(col, False)
        return a

    def matcharg(self, col):
        r = self.r
        # numbers come as int and as float: 1 and 1.0 are equal but format to different patterns ('1' / '1.0', the dot unescaped)
        if self.kind[col] in ("int", "num") and r.chance(0.6):
            return r.choice([["i", 0], ["i", 1], ["i", 2], ["i", 3], ["i", 12], ["f", 1, 1], ["f", 2, 1], ["f", 1, 2], ["f", 0, 1]])
        return r.choice([["s", "a"], ["s", "b"], ["s", "ab"], ["s", "1"], ["s", "2"], ["s", ""], ["i", 1], ["i", 12], ["s", "on"],
                         ["i", 1], ["f", 1, 1], ["i", 2], ["f", 2, 1], ["f", 12, 1], ["i", 10], ["f", 10, 1], ["i", 0], ["f", 0, 1]])

    def where(self, t, cols, idx):
        r = self.r
        if r.chance(0.07) and cols:
            c = r.choice(cols)
            p = {"cell": [c, self.cellpred(c)]}
            if r.chance(0.3):
                c2 = r.choice(cols)
                p = {r.choice(["or", "and"]): [p, {"cell": [c2, self.cellpred(c2)]}]}
            return {"op": "where", "t": t, "pred": p, "pos": None, "kws": []}
        pos = r.choice(OPS) if r.chance(0.25) else None
        nk = r.wchoice([(7, 1), (3, 2), (1, 3)])
        # favour indexed columns
        pool = list(cols)
        ks = []
        for _ in range(min(nk, len(pool))):
            c = r.choice([c for c in idx if c in pool]) if idx and r.chance(0.6) and any(c in pool for c in idx) else r.choice(pool)
            pool.remove(c)
            ks.append(c)
        kws = []
        leaked = None          # operator of the last {op: value} argument: the pinned code applies it to later plain arguments too
        for c in ks:
            a = self.kwarg(c, pos)
            if leaked is not None and "d" not in a and "f" not in a:
                # keep the value shape meaningful under both readings (the model does not mirror `cell < [..]` & co.)
                want = pos or ("=" if "v" in a else "in")
                if leaked == "match":
                    a = {"v": self.matcharg(c)} if want not in ("in", "!in") else {"d": ["in", a]}
                elif (leaked in ("in", "!in")) != (want in ("in", "!in")) or want == "match":
                    a = {"d": [want, a]}
            if "d" in a:
                leaked = a["d"][0]
            kws.append([c, a])
        return {"op": "where", "t": t, "pred": None, "pos": pos, "kws": kws}

    def case(self, nops=None):
        r = self.r
        cols = list(COLS[:self.ncols])
        if r.chance(0.15):
            cols = r.shuffle(cols)
        n0 = r.choice([0, 1, 2, 3, 4, 5, 6, 7, 8, 10, 12, 12])
        x = r.below(10)
        if r.chance(0.1):
            # a table created without columns (Table() / Table(columns=[])): the first insert brings them, several at once
            init = {"kind": "columns", "columns": []}
            if r.chance(0.5):
                init["bare"] = True
            op, cols = self.insert(0, [], None)
            ops = [op]
        elif x < 6:
            init = {"kind": "columns", "columns": cols}
            ops = []
            if n0:
                ops.append({"op": "insert", "t": 0, "shape": "rows", "rows": [[self.cell(c, True) for c in cols] for _ in range(n0)]})
        elif x < 8:
            init = {"kind": "coldict", "data": [[c, [self.cell(c, True) for _ in range(n0)]] for c in cols]}
            ops = []
        else:
            init = {"kind": "coldict_cols", "data": [[c, [self.cell(c, True) for _ in range(n0)]] for c in r.shuffle(cols)], "columns": cols}
            ops = []
        # table bookkeeping for the generator: columns, indexes (approximate), view?, usable?
        tabs = [{"cols": list(cols), "idx": [], "view": False, "data": 0, "dead": False}]
        nops = nops if nops is not None else r.choice([1, 2, 3, 4, 6, 8, 10])
        if n0 == 0 and r.chance(0.5):
            pass
        for _ in range(nops):
            live = [i for i, t in enumerate(tabs) if not t["dead"]]
            if not live:
                break
            bases = [i for i in live if not tabs[i]["view"]]
            if bases and r.chance(0.55):
                ti = r.choice(bases)
            else:
                ti = r.choice(live[-3:]) if r.chance(0.5) else r.choice(live)
            t = tabs[ti]
            x = r.below(100)
            if t["view"]:
                x = 40 + x * 60 // 100          # no mutation of views
            if x < 14:
                op, newcols = self.insert(ti, t["cols"], None)
                if len(t["idx"]) >= 2 and op["shape"] == "rows" and all(c in t["cols"] for c in t["idx"]) and r.chance(0.2):
                    # "sandwich": the first and the last new row agree on the leading index columns, a row in between does not, and the
                    # last index column alone is non-decreasing: only a look at every new row sees that the rows are out of order
                    while len(op["rows"]) < 3:
                        op["rows"].append(self.row(t["cols"]))
                    m = r.below(len(op["rows"]) - 2) + 1
                    for lead in t["idx"][:-1]:
                        k = t["cols"].index(lead)
                        v = self.cell(lead)
                        w = self.cell(lead)
                        for _ in range(8):
                            if w != v and w[0] not in "nm":
                                break
                            w = self.cell(lead)
                        for j, row in enumerate(op["rows"]):
                            row[k] = list(w if j == m else v)
                    k = t["cols"].index(t["idx"][-1])
                    strs = self.kind[t["idx"][-1]] == "str"
                    for j, row in enumerate(op["rows"]):
                        row[k] = ["s", "a" * (j + 1)] if strs else ["i", j]
                elif len(t["idx"]) >= 2 and r.chance(0.15):
                    # new rows that agree on the leading index columns - with None / Missing there (None == Missing, None < None raises,
                    # Missing > everything): the insert must not take them for an ordinary constant prefix
                    pat = r.choice([[["n"]], [["m"]], [["m"], ["n"]], [["n"], ["m"]], [["i", 1]]])
                    for lead in t["idx"][:-1]:
                        if op["shape"] == "rows" and lead in t["cols"]:
                            k = t["cols"].index(lead)
                            for j, row in enumerate(op["rows"]):
                                row[k] = list(pat[j % len(pat)])
                        elif op["shape"] == "dicts":
                            for j, d in enumerate(op["rows"]):
                                for kv in d:
                                    if kv[0] == lead:
                                        kv[1] = list(pat[j % len(pat)])
                        elif op["shape"] == "cols":
                            for c, vs in op["cols"]:
                                if c == lead:
                                    vs[:] = [list(pat[j % len(pat)]) for j in range(len(vs))]
                ops.append(op)
                t["cols"] = newcols
                if not self.stale:
                    self.taint(tabs, ti)
            elif x < 40:
                k = r.wchoice([(1, 0), (5, 1), (4, 2), (2, 3)])
                pool = list(t["cols"])
                ix = []
                for _ in range(min(k, len(pool))):
                    ix.append(r.choice(pool))
                    if not r.chance(0.06):
                        pool.remove(ix[-1])
                if r.chance(0.05):
                    ix.insert(r.below(len(ix) + 1), "f")
                ops.append({"op": "index", "t": ti, "cols": ix})
                t["idx"] = [c for c in ix if c in t["cols"]]
                if not self.stale:
                    self.taint(tabs, ti)
            elif x < 82:
                if not t["cols"]:
                    continue
                self._live = [(i, list(tabs[i]["cols"])) for i in live]
                self._live = [(ti, list(t["cols"]))] * 2 + self._live       # the table's own columns most often
                ops.append(self.where(ti, t["cols"], t["idx"]))
                tabs.append({"cols": list(t["cols"]), "idx": list(t["idx"]), "view": True, "data": t["data"], "dead": False})
                tw = match_twin(ops[-1])
                if tw is not None and r.chance(0.6):
                    # the same question with the number written the other way (1 / 1.0), on this table or another live one:
                    # every query is answered from its own probe, whatever was asked before in the process
                    same = [i for i in live if tabs[i]["cols"] == t["cols"]]
                    tj = r.choice(same) if r.chance(0.3) else ti
                    ops.append(dict(tw, t=tj))
                    tabs.append({"cols": list(tabs[tj]["cols"]), "idx": list(tabs[tj]["idx"]), "view": True, "data": tabs[tj]["data"], "dead": False})
            elif x < 94:
                if not t["idx"] and r.chance(0.95):
                    continue
                level = r.choice(list(range(len(t["idx"]))) + [len(t["idx"])] * (1 if r.chance(0.1) else 0) or [0])
                sel = r.wchoice([(2, None), (2, "count"), (2, "one"), (5, "many")])
                if sel == "one" and not t["cols"]:
                    sel = None
                elif sel == "one":
                    sel = {"one": r.choice(t["cols"])}
                elif sel == "many":
                    sel = {"many": list(t["cols"])}
                ops.append({"op": "groupby", "t": ti, "level": level, "select": sel})
            else:
                ops.append({"op": "copy", "t": ti})
                tabs.append(dict(t, cols=list(t["cols"]), idx=list(t["idx"])))
        if self.stale:
            return {"init": init, "ops": ops, "stale": True}
        return {"init": init, "ops": ops}

    def stale_script(self):
        """Phase 4: a short history aimed at the stale `_lohis` cache: index (cache warm), optionally a query, an alias (copy or view),
        a mutation through one of the two, then queries on the indexed columns through both."""
        r = self.r
        cols = list(COLS[:max(self.ncols, 2)])
        n0 = r.choice([2, 3, 4, 6, 8])
        ops = [{"op": "insert", "t": 0, "shape": "rows", "rows": [[self.cell(c) for c in cols] for _ in range(n0)]}]
        idx = [cols[0]] if r.chance(0.6) else [cols[0], cols[1]]
        ops.append({"op": "index", "t": 0, "cols": list(idx)})
        tabs = [0]
        nt = 1
        self._live = [(0, list(cols))] * 2
        if r.chance(0.5):
            ops.append(self.where(0, cols, idx)); nt += 1
        if r.chance(0.75):
            ops.append({"op": "copy", "t": 0})
        else:
            ops.append(self.where(0, cols, idx))
        alias = nt
        nt += 1
        is_copy = ops[-1]["op"] == "copy"
        for _ in range(r.choice([1, 1, 2])):
            through = alias if (is_copy and r.chance(0.5)) else 0
            if r.chance(0.7):
                op, _c = self.insert(through, cols, None)
                if op["shape"] != "rows" and r.chance(0.6):
                    op = {"op": "insert", "t": through, "shape": "rows", "rows": [self.row(cols) for _ in range(r.choice([1, 2, 3]))]}
                ops.append(op)
            else:
                ops.append({"op": "index", "t": through, "cols": [r.choice(cols)]})
            for _q in range(r.choice([2, 3, 4])):
                who = r.choice([0, alias])
                if r.chance(0.8):
                    kc = r.choice(idx)
                    o = r.choice(["=", "=", "<", "<=", ">", ">=", "!=", "in"])
                    arg = {"l": [self.probe(kc) for _ in range(r.choice([1, 2]))]} if o == "in" else {"d": [o, {"v": self.probe(kc)}]}
                    ops.append({"op": "where", "t": who, "pred": None, "pos": None, "kws": [[kc, arg]]}); nt += 1
                else:
                    ops.append({"op": "groupby", "t": who, "level": r.below(len(idx)), "select": r.choice([None, "count"])})
        return {"init": {"kind": "columns", "columns": cols}, "ops": ops, "stale": True}

    @staticmethod
    def taint(tabs, ti):
        for i, x in enumerate(tabs):
            if i != ti and x["data"] == tabs[ti]["data"]:
                x["dead"] = True


def mk(cols, rows, *ops):
    """corpus helper: table with the given columns and int/str/None('n')/Missing('m') rows, then ops"""
    def c(v):
        if v is None:
            return ["n"]
        if v == "M":
            return ["m"]
        if isinstance(v, int):
            return ["i", v]
        if isinstance(v, float):
            n, d = v.as_integer_ratio()
            return ["f", n, d]
        return ["s", v]
    first = []
    if rows:
        first = [{"op": "insert", "t": 0, "shape": "rows", "rows": [[c(v) for v in r] for r in rows]}]
    out = []
    for op in ops:
        op = json.loads(json.dumps(op))
        out.append(op)
    return {"init": {"kind": "columns", "columns": list(cols)}, "ops": first + out}


def V(v):
    return {"v": mk("a", [[v]])["ops"][0]["rows"][0][0]}


def L(*vs):
    return {"l": [V(v)["v"] for v in vs]}


def W(t, pos=None, **kw):
    return {"op": "where", "t": t, "pred": None, "pos": pos, "kws": [[k, v] for k, v in kw.items()]}


def IX(t, *cols):
    return {"op": "index", "t": t, "cols": list(cols)}


def plain_snippet(case):
    """the case as a plain script against coba (no harness): prints every table / result"""
    def lit(c):
        t = c[0]
        return {"n": "None", "m": "Missing"}.get(t) or (repr(c[1]) if t in "is" else repr(to_py(c)))

    def av(a):
        if "v" in a:
            return lit(a["v"])
        if "col" in a:
            return "t%d[%r]" % (a["col"][0], a["col"][1])      # the live column of a table
        inner = ", ".join(lit(x) for x in a["l"])
        k = a.get("as", "list")
        if k == "tuple":
            return "(%s,)" % inner if a["l"] else "()"
        if k == "set":
            return "{%s}" % inner if a["l"] else "set()"
        if k == "frozenset":
            return "frozenset([%s])" % inner
        if k == "dictkeys":
            return "dict.fromkeys([%s]).keys()" % inner
        if k == "dictvalues":
            return "dict(enumerate([%s])).values()" % inner
        if k == "deque":
            return "__import__('collections').deque([%s])" % inner
        if k == "iterable":
            return "type('It', (), {'__init__': lambda s, v: setattr(s, 'v', v), '__iter__': lambda s: iter(s.v)})([%s])" % inner
        if k == "range" and as_range([to_py(x) for x in a["l"]]) is not None:
            return repr(as_range([to_py(x) for x in a["l"]]))
        return "[%s]" % inner

    def cp(p, x="c"):
        if "eq" in p:
            return "%s == %s" % (x, lit(p["eq"]))
        if "in" in p:
            return "%s in [%s]" % (x, ", ".join(lit(v) for v in p["in"]))
        if "ismissing" in p:
            return "%s is Missing" % x
        if "isnone" in p:
            return "(%s is None and %s is not Missing)" % (x, x)
        if "const" in p:
            return repr(bool(p["const"]))
        return "not (%s)" % cp(p["not"], x)

    def rp(p, cols):
        if "cell" in p:
            return "(%s)" % cp(p["cell"][1], "r[%d]" % cols.index(p["cell"][0]))
        k = "or" if "or" in p else "and"
        return "(%s %s %s)" % (rp(p[k][0], cols), k, rp(p[k][1], cols))
    out = ["import os, sys; sys.path.insert(0, os.environ.get('COBA_REPO', '/repo'))", "from coba.results.core import Table, Missing", ""]
    init = case["init"]
    if init["kind"] == "columns":
        out.append("t0 = Table(columns=%r)" % (list(init["columns"]),))
    else:
        d = "{%s}" % ", ".join("%r: [%s]" % (c, ", ".join(lit(x) for x in v)) for c, v in init["data"])
        out.append("t0 = Table(%s%s)" % (d, ", columns=%r" % (list(init["columns"]),) if init["kind"] == "coldict_cols" else ""))
    nt = 1
    pl = plan(case)
    for op, p in zip(case["ops"], pl):
        k = op["op"]
        if p["skip"]:
            out.append("# skipped (%s on t%s: target is a view / shares mutated storage / does not exist)" % (k, op.get("t")))
            if p["creates"]:
                nt += 1
            continue
        t = "t%d" % op["t"]
        if k == "insert":
            if op["shape"] == "rows":
                arg = "[%s]" % ", ".join("[%s]" % ", ".join(lit(x) for x in r) for r in op["rows"])
            elif op["shape"] == "dicts":
                arg = "[%s]" % ", ".join("{%s}" % ", ".join("%r: %s" % (c, lit(v)) for c, v in d) for d in op["rows"])
            else:
                arg = "{%s}" % ", ".join("%r: [%s]" % (c, ", ".join(lit(x) for x in v)) for c, v in op["cols"])
            if op.get("own"):
                dn = "data_%d" % len(out)
                out.append("%s = %s" % (dn, arg))
                if op["own"] == "shared":
                    out.append("key = lambda x: repr([(k, type(c).__name__, c) for k, c in (x.items() if isinstance(x, dict) else enumerate(x))])")
                    out.append("seen = {}; %s = %s   # members that read the same are one object" % (
                        dn, "{c: seen.setdefault(key(v), v) for c, v in %s.items()}" % dn if op["shape"] == "cols" else "[seen.setdefault(key(x), x) for x in %s]" % dn))
                arg = dn
            out.append("%s.insert(%s); print(list(%s))" % (t, arg, t) + "".join("; print('t%d now shows', list(t%d))" % (j, j) for j, sib in p.get("aliases", []) if sib))
            if op.get("own"):
                out.append("print('the data given to insert is now', %s)" % arg)
            if op.get("own") == "reuse":
                out.append("[x.clear() for x in (list(%s.values()) if isinstance(%s, dict) else list(%s))]; %s.clear(); print('after the caller emptied its data the table shows', list(%s))" % (arg, arg, arg, arg, t))
        elif k == "index":
            out.append("%s.index(%s); print(%s.indexes, list(%s))" % (t, ", ".join(repr(c) for c in op["cols"]), t, t)
                       + "".join("; print('t%d now shows', t%d.indexes, list(t%d))" % (j, j, j) for j, sib in p.get("aliases", []) if sib))
        elif k == "copy":
            out.append("t%d = %s.copy(); print(list(t%d))" % (nt, t, nt))
            nt += 1
        elif k == "groupby":
            s = op.get("select")
            s = "None" if s is None else repr(s) if isinstance(s, str) else repr(s["one"]) if "one" in s else repr(list(s["many"]))
            out.append("print(list(%s.groupby(%d, %s)))" % (t, op["level"], s))
        elif k == "where":
            def wargs(op, names=None):
                names = names or {}
                args = []
                if op.get("pred"):
                    args.append("lambda r: %s  # r = row in the order of %s.columns" % (rp(op["pred"], _cols_at(case, op)), t))
                elif op.get("pos"):
                    args.append("None")
                if op.get("pos"):
                    args.append(repr(op["pos"]))
                for c, a in op["kws"]:
                    if "f" in a:
                        args.append("%s=lambda c: %s" % (c, cp(a["f"])))
                    elif "d" in a:
                        args.append("%s={%r: %s}" % (c, a["d"][0], names.get(c) or av(a["d"][1])))
                    else:
                        args.append("%s=%s" % (c, names.get(c) or av(a)))
                return ", ".join(args)
            if op.get("pred"):
                out.append("t%d = %s.where(%s\n)" % (nt, t, wargs(op)))
                out.append("print(list(t%d))" % nt)
            else:
                # lists the caller owns get a name so that they can be looked at afterwards; so do tables whose column is the argument
                names, after = {}, []
                for c, a in op["kws"]:
                    inner = a["d"][1] if "d" in a else a
                    if "l" in inner and inner.get("as", "list") == "list" and inner["l"]:
                        names[c] = "probes_%d_%s" % (nt, c)
                        out.append("%s = %s" % (names[c], av(inner)))
                        after.append("print('the list given for %s is now', %s)" % (c, names[c]))
                    if "col" in inner:
                        for tid in sorted({inner["col"][0], op["t"]}):
                            line = "print('t%d now shows', list(t%d))" % (tid, tid)
                            if line not in after:
                                after.append(line)
                out.append("t%d = %s.where(%s); print(list(t%d))" % (nt, t, wargs(op, names), nt))
                out.extend(after)
            tws = match_spellings(op)
            if tws:
                # what Runner.requery_match asks: the number written the other ways, then the first question again
                for tw in tws:
                    out.append("print('the number written another way:', list(%s.where(%s)))" % (t, wargs(tw)))
                out.append("print('the first question again:', list(%s.where(%s)))" % (t, wargs(op)))
            nt += 1
    res = out[:4]
    for line in out[4:]:
        if line.startswith("#"):
            res.append(line)
        else:
            res.append("try:\n    " + line.replace("\n", "\n    ") + "\nexcept Exception as e:\n    print(type(e).__name__, e)")
    return "\n".join(res) + "\n"


def _cols_at(case, op):
    """columns of the target table of `op` (run the case up to there on the real code)"""
    try:
        k = case["ops"].index(op)
        r = Runner({"init": case["init"], "ops": case["ops"][:k] + [{"op": "copy", "t": op["t"]}]}).run()
        return [COLS[i] for i in r.obs[-1]["columns"]]
    except Exception:  # noqa
        return list(COLS)



# ---- translator: the operator table of Table.where / Table._compare, read off the source with `ast`
def extract_ops(repo):
    import ast
    src = open(os.path.join(repo, "coba/results/core.py"), encoding="utf-8").read()
    tree = ast.parse(src)
    table = next(n for n in ast.walk(tree) if isinstance(n, ast.ClassDef) and n.name == "Table")
    fns = {f.name: f for f in table.body if isinstance(f, ast.FunctionDef)}
    cmp_fn, where_fn = fns["_compare"], fns["where"]
    # where(): Literal[...] of `comparison`, and the operators excluded from the bisect branch
    literal = None
    for a in where_fn.args.args:
        if a.arg == "comparison" and a.annotation is not None:
            for n in ast.walk(a.annotation):
                if isinstance(n, ast.Tuple) and all(isinstance(e, ast.Constant) and isinstance(e.value, str) for e in n.elts):
                    literal = [e.value for e in n.elts]
    if literal is None: raise LookupError("Literal[...] annotation of where(comparison=) not found")
    nobisect, guard = [], None
    for n in ast.walk(where_fn):
        if isinstance(n, ast.If) and any(isinstance(m, ast.Attribute) and m.attr == "_indexes" for m in ast.walk(n.test)):
            for c in ast.walk(n.test):
                if isinstance(c, ast.Compare) and isinstance(c.left, ast.Name) and c.left.id == "compare":
                    if len(c.ops) != 1 or not isinstance(c.ops[0], ast.NotEq) or not isinstance(c.comparators[0], ast.Constant):
                        raise ValueError("unexpected test on `compare` in the bisect condition: " + ast.unparse(c))
                    nobisect.append(c.comparators[0].value)
            guard = ast.unparse(n.test)
            break
    if guard is None: raise LookupError("bisect condition of where() not found")
    # _compare(): the keys unpacked from {op: value}
    keys = None
    for n in ast.walk(cmp_fn):
        if isinstance(n, ast.Compare) and isinstance(n.left, ast.Name) and n.left.id == "key" and isinstance(n.ops[0], ast.In):
            keys = [e.value for e in n.comparators[0].elts]
    if keys is None: raise LookupError("`key in [...]` of _compare not found")
    # _compare(): one top-level `if comparison == "<op>" ...:` per operator
    rows = []
    cmpname = {ast.Eq: "Eq", ast.NotEq: "NotEq", ast.Lt: "Lt", ast.LtE: "LtE", ast.Gt: "Gt", ast.GtE: "GtE", ast.In: "In", ast.NotIn: "NotIn"}
    for st in cmp_fn.body:
        if not isinstance(st, ast.If): continue
        op = None
        for c in ast.walk(st.test):
            if (isinstance(c, ast.Compare) and isinstance(c.left, ast.Name) and c.left.id == "comparison" and len(c.ops) == 1
                    and isinstance(c.ops[0], ast.Eq) and isinstance(c.comparators[0], ast.Constant) and isinstance(c.comparators[0].value, str)):
                op = c.comparators[0].value
        if op is None: continue
        inner = [s for s in st.body if isinstance(s, ast.If) and isinstance(s.test, ast.Compare) and isinstance(s.test.left, ast.Name)
                 and s.test.left.id == "method" and isinstance(s.test.comparators[0], ast.Constant) and s.test.comparators[0].value == "bisect"]
        if inner:
            b = inner[0]
            calls = []
            for s in b.body:
                found = [n for n in ast.walk(s) if isinstance(n, ast.Call) and isinstance(n.func, ast.Name) and n.func.id in ("my_bisect_left", "my_bisect_right")]
                found.sort(key=lambda n: (n.lineno, n.col_offset))
                calls += [n.func.id == "my_bisect_right" for n in found]
            scan = b.orelse
        else:
            calls, scan = None, st.body
        comps, guardnone = [], False
        for s in scan:
            for n in ast.walk(s):
                if isinstance(n, ast.ListComp):
                    for cond in n.generators[0].ifs:
                        for c in ast.walk(cond):
                            if isinstance(c, ast.Compare) and isinstance(c.left, ast.Name) and c.left.id == "c" and len(c.ops) == 1:
                                if isinstance(c.ops[0], ast.IsNot) and isinstance(c.comparators[0], ast.Constant) and c.comparators[0].value is None:
                                    guardnone = True
                                elif type(c.ops[0]) in cmpname:
                                    comps.append(cmpname[type(c.ops[0])])
        rows.append((op, calls, comps[0] if len(comps) == 1 else ("Call" if not comps else "+".join(comps)), guardnone))
    return {"literal": literal, "nobisect": nobisect, "keys": keys, "rows": rows, "guard": guard}



def ops_lean(info):
    q = lambda x: '"%s"' % x
    def row(r):
        op, calls, cmp_, guard = r
        cs = "Option.none" if calls is None else "some [%s]" % ", ".join("true" if c else "false" for c in calls)
        return "(%s, %s, %s, %s)" % (q(op), cs, q(cmp_), "true" if guard else "false")
    for x in info["literal"] + info["keys"] + info["nobisect"] + [r[0] for r in info["rows"]] + [r[2] for r in info["rows"]]:
        if not isinstance(x, str) or any(ch in x for ch in '"\\\n'):
            raise ValueError("unexpected operator text %r" % (x,))
    return ("-- GENERATED by harness/props/c17.py (pre_build) from coba/results/core.py on every run; do not edit.\n"
            "namespace Coba.Generated.C17\n"
            "def whereLiteral : List String := [%s]\n"
            "def unpackKeys : List String := [%s]\n"
            "def noBisectOps : List String := [%s]\n"
            "def compareTable : List (String × Option (List Bool) × String × Bool) :=\n  [%s]\n"
            "def extracted : Bool := true\n"
            "end Coba.Generated.C17\n"
            % (", ".join(map(q, info["literal"])), ", ".join(map(q, info["keys"])), ", ".join(map(q, info["nobisect"])),
               ",\n   ".join(row(r) for r in info["rows"])))


# ---- translator (Phase 6): every sort the Table class makes, read off the source with `ast`
def extract_sorts(repo):
    """every `sorted(...)` call and every in-place `.sort(...)` call inside `class Table`, in source order:
    (method it stands in, what is sorted, key, anything else given - `reverse=`, more arguments)"""
    import ast
    src = open(os.path.join(repo, "coba/results/core.py"), encoding="utf-8").read()
    tree = ast.parse(src)
    table = next(n for n in ast.walk(tree) if isinstance(n, ast.ClassDef) and n.name == "Table")
    sites = []
    for fn in table.body:
        if not isinstance(fn, ast.FunctionDef):
            continue
        for n in ast.walk(fn):
            if not isinstance(n, ast.Call):
                continue
            if isinstance(n.func, ast.Name) and n.func.id == "sorted":
                what = ast.unparse(n.args[0]) if n.args else ""
                extra = len(n.args) != 1
            elif isinstance(n.func, ast.Attribute) and n.func.attr == "sort":
                what = "in place: " + ast.unparse(n.func.value)
                extra = len(n.args) != 0
            else:
                continue
            key = "none"
            for kw in n.keywords:
                if kw.arg == "key":
                    v = kw.value
                    if (isinstance(v, ast.Attribute) and v.attr == "__getitem__" and isinstance(v.value, ast.Subscript)
                            and ast.unparse(v.value.value) == "self._data"):
                        key = "cell of column " + ast.unparse(v.value.slice)
                    else:
                        key = ast.unparse(v)
                elif not (kw.arg == "reverse" and isinstance(kw.value, ast.Constant) and kw.value.value is False):
                    extra = True        # (`reverse=False` says what the default says)
            sites.append((n.lineno, n.col_offset, fn.name, what, key, extra))
    sites.sort()
    return [x[2:] for x in sites]


def sorts_lean(sites, err=None):
    q = lambda x: '"%s"' % x.replace("\\", "\\\\").replace('"', '\\"')
    return ("-- GENERATED by harness/props/c17.py (pre_build) from coba/results/core.py on every run; do not edit.\n"
            + ("-- the sort calls could not be read off the source (%s)\n" % err if err else "")
            + "namespace Coba.Generated.C17\n"
            "/-- every `sorted(...)` / `.sort(...)` call of `class Table`, in source order: (method, what is sorted, key, `reverse=` or other arguments given) -/\n"
            "def sortSites : List (String × String × String × Bool) :=\n  [%s]\n"
            "def sortSitesExtracted : Bool := %s\n"
            "end Coba.Generated.C17\n"
            % (",\n   ".join("(%s, %s, %s, %s)" % (q(m), q(w), q(k), "true" if e else "false") for m, w, k, e in sites), "false" if err else "true"))


# ---- round g: cells of the library's own value types (HashableDense / HashableSparse / Categorical), (B) only
# case = {"vt": {"type": "dense"|"sparse"|"cat", "build": how the CELLS are built, "cells": [...], "probes": [...],
#                "container": "list"|"tuple"|"set"|"frozenset"|"dictkeys", "op": "bare"|"in"|"!in"|"=" , "indexed": bool}}
# Expected answer: the plain row-by-row evaluation with == (any(cell == v for v in values)); nothing is hashed.

def vt_value(kind, build, spec):
    from coba.primitives import HashableDense, HashableSparse, Categorical
    if kind == "dense":
        if build == "map":   return HashableDense(map(int, list(spec)))          # one-shot iterator, as a parser would hand it over
        if build == "gen":   return HashableDense((x for x in spec))
        if build == "list":  return HashableDense(list(spec))
        return HashableDense(tuple(spec))
    if kind == "sparse":
        return HashableSparse(dict((k, v) for k, v in spec))                     # explicit zeros are kept by the spec
    if kind == "cat":
        return Categorical(spec[0], list(spec[1]))
    raise ValueError(kind)

def vt_container(flavour, values):
    if flavour == "list": return list(values)
    if flavour == "tuple": return tuple(values)
    if flavour == "set": return set(values)
    if flavour == "frozenset": return frozenset(values)
    if flavour == "dictkeys": return dict.fromkeys(values).keys()
    raise ValueError(flavour)

def vt_eval(case):
    v = case["vt"]
    from coba.results import Table
    kind, op, flavour = v["type"], v["op"], v["container"]
    sig = "where-value-types:%s:%s:%s:%s:%s" % (kind, v["build"], flavour, op, "indexed" if v["indexed"] else "scan")
    tags = ["vt:" + kind, "vt:build:" + v["build"], "vt:container:" + flavour, "vt:op:" + op, "vt:" + ("indexed" if v["indexed"] else "scan")]
    fails = []
    try:
        cells = [vt_value(kind, v["build"], c) for c in v["cells"]]
        probes = [vt_value(kind, "tuple", c) for c in v["probes"]]
        table = Table(columns=["x", "n"]).insert([[c, i] for i, c in enumerate(cells)])
        if v["indexed"]:
            table.index("x")
        rows = list(table)
        hit = lambda r: any(r[0] == w for w in probes)
        if op == "=":
            arg, expect = {"=": probes[0]}, [r for r in rows if r[0] == probes[0]]
        elif op == "!in":
            arg, expect = {"!in": vt_container(flavour, probes)}, [r for r in rows if not hit(r)]
        elif op == "in":
            arg, expect = {"in": vt_container(flavour, probes)}, [r for r in rows if hit(r)]
        else:
            arg, expect = vt_container(flavour, probes), [r for r in rows if hit(r)]
        got = list(table.where(x=arg))
        same = len(got) == len(expect) and all(a[1] == b[1] and a[0] == b[0] for a, b in zip(got, expect))
        if not same:
            fails.append(F("B", "cells %s built by %s, %s table: where(x=%s) with the values %r in a %s returns the rows n=%r; the plain row-by-row evaluation with == gives n=%r"
                           % (kind, v["build"], "indexed" if v["indexed"] else "unindexed", op if op == "bare" else "{%r: ...}" % op, v["probes"], flavour,
                              [r[1] for r in got], [r[1] for r in expect]), sig))
        # the same value must be found whichever way the cell was built: a cell equals its probe iff their specs are equal up to the type's ==
        nontrivial = 0 < len(expect) < len(rows)
    except Exception as e:
        fails.append(F("B", "value-type case %s raised %s: %s" % (json.dumps(v)[:300], type(e).__name__, e), sig + ":raised"))
        nontrivial = False
    return {"fails": fails, "nontrivial": nontrivial, "tags": tags, "impl": None, "model": None}

def vt_snippet(case):
    v = case["vt"]
    return ("from coba.primitives import HashableDense, HashableSparse, Categorical\nfrom coba.results import Table\n"
            "# cells of type %s built by %r: %r\n# probes %r in a %s, operator %s, %s column\n"
            "# expected: rows r with any(r[0] == v for v in probes) (row by row, ==); see harness/props/c17.py vt_eval\n"
            "import sys; sys.path.insert(0, 'harness'); from props.c17 import vt_eval\nprint(vt_eval(%r)['fails'])\n"
            % (v["type"], v["build"], v["cells"], v["probes"], v["container"], v["op"], "indexed" if v["indexed"] else "unindexed", case))

def vt_corpus():
    cs = []
    dense_cells = [[1, 0, 0], [0, 1, 0], [0, 0, 1], [0, 1, 0], [1, 0, 0], []]
    dense_probes = [[[0, 1, 0], [0, 0, 1]], [[1, 0, 0]], [[9, 9]], [[]]]
    sparse_cells = [[["a", 1]], [["a", 1], ["b", 0]], [["b", 2]], [["b", 2], ["c", 0.0]], [["a", 1], ["b", 2]], []]
    sparse_probes = [[[["a", 1]]], [[["b", 2]], [["a", 1], ["b", 2]]], [[["z", 9]]], [[["a", 1], ["b", 0]]]]
    cat_cells = [["x", ["x", "y", "z"]], ["y", ["x", "y", "z"]], ["z", ["x", "y", "z"]], ["y", ["x", "y", "z"]]]
    cat_probes = [[["y", ["x", "y", "z"]]], [["x", ["x", "y"]], ["z", ["z"]]], [["q", ["q"]]]]
    for flavour in ("set", "frozenset", "list", "tuple", "dictkeys"):
        for op in ("bare", "in", "!in"):
            for indexed in (False, True):
                for build in ("map", "gen", "list", "tuple"):
                    for pr in dense_probes:
                        cs.append({"vt": {"type": "dense", "build": build, "cells": dense_cells, "probes": pr, "container": flavour, "op": op, "indexed": indexed}})
                for pr in cat_probes:
                    cs.append({"vt": {"type": "cat", "build": "new", "cells": cat_cells, "probes": pr, "container": flavour, "op": op, "indexed": indexed}})
            for pr in sparse_probes:      # HashableSparse has no order: unindexed only
                cs.append({"vt": {"type": "sparse", "build": "dict", "cells": sparse_cells, "probes": pr, "container": flavour, "op": op, "indexed": False}})
    for pr in dense_probes:
        for build in ("map", "tuple"):
            for indexed in (False, True):
                cs.append({"vt": {"type": "dense", "build": build, "cells": dense_cells, "probes": pr[:1], "container": "list", "op": "=", "indexed": indexed}})
    for pr in sparse_probes:
        cs.append({"vt": {"type": "sparse", "build": "dict", "cells": sparse_cells, "probes": pr[:1], "container": "list", "op": "=", "indexed": False}})
    return cs


# ---------------------------------------------------------------- Phase 5: `sorted()` as a comparison sort (pySortedE = pySorted)
# case = {"sort": {"cells": [cell, ...]}}: the cells are sorted three ways by the REAL code - `sorted(cells)`,
# `sorted(range(n), key=cells.__getitem__)` (what Table.index / _in_index_order call) and `Table.index` on a one-column-plus-row-id
# table - and by the Lean driver twice: the insertion sort with the raising `<` (`pySortedE` / `pySortedByE`) and the specification-level
# `pySorted` / `pySortedBy` (theorems sorted_comparison_sort_eq, sortedBy_comparison_sort_eq, sorted_raises_iff).
SORT_ALPHABET = [["i", 1], ["f", 1, 1], ["i", 2], ["s", "a"], ["s", "b"], ["n"], ["m"]]


def sort_exact(v):
    return from_py(v)


def sort_eval(case, driver):
    cells = case["sort"]["cells"]
    py = [to_py(c) for c in cells]
    n = len(py)
    fails, tags = [], ["sort:len:%d" % min(n, 9)]
    miss = sum(1 for v in py if is_missing(v))
    if miss:
        tags.append("sort:with-missing")
    # --- the real code
    try:
        real = {"ok": [sort_exact(v) for v in sorted(py)]}
    except TypeError:
        real = {"err": "TypeError"}
    try:
        real_by = {"ok": sorted(range(n), key=py.__getitem__)}
    except TypeError:
        real_by = {"err": "TypeError"}
    tags.append("sort:ok" if "ok" in real else "sort:TypeError")
    # does the plain pairwise reading say "two members cannot be compared"?
    bad_pairs = []
    for i in range(n):
        for j in range(i + 1, n):
            try:
                n_lt(py[i], py[j])
            except Undefined:
                bad_pairs.append((i, j))
    if bad_pairs and all(j - i > 1 for i, j in bad_pairs):
        tags.append("sort:incomparable-never-neighbours")
    if "ok" in real_by and any(n_eq(py[i], py[j]) and type(py[i]) is not type(py[j]) for i in range(n) for j in range(i + 1, n)):
        tags.append("sort:int-float-tie")
    # (B) at the level of the statement ("indexing reorders rows without adding, dropping or altering any"): Table.index on these cells
    table_obs = None
    if not any(v is None for v in py) and n > 0:
        core = _core()
        t = core.Table(columns=["a", "r"]).insert([[v, i] for i, v in enumerate(py)])
        try:
            t.index("a")
            rows = [tuple(r) for r in t]
            table_obs = {"ok": [r[1] for r in rows]}
            tags.append("sort:index:ok")
            if sorted(r[1] for r in rows) != list(range(n)) or any(not (type(rows[k][0]) is type(py[rows[k][1]]) and n_eq(rows[k][0], py[rows[k][1]])) for k in range(len(rows))):
                fails.append(F("B", "Table(columns=['a','r']).insert(%r).index('a') shows the rows %r: not a rearrangement of the inserted rows" % ([[v, i] for i, v in enumerate(py)], rows), "index-sort:rows-altered"))
            else:
                for k in range(1, len(rows)):
                    try:
                        if n_lt(rows[k][0], rows[k - 1][0]):
                            fails.append(F("B", "Table(columns=['a','r']).insert(%r).index('a') shows %r: row %d is smaller than the row before it" % ([[v, i] for i, v in enumerate(py)], rows, k), "index-sort:not-sorted"))
                            break
                    except Undefined:
                        pass
        except TypeError:
            table_obs = {"err": "TypeError"}
            tags.append("sort:index:TypeError")
            if not bad_pairs:
                fails.append(F("B", "Table(columns=['a','r']).insert(%r).index('a') raises TypeError although every two cells can be compared" % ([[v, i] for i, v in enumerate(py)],), "index-sort:raised:TypeError"))
        except Exception as e:
            table_obs = {"err": errname(e)}
            fails.append(F("B", "Table(columns=['a','r']).insert(%r).index('a') raises %r" % ([[v, i] for i, v in enumerate(py)], e), "index-sort:raised:" + errname(e)))
    impl = {"sorted": real, "sorted_by": real_by, "index": table_obs}
    model = None
    if driver is not None:
        model = driver.ask({"sort": cells})
        for name, r, sig in (("sortE", real, "A:sorted:comparison-sort"), ("spec", real, "A:sorted:pySorted"),
                             ("sortByE", real_by, "A:sorted-by:comparison-sort"), ("specBy", real_by, "A:sorted-by:pySortedBy")):
            if model[name] != r:
                fails.append(F("A", "sorted on %r: the real code gives %s, the model's %s gives %s" % (py, json.dumps(r)[:200], name, json.dumps(model[name])[:200]), sig))
        if model["sortE"] != model["spec"] or model["sortByE"] != model["specBy"]:
            fails.append(F("C", "the comparison sort and the specification-level sorted differ on %r although sorted_comparison_sort_eq is proved" % (py,), "C:sorted_comparison_sort_eq"))
        if table_obs is not None and table_obs != model["sortByE"]:
            fails.append(F("A", "Table.index('a') on cells %r gives the row order %s, the comparison sort of the model %s" % (py, json.dumps(table_obs)[:200], json.dumps(model["sortByE"])[:200]), "A:index:comparison-sort"))
        if ("err" in model["sortE"]) != bool(bad_pairs):
            fails.append(F("C", "sorted_raises_iff: the comparison sort %s on %r, pairs that cannot be compared: %r" % ("raises" if "err" in model["sortE"] else "succeeds", py, bad_pairs), "C:sorted_raises_iff"))
    return {"fails": fails, "nontrivial": n >= 2, "tags": tags, "impl": impl, "model": model}


def sort_snippet(case):
    return ("from coba.results.core import Table, Missing\n"
            "cells = %s\n"
            "try: print(sorted(cells), sorted(range(len(cells)), key=cells.__getitem__))\nexcept TypeError as e: print('TypeError', e)\n"
            "try: print(list(Table(columns=['a','r']).insert([[v,i] for i,v in enumerate(cells)]).index('a')))\nexcept TypeError as e: print('TypeError', e)\n"
            % ("[" + ", ".join("Missing" if c == ["m"] else repr(to_py(c)) for c in case["sort"]["cells"]) + "]"))


def sort_corpus(maxlen=3):
    """every list of <= maxlen cells over 1, 1.0, 2, 'a', 'b', None, Missing"""
    import itertools
    out = []
    for n in range(maxlen + 1):
        for combo in itertools.product(SORT_ALPHABET, repeat=n):
            out.append({"sort": {"cells": [list(c) for c in combo]}})
    # longer shapes: runs, Missing between the classes, ties, the shapes CPython's run detection / binary insertion / merging treat differently
    I = lambda *v: [["i", x] for x in v]
    M, A, B, H = ["m"], ["s", "a"], ["s", "b"], ["f", 1, 2]
    for cells in ([*I(3, 2, 1, 0), M, *I(4, 4)], [*I(0, 1, 2, 3), A], [A, *I(0, 1, 2, 3)], [*I(0, 1), M, M, M, A], [M, M, M], [M, *I(1), M, A, M],
                  [*I(2, 1), ["f", 2, 1], ["f", 1, 1], *I(2, 1)], [B, A, ["s", ""], ["s", "ab"], B, A], [*I(5, 4, 3, 2, 1, 0, 9, 8, 7), M, *I(6)], [M, *I(1), M, *I(0), M],
                  [*I(1), M, *I(2), M, A], [*I(1, 2), M, ["n"]], [["n"], M], [M, ["n"]], [M, ["n"], M, ["n"]], [H, *I(0), H, *I(1), ["f", 0, 1]],
                  [*I(*range(40))], [*I(*range(40, 0, -1))], [*I(*range(20)), M, *I(*range(20))], [*I(*range(35)), A], [A, M] + I(*range(35)), [*I(*range(33)), M, A]):
        out.append({"sort": {"cells": [list(c) for c in cells]}})
    return out


def sort_generate(rng):
    """4 % of the generated cases: 0-12 cells; one class with ties / one class with Missing anywhere / two classes, side by side or kept apart by Missing / None"""
    nums = [["i", k] for k in range(5)] + [["f", k, 2] for k in range(6)] + [["f", 1, 1], ["f", 2, 1]]
    strs = [["s", x] for x in ("a", "b", "ab", "ba", "", "1")]
    shape = rng.choice(["num", "num", "str", "num+m", "num+m", "str+m", "two", "two+m", "two+m", "none", "any"])
    n = rng.choice([0, 1, 2, 2, 3, 3, 4, 5, 6, 8, 12])
    if shape in ("num", "num+m"):
        cells = [rng.choice(nums) for _ in range(n)]
    elif shape in ("str", "str+m"):
        cells = [rng.choice(strs) for _ in range(n)]
    elif shape in ("two", "two+m"):
        k = rng.choice(list(range(n + 1)))
        cells = [rng.choice(nums) for _ in range(k)] + [rng.choice(strs) for _ in range(n - k)]
        if rng.chance(0.3):
            cells = cells[::-1]
    elif shape == "none":
        cells = [rng.choice(nums + [["n"]]) for _ in range(n)]
    else:
        cells = [rng.choice(nums + strs + [["n"], ["m"]]) for _ in range(n)]
    if shape.endswith("+m"):
        for _ in range(rng.choice([1, 1, 2, 3])):
            cells.insert(rng.choice(list(range(len(cells) + 1))), ["m"])
    return {"sort": {"cells": [list(c) for c in cells]}}



# ---------------------------------------------------------------- round h: library callers of a Table leave it answering like a scan
# case = {"lib": {"caller": name, "index": [columns], "data": 0|1|2}}: a Result is built, the CALLER OF THE LIBRARY re-indexes result.interactions
# by its own column order, hands the Result to one public library function that only reads it, and afterwards every indexed query / groupby
# of the caller's table must still be what a scan of its rows gives ((B) only; deterministic corpus family).
LIB_IDS = ["environment_id", "learner_id", "evaluator_id", "index"]
LIB_INDEXES = [["learner_id", "environment_id", "evaluator_id", "index"], ["evaluator_id", "learner_id", "environment_id", "index"],
               ["index", "environment_id", "learner_id", "evaluator_id"], ["environment_id", "learner_id", "evaluator_id", "index"],
               ["learner_id", "index"], ["learner_id"], ["reward", "learner_id"], ["environment_id", "index", "learner_id"], []]


def lib_result(variant):
    from coba.results import Result
    envs = [["environment_id", "env_type"], [0, "A"], [1, "B"], [2, "C"]]
    lrns = [["learner_id", "family", "full_name"], [0, "x", "x0"], [1, "y", "y1"]] + ([[2, "x", "x2"]] if variant == 2 else [])
    vals = [["evaluator_id", "eval_type"], [0, "z"]] + ([[1, "w"]] if variant >= 1 else [])
    ints = [["environment_id", "learner_id", "evaluator_id", "index", "action", "reward"]]
    L = (0, 1, 2) if variant == 2 else (0, 1)
    V = (0, 1) if variant >= 1 else (0,)
    N = (1, 2, 3) if variant == 2 else (1, 2)
    ints += [[e, l, v, i, (e + l + i) % 2, float((e * l + i + v) % 3)] for e in (0, 1, 2) for l in L for v in V for i in N]
    return Result(envs, lrns, vals, ints)


def _touch(r):
    t = getattr(r, "interactions", None)
    if t is not None:
        list(t); list(t.where(learner_id=0)); list(t.groupby(0, "count")) if t.indexes else None
    return r


LIB_CALLERS = {
    "Environments.from_result": lambda r: [e.params for e in __import__("coba.environments", fromlist=["Environments"]).Environments.from_result(r)],
    "Result.copy": lambda r: _touch(r.copy()),
    "Result.copy+where": lambda r: list(r.copy().interactions.where(learner_id={"<=": 0}, reward={">": 0.5})),
    "Result.filter_fin": lambda r: _touch(r.filter_fin()),
    "Result.filter_fin(2)": lambda r: _touch(r.filter_fin(2)),
    "Result.filter_fin(1,l,p)": lambda r: _touch(r.filter_fin(1, "learner_id", "environment_id")),
    "Result.filter_env": lambda r: _touch(r.filter_env(environment_id=[0, 2])),
    "Result.filter_lrn": lambda r: _touch(r.filter_lrn(learner_id=1)),
    "Result.filter_val": lambda r: _touch(r.filter_val(evaluator_id=0)),
    "Result.filter_int": lambda r: _touch(r.filter_int(index={"<=": 1})),
    "Result.filter_best": lambda r: _touch(r.filter_best("family", "environment_id")),
    "Result.where": lambda r: _touch(r.where(learner_id=0, env_type=["A", "B"])),
    "Result.where(index)": lambda r: _touch(r.where(index=2)),
    "Result.where_fin": lambda r: _touch(r.where_fin(1)),
    "Result.where_best": lambda r: _touch(r.where_best("family", "environment_id")),
    "Result.raw_learners": lambda r: list(r.raw_learners()),
    "Result.raw_learners(x)": lambda r: list(r.raw_learners(x="environment_id", l="family")),
    "Result.raw_contrast": lambda r: list(r.raw_contrast(0, 1)),
    "Result.learners/environments/evaluators": lambda r: (list(r.learners), list(r.environments.where(env_type="A")), list(r.evaluators), r.interactions.to_dicts()),
}


def lib_scan_check(table, caller, say):
    """every indexed query / groupby of `table` against a full scan of list(table); returns the list of F"""
    fails = []
    cols, rows, idx = list(table.columns), [tuple(r) for r in table], list(table.indexes)
    pos = {c: k for k, c in enumerate(cols)}
    keys = [tuple(r[pos[c]] for c in idx) for r in rows]
    if keys != sorted(keys):
        fails.append(F("B", "%s: the table claims the index %r but its rows are not in that order: %r" % (say, idx, rows[:12]), "library-caller:%s:rows-out-of-claimed-index-order" % caller))
    import operator
    OPS = [("=", operator.eq), ("!=", operator.ne), ("<", operator.lt), ("<=", operator.le), (">", operator.gt), (">=", operator.ge)]
    done = False
    for c in idx:
        vals = sorted(set(r[pos[c]] for r in rows))
        for v in vals + ([vals[0] - 1, vals[-1] + 1] if vals else [0]):
            for op, f in OPS + [("in", None), ("!in", None)]:
                arg = [v, v + 7] if f is None else v
                got = [tuple(r) for r in table.where(**{c: {op: arg}})]
                exp = [r for r in rows if (f(r[pos[c]], v) if f else ((r[pos[c]] in arg) == (op == "in")))]
                if got != exp and not done:
                    done = True
                    fails.append(F("B", "%s: where(%s={%r: %r}) on the table indexed by %r returns %r; a scan of its rows gives %r" % (say, c, op, arg, idx, got[:8], exp[:8]),
                                   "library-caller:%s:where-differs-from-scan" % caller))
    for level in range(0, len(idx)):
        exp = {}
        for k in keys:
            exp[k[:level]] = exp.get(k[:level], 0) + 1
        got = [(tuple(k) if isinstance(k, (tuple, list)) else (k,), n) for k, n in table.groupby(level, "count")]
        if got != sorted(exp.items()):
            fails.append(F("B", "%s: groupby(%d,'count') on the table indexed by %r gives %r; its rows say %r" % (say, level, idx, got[:8], sorted(exp.items())[:8]),
                           "library-caller:%s:groupby-differs-from-partition" % caller))
            break
    return fails


def lib_eval(case):
    c = case["lib"]
    caller, index = c["caller"], c["index"]
    result = lib_result(c["data"])
    table = result.interactions.index(*index) if index else result.interactions
    claimed = list(table.indexes)
    before = sorted(tuple(r) for r in table)
    say0 = "lib_result(%d).interactions.index(%s)" % (c["data"], ", ".join(map(repr, index)))
    tags = ["lib:caller:" + caller, "lib:index:" + ("default" if index == LIB_IDS else "none" if not index else "%d-level:%s" % (len(index), index[0]))]
    fails = lib_scan_check(table, "none-yet", say0 + " before any library call")
    if fails:
        return {"fails": fails, "nontrivial": True, "tags": tags, "impl": None, "model": None}
    try:
        import contextlib, io
        with contextlib.redirect_stdout(io.StringIO()):     # the filters report what they dropped through print
            LIB_CALLERS[caller](result)
        tags.append("lib:returned")
    except Exception as e:
        tags.append("lib:raised:" + errname(e))
    say = "%s, then %s(result)" % (say0, caller)
    if sorted(tuple(r) for r in table) != before:
        fails.append(F("B", "%s: the caller's table no longer holds the rows it held (rows added, dropped or altered)" % say, "library-caller:%s:rows-changed" % caller))
    fails += lib_scan_check(table, caller, say)
    tags.append("lib:index-kept" if list(table.indexes) == claimed else "lib:index-changed-by-library")
    return {"fails": fails, "nontrivial": bool(index), "tags": tags, "impl": {"indexes": list(table.indexes), "rows": len(before)}, "model": None}


# ---- round i (im2): what Environments.from_result DELIVERS for every group of the interactions table vs a plain scan of it
# case = {"fromres": {"shift": k}}: groups (environment, learner, evaluator) of 3-4 rows; the columns `note` / `extra` / `reward` are
# Missing on the first row of a group only, on the last only, in the middle, on every row of a group, on none - which group gets
# which pattern is rotated by k.  (B) only.
FROMRES_PATTERNS = ["first", "last", "middle", "all", "none", "first-two", "all-but-first"]


def fromres_result(shift):
    from coba.results import Result, Table, Missing
    groups = [(e, l, v) for e in (0, 1) for l in (0, 1) for v in ((0, 1) if e == 1 else (0,))]
    rows = []
    for g, (e, l, v) in enumerate(groups):
        n = 3 + (g + shift) % 2
        def cell(pattern, i, value):
            gone = {"first": i == 0, "last": i == n - 1, "middle": 0 < i < n - 1, "all": True, "none": False, "first-two": i < 2, "all-but-first": i > 0}[pattern]
            return Missing if gone else value
        pn = FROMRES_PATTERNS[(g + shift) % len(FROMRES_PATTERNS)]
        px = FROMRES_PATTERNS[(2 * g + shift + 3) % len(FROMRES_PATTERNS)]
        pr = "first" if shift >= 4 and (g + shift) % 3 == 0 else "none"      # (a group without any reward makes from_result raise)
        for i in range(n):
            rows.append([e, l, v, i + 1, (e + l + i) % 2, cell(pr, i, float((e * l + i + v) % 3)), cell(pn, i, "n%d%d" % (g, i)), cell(px, i, 10 * g + i)])
    ints = Table(columns=["environment_id", "learner_id", "evaluator_id", "index", "action", "reward", "note", "extra"]).insert(rows)
    envs = Table(columns=["environment_id", "e"]).insert([[k, 100 + k] for k in (0, 1)])
    lrns = Table(columns=["learner_id", "l"]).insert([[k, 200 + k] for k in (0, 1)])
    vals = Table(columns=["evaluator_id", "v"]).insert([[k, 300 + k] for k in (0, 1)])
    return Result(envs, lrns, vals, ints)


def fromres_eval(case):
    from coba.results import Missing
    from coba.environments import Environments
    shift = case["fromres"]["shift"]
    fails, tags = [], ["fromres:shift:%d" % shift]
    try:
        result = fromres_result(shift)
        table = result.interactions
        hdrs = list(table.columns[4:])
        scan = {}
        for row in table:                                   # the full scan: every row of the group, with the cells that hold a value
            scan.setdefault((row[0], row[1], row[2]), []).append({h: c for h, c in zip(hdrs, row[4:]) if c is not Missing})
        got = {}
        for env in Environments.from_result(result):
            p = env.params
            key = (p["e"] - 100, p["l"] - 200, p["v"] - 300)
            got.setdefault(key, []).extend({h: c for h, c in dict(i).items() if c is not Missing} for i in env.read())
        for key in sorted(set(scan) | set(got)):
            if scan.get(key) != got.get(key):
                fails.append(F("B", "fromres_result(%d): for the group (environment, learner, evaluator) = %r Environments.from_result delivers %r; a scan of result.interactions gives %r"
                               % (shift, key, got.get(key), scan.get(key)), "library-caller:Environments.from_result:delivers-other-rows-than-a-scan"))
                break
        tags.append("fromres:groups:%d" % len(scan))
    except Exception as e:  # noqa
        fails.append(F("B", "fromres_result(%d) / Environments.from_result raised %s: %s" % (shift, type(e).__name__, e), "library-caller:Environments.from_result:raised:" + errname(e)))
    return {"fails": fails, "nontrivial": True, "tags": tags, "impl": None, "model": None}


def fromres_snippet(case):
    return ("# harness/props/c17.py: fromres_result / fromres_eval\nimport sys; sys.path.insert(0, 'harness')\nfrom props import c17\n"
            "print(c17.fromres_eval(%r)['fails'])\n" % (case,))


def fromres_corpus():
    return [{"fromres": {"shift": k}} for k in range(len(FROMRES_PATTERNS))]


def lib_snippet(case):
    c = case["lib"]
    return ("# harness/props/c17.py: lib_result / LIB_CALLERS / lib_scan_check\nimport sys; sys.path.insert(0, 'harness')\nfrom props import c17\n"
            "print(c17.lib_eval(%r)['fails'])\n" % (case,))


def lib_corpus():
    out = []
    for caller in LIB_CALLERS:
        for k, index in enumerate(LIB_INDEXES):
            out.append({"lib": {"caller": caller, "index": index, "data": (k + len(caller)) % 3}})
    return out


def own_corpus():
    """Phase 6, deterministic: histories insert, query, insert, query, index, query, insert, groupby, query in which the data given
    to insert stays the caller's - members that are one object (the same row / dict twice, one list as two columns) and data
    the caller empties right after the call - on column-less, empty, filled and indexed tables, for the three shapes of insert"""
    def I(v):
        return ["i", v]
    cs = []
    for init in ("bare", "nocols", "empty", "rows", "ix1", "ix2"):
        for sh in ("rows", "dicts", "cols"):
            if sh == "rows" and init in ("bare", "nocols"):
                continue
            for own in ("reuse", "shared"):
                def ins(vals, names):
                    if sh == "rows":
                        return {"op": "insert", "t": 0, "shape": "rows", "rows": [[I(v) for v in r] for r in vals], "own": own}
                    if sh == "dicts":
                        return {"op": "insert", "t": 0, "shape": "dicts", "rows": [[[c, I(v)] for c, v in zip(names, r)] for r in vals], "own": own}
                    return {"op": "insert", "t": 0, "shape": "cols", "cols": [[c, [I(r[j]) for r in vals]] for j, c in enumerate(names)], "own": own}
                ops = []
                if init in ("rows", "ix1", "ix2"):
                    ops.append({"op": "insert", "t": 0, "shape": "rows", "rows": [[I(1), I(5)], [I(3), I(4)], [I(1), I(4)]]})
                if init == "ix1":
                    ops.append(IX(0, "a"))
                if init == "ix2":
                    ops.append(IX(0, "a", "b"))
                wide = sh != "rows"
                ops += [ins([(2, 2), (0, 0), (2, 2)], "ab"), W(0, a=V(2)), W(0, b={"d": ["<=", V(2)]}),
                        ins([(4, 4), (4, 4)], "ac" if wide else "ab"), W(0, a=V(4)), W(0, a=L(0, 4)),
                        IX(0, "b"), W(0, b=V(2)),
                        ins([(1, 1, 1), (1, 1, 1), (0, 7, 7)] if wide else [(1, 1), (1, 1), (0, 7)], "abc" if wide else "ab"),
                        {"op": "groupby", "t": 0, "level": 0, "select": "count"}, W(0, b=V(0)), W(0, b={"d": [">", V(1)]})]
                cs.append({"init": {"kind": "columns", "columns": [], "bare": True} if init == "bare" else {"kind": "columns", "columns": [] if init == "nocols" else ["a", "b"]},
                           "ops": json.loads(json.dumps(ops))})
    return cs


class C17(Property):
    id = "C17"
    prop_modules = ["CobaVerif.Props.C17"]
    quick_n = 8000
    thorough_n = 60000
    search_n = 4000
    case_timeout = 60
    workers = 8
    rule = ("a table of 1-4 columns (per-column alphabets of 5-10 ints / half-integers / short strings, None and Missing, 0-12 initial rows) built by "
            "Table(columns=..)/Table(dict)/Table(dict,columns), then 1-10 operations: insert (rows / ragged dicts / column mapping, new columns), "
            "index (0-3 columns, repeats, unknown names), where (positional comparison, {op:value}, 1-3 keywords, callables, row predicates, match, "
            "probes absent / duplicated / out of range / of another type) on tables and on where-results, groupby, copy; "
            "non-trivial = some where selects a proper non-empty subset or runs on the bisect path of a non-empty table, an index orders >= 2 rows, "
            "or a groupby yields >= 2 groups; distinct by canonical JSON of the case. 10 % of the cases start from a table without columns whose first insert "
            "brings several columns; aliases (copies, views) are looked at once after every mutation; the linear history of every case is also run through "
            "runL / runLS / WFL (ops_refine) and compared with the code; inserts into indexed tables (in order / out of order / unsortable) are demanded "
            "to leave the rows in index order or to drop the index; on a tree with the insert repair the data-only side conditions OKL and the invariant "
            "invB are evaluated along the history (ops_inv_refine, inv_reachable, where_reachable_eq_scan); `match` probes are ints and floats (1 / 1.0 / 2 / 2.0 / 10 / 12), "
            "60 % of the match queries are followed by the same query with the number written the other way (same or another table), and after every such query the "
            "harness itself asks every other spelling (1 / 1.0 / True, 0 / 0.0 / -0.0 / False, n / float(n)) and the first one again: every answer must be the plain evaluation "
            "of its own probe, whatever was asked before in the process; 12 % of the probe collections are a live column of the same or another live table (`t.where(a=other['b'])`); "
            "after every where the table asked, every table whose column was given and every list given must be exactly as before (a query changes neither its arguments nor any table); "
            "groupby and copy likewise leave their table as it was; round g: a deterministic corpus family of 650 cases with cells of the library's own value types "
            "(HashableDense built from map()/generator/list/tuple, HashableSparse with explicit zeros, Categorical), probes in set / frozenset / list / tuple / dict keys, bare / in / !in / =, "
            "unindexed and indexed column - checked (B) only against any(cell == v) row by row (the Lean Cell has no such values); "
            "Phase 4: every case is also run through the machine with per-object _lohis caches (stepC) and the code must agree with it; "
            "Phase 5: `sort` cases (4 % of the generated cases + every list of <= 3 cells over 1, 1.0, 2, 'a', 'b', None, Missing + 22 longer shapes): the cells are sorted by sorted(), by sorted(range, key=) and by "
            "Table.index on a value + row-id table, and by the driver's comparison sort with the raising `<` (pySortedE / pySortedByE) and the specification-level pySorted / pySortedBy; all must agree, "
            "Table.index must rearrange the rows without altering any, in non-decreasing order, and may raise TypeError only when two cells cannot be compared; non-trivial = at least 2 cells" + "; "
            "round h: deterministic corpus family `lib` (19 public library functions that receive a Result x 9 index column orders put on result.interactions by the user beforehand, 171 cases, (B) only): "
            "Environments.from_result, Result.copy / filter_* / where* / raw_learners / raw_contrast / table accessors; after the call (returned or raised) the user's table must hold the same rows, in the order of the index it claims, "
            "and every where (= != < <= > >= in !in on every index column, values present / below / above) and groupby level must equal a scan of its rows; signature library-caller:<function>:<what>; "
            "Phase 5 goal 2: at the end of every non-stale case len(t), t.to_dicts() and every column object t[c] (len, list, [0]) of each live table / view nobody mutated under are compared with Table.len / toDicts / colObs of the model "
            "(view_observables) and, (B), with list(t) of the same object" + "; "
            "Phase 6: the data given to insert stays the caller's - 22 % of the generated inserts are `reuse` (the caller empties its lists / dicts right after the call; the table must go on showing the rows), "
            "18 % `shared` (members that read the same are ONE object: the same row list / dict twice, one list as two columns of a mapping); every insert must leave its argument as it was and no later operation "
            "may change it; deterministic family own_corpus (32 histories insert, query, insert, query, index, query, insert, groupby, query); "
            "round i: family `fromres` (7 cases, (B) only): what Environments.from_result delivers per (environment, learner, evaluator) group vs a plain scan of result.interactions, with columns that are "
            "Missing on the first / last / middle / every / no row of a group; translator: every sorted(...) / .sort(...) call of class Table is read off the source (Generated/C17Sorts.lean, sort_sites_eq_source)")
    trusted_base = [
        "Python's sorted(): the model's reading 'TypeError iff two non-Missing members are incomparable, else the stable arrangement' (pySorted / pySortedBy) is since Phase 5 a THEOREM about a "
        "comparison sort that only asks the raising `<` (stable insertion sort sortE with pyLt: sorted_comparison_sort_eq, sortedBy_comparison_sort_eq, sorted_raises_iff, for every list, Missing included); "
        "what stays trusted is that CPython's timsort, which makes OTHER comparisons than an insertion sort, agrees with it - compared on every `sort` case "
        "(all lists <= 3 over 1, 1.0, 2, 'a', 'b', None, Missing; hand-made run / gallop shapes up to 41 cells; ~320 generated lists per quick run) for sorted(cells), "
        "sorted(range(n), key=cells.__getitem__) and Table.index; bisect_left/right as the textbook loop (same probes as CPython's C code)",
        "re.search is modelled for metacharacter-free patterns only (substring test; digit-boundary test for numeric patterns)",
        "float cells are dyadic rationals with few digits, so repr(float) is their exact decimal expansion",
        "table objects sharing storage (copy()/where()): the model gives every object of a run the mutated dict (`share`); each alias is looked at once, "
        "right after the mutation (rows/columns/indexes, (A)); what an alias does afterwards (its cached _lohis) is not modelled and not observed",
        "Phase 4: the per-object `_lohis` cache is modelled (CObj / stepC: None / {} / dict, filled by where and groupby, reset by insert, recomputed by index, handed on by copy); the driver runs "
        "stepC on every case next to step and the code must agree with both; 16 % of the generated cases (and four corpus cases) are `stale` histories: aliases stay alive after another object "
        "has mutated the shared lists and go on being queried / mutated; what a stale object answers is compared with stepC only ((A) `A:cached:*`; the cache-free model is not consulted for these cases), "
        "(B) is asked of fresh objects only (F19/F20 signatures unchanged). Not performed even then: copy() of a stale object (Table.__init__ takes its `else` branch when the dict gained a column: "
        "an independent table - separate storages are not modelled), insert/index through a stale object after another object's dict/column-mapping insert (lists of different lengths: IndexError "
        "in the code where the model pads), and anything on the other objects after a mutation raised (index permutes column by column before it raises)",
        "Phase 4 translator: Generated/C17Ops.lean is rewritten on every run from coba/results/core.py (ast): Literal of where(comparison=), keys unpacked by _compare, operators excluded from the "
        "bisect branch, and per operator block of _compare the my_bisect_left/right calls, the scan comparison and the `c is not None` guard; ops_table_eq_source proves it equal to the model's opTable "
        "(the extraction reads call names and comparison node types, not the arithmetic around them)",
        "ops_refine is about linear histories (one object at a time: where/copy continue with the object they create); the harness extracts the linear "
        "history of every case (Driver.linearOf, mirrored in Runner) and compares code, runL and the specification machine runLS on it",
        "which repairs the tree under test contains is probed through the public Table API (detect_cfg: one tiny call per switch) and handed to the "
        "model as Cfg; a signature of a repaired mechanism (stale index, incomparable probe, None probe of !in, match on a mixed column) is only "
        "excused as a known finding while its probe says 'not repaired' - on a repaired tree the same observation is a violation",
        "repaired insert, `_in_index_order(n_old)` as committed (d82f72c): boundary pair with `<` only (rowOrd), then - when every leading index column of the "
        "new rows is constant with a first value that is neither None nor Missing (constFrom: `c.count(c[0]) == len(c)` is ==, and Missing == None) - "
        "`all(map(is_, last, sorted(last)))` (sortedFrom: the stable sort returns the same objects in the same places iff no later cell is smaller than an "
        "earlier one; TypeError iff two cells cannot be ordered), otherwise the row-by-row `<` loop (tailOrd); outcomes le / gt / cannot = True / False / None; "
        "a TypeError inside the re-sort after partial permutation is modelled as 'lists restored, index dropped'",
        "`match` with a number: the pattern is f'(\\D|^){arg}(\\D|$)' of the probe of this very call, unescaped - the dot of a float probe (1.0) stands for any "
        "character (patPrefix); equal numbers written differently (1 / 1.0) are different patterns. Bool and -0.0 probes exist only in the harness' own re-queries "
        "(checked against the plain evaluation (B), not sent to the model: Cell has neither bool nor signed zero); cells with newlines are outside the alphabet",
        "a probe collection given as a live column is resolved when the operation runs: plain evaluation and model see the list of its present cells, the call gets the "
        "object `table[column]` itself (a list for a table that owns its lists, a ListView / SliceView for a view)",
    ]
    assumptions = [
        "row_pred and keyword arguments are not combined in one call (the code ignores the keywords; the documentation does not say what is meant)",
        "plain evaluation: Missing is greater than everything incl. itself for < > <= >=, Missing == None, None cells never satisfy an order comparison",
        "where the plain evaluation itself raises (operands of different kinds under an order comparison) nothing is demanded",
    ]
    partial_theorems = {
        "where_eq_spec_partial": "needs whereWF: rows in index order (P13 insert-after-index; discharged for every reachable table of a tree with the insert repair by "
                                 "where_reachable_eq_scan), probes comparable with an indexed column and not None/Missing-under-order "
                                 "(the theorem does not use the two probe repairs; (B) checks those queries), and - only for a tree without the proposed repairs - no repeated `in` probes (P8), no {'!in':..} (P9), no plain argument after a dict "
                                 "argument (P10), no Missing under <=/>= on the scan path (P11), no empty indexed table (P12); `match` not covered; each conjunct has a _counterexample",
        "index_spec_partial": "needs indexWF: distinct index columns (P14 without the repair), different from the current _indexes (P13: index() returns at once), comparable non-None cells; "
                              "the permutation holds up to == in index columns (1 and 1.0 may swap inside a group)",
        "groupby_partition": "needs rows in index order (Indexed): holds in every reachable state of a tree with the insert repair (inv_reachable), not after insert-after-index without it (P13)",
        "where_of_where": "as where_eq_spec_partial, with the sortedness part discharged by index_establishes_order / the theorem itself",
        "index_stable": "under indexWF (as index_spec_partial)",
        "index_eq_spec": "under indexWF; equality with the stable lexicographic sort holds up to == (Cell.key) because index exchanges 1 and 1.0 between rows that agree on an earlier index column",
        "insert_eq_spec": "under insertWF: table owns its lists, rows as long as the distinct columns, equally long value lists, dict rows not all key-less without the repair; "
                          "with the insert repair and an indexed table additionally: table in index order before (free for reachable tables: insert_keeps_index_order takes Inv), "
                          "index cells incl. the new ones orderable and not None (otherwise the code drops the index: modelled and (A)/(B)-checked, no theorem); equality up to == then",
        "insert_rows": "plain append: table without index, or tree without the insert repair (with it an indexed table is re-sorted: insert_eq_spec)",
        "insert_mapping_rows": "as insert_rows",
        "insert_dicts_rows": "as insert_rows",
        "inv_reachable": "needs cfg.resortInsert (the insert repair) and OKL: every operation meets its data-only side condition (shapes, orderable cells/probes, no None); linear histories",
        "ops_inv_refine": "as inv_reachable; equality up to ==",
        "where_reachable_eq_scan": "as inv_reachable plus whereOK for the final query: probes of an indexed column orderable against its cells and not None (the bisectFallback / notinSentinel "
                                   "repairs are modelled and (A)/(B)-checked but not used by the theorem), match not covered",
        "where_match_per_cell": "needs cfg.matchPerCell (fixes/C17-match-per-cell.diff); literal patterns only (trusted base: re.search)",
        "ops_refine": "linear histories only (several live objects sharing storage are outside: copy_shares_storage_counterexample); every step needs its decidable side condition (WFL); equality up to ==; groupby and match are not operations of the machine",
        "where_match_eq_spec": "needs a homogeneous column (all str or all numbers) and a literal pattern: forced, see where_match_missing_counterexample / where_match_first_cell_counterexample",
        "multi_inv_reachable": "needs cfg.resortInsert and OKC (opOK for every operation on a FRESH object when its turn comes); says nothing of an object after ANOTHER object has "
                               "mutated the shared lists (fresh = false: findings C17-F19/F20, stale_cache_counterexample); freshness is never regained in the ghost flag (a later index() through the stale object is not credited)",
        "where_every_live_object": "as multi_inv_reachable plus whereOK for the query; about the cached lohis (effLohis / pwhereWith)",
        "pyLt_class_order": "per comparable class (numbers, strings); since Phase 5 sorted() is a comparison sort in the model (sortE with pyLt) proved equal to pySorted for every list (sorted_comparison_sort_eq)",
        "insert_keeps_index_order": "insertOK asks that the cells of the index columns (new rows included) can be ordered and are not None: forced also in the repaired tree, "
                                    "insert_none_next_to_missing_counterexample (finding C17-F21: None < Missing is True, None == Missing too)",
        "copy_independent": "only for where/groupby/copy/listing; insert/index through one object change the others (recorded findings C17-F19/F20)",
    }

    def pre_build(self):
        from core import lean
        repo = os.environ.get("COBA_REPO", "/repo")
        notes = []
        try:
            info = extract_ops(repo)
            body = ops_lean(info)
            notes.append("operator table extracted from Table.where/_compare: literal %r, unpacked keys %r, not bisected %r, %d operator blocks; bisect condition `%s`"
                         % (info["literal"], info["keys"], info["nobisect"], len(info["rows"]), info["guard"]))
        except Exception as e:
            body = ("-- GENERATED: the operator table could not be read off coba/results/core.py (%s)\n"
                    "namespace Coba.Generated.C17\ndef whereLiteral : List String := []\ndef unpackKeys : List String := []\n"
                    "def noBisectOps : List String := []\ndef compareTable : List (String × Option (List Bool) × String × Bool) := []\n"
                    "def extracted : Bool := false\nend Coba.Generated.C17\n" % str(e).replace("\n", " ")[:150])
            notes.append("operator table could NOT be extracted (%s): ops_table_eq_source fails to build" % e)
        try:
            sites = extract_sorts(repo)
            body2 = sorts_lean(sites)
            notes.append("sort calls of class Table extracted: %s" % "; ".join("%s: %s key=%s%s" % (m, w, k, " +other arguments" if e else "") for m, w, k, e in sites))
        except Exception as e:
            body2 = sorts_lean([], str(e).replace("\n", " ")[:150])
            notes.append("sort calls could NOT be extracted (%s): sort_sites_eq_source fails to build" % e)
        for name, text in (("C17Ops.lean", body), ("C17Sorts.lean", body2)):
            path = os.path.join(lean.LEAN_DIR, "CobaVerif", "Generated", name)
            old = open(path, encoding="utf-8").read() if os.path.exists(path) else None
            if old != text:
                os.makedirs(os.path.dirname(path), exist_ok=True)
                with open(path, "w", encoding="utf-8") as f:
                    f.write(text)
        return notes

    def generate(self, rng, tier):
        if rng.chance(0.04):
            return sort_generate(rng)
        g = Gen(rng)
        if rng.chance(0.16):
            # histories that go on using an alias (copy / view) after another object has mutated the shared lists
            g.stale = True
            if rng.chance(0.5):
                return g.stale_script()
            g.ncols = max(g.ncols, 2) if rng.chance(0.7) else g.ncols
            return g.case(nops=rng.choice([3, 4, 6, 8, 10]))
        return g.case()

    def search(self, rng, tier):
        g = Gen(rng, boundary=True)
        return g.case(nops=rng.choice([2, 3, 4, 5]))

    def corpus(self):
        cs = []
        base = [[1, "x"], [2, "y"], [1, "z"], [3, "x"]]
        # P8..P14 of DESIGN §10 and the further observations of notes/C17.md
        cs.append(mk("ab", base, IX(0, "a"), W(0, a=L(1, 1))))
        cs.append(mk("ab", [[1, "x"], [1, "y"], [2, "p"], [2, "q"], [3, "z"]], IX(0, "a"), W(0, a=L(1, 1, 3))))
        cs.append(mk("ab", base, IX(0, "a"), W(0, a={"d": ["!in", L(1)]})))
        cs.append(mk("ab", base, W(0, b={"d": ["!in", L("x")]})))
        cs.append(mk("ab", base, W(0, a={"d": ["<", V(2)]}, b=V("y"))))
        cs.append(mk("ab", base, IX(0, "a"), W(0, a={"d": ["<", V(2)]}, b=V("y"))))
        cs.append(mk("ab", base, W(0, pos="<", a={"d": [">", V(2)]}, b=V("y"))))
        cs.append({"init": {"kind": "columns", "columns": ["a"]}, "ops": [
            {"op": "insert", "t": 0, "shape": "dicts", "rows": [[["a", ["i", 1]], ["c", ["i", 5]]], [["a", ["i", 2]]]]},
            W(0, c={"d": ["<=", V(5)]}), W(0, c={"d": [">=", V(5)]}), W(0, c={"d": ["<", V(5)]}), W(0, c={"d": [">", V(5)]}),
            IX(0, "c"), W(0, c={"d": ["<=", V(5)]}), W(0, c={"d": [">=", V(5)]}), W(0, c={"d": ["<", V(5)]}), W(0, c={"d": [">", V(5)]})]})
        cs.append(mk("a", [], IX(0, "a"), W(0, a=V(1))))
        cs.append(mk("a", [], IX(0, "a"), W(0, a=L(1, 2)), W(0, a={"d": ["<=", V(1)]})))
        cs.append(mk("a", [], W(0, a={"d": ["match", V(1)]}), W(0, a={"d": ["match", V("x")]})))
        cs.append(mk("ab", base, IX(0, "a"), W(0, a=V(7)), W(1, a=V(1)), W(1, b=V("x"))))
        cs.append(mk("ab", base, IX(0, "a", "b"), W(0, a=V(7)), W(1, b=V("x"))))
        cs.append({"init": {"kind": "columns", "columns": ["a"]}, "ops": [
            {"op": "insert", "t": 0, "shape": "rows", "rows": [[["i", 3]], [["i", 1]]]}, IX(0, "a"),
            {"op": "insert", "t": 0, "shape": "rows", "rows": [[["i", 2]], [["i", 0]]]}, W(0, a=V(1)), W(0, a=V(0)), IX(0, "a"), W(0, a={"d": ["<", V(2)]}),
            {"op": "groupby", "t": 0, "level": 0, "select": "count"}]})
        cs.append(mk("ab", [[2, "x"], [1, "y"], [3, "z"]], IX(0, "a", "a"), W(0, a=V(1))))
        cs.append(mk("ab", [[2, "x"], [1, "y"], [3, "z"], [1, "w"]], IX(0, "a", "b", "a"), W(0, a=V(1)), {"op": "groupby", "t": 0, "level": 1, "select": {"many": ["a", "b"]}}))
        cs.append(mk("ab", base, IX(0, "a"), W(0, a=V("q")), W(0, a=V(None)), W(0, a={"d": ["!=", V("q")]}), W(0, pos="!in", a=L(None))))
        cs.append({"init": {"kind": "columns", "columns": ["a"]}, "ops": [
            {"op": "insert", "t": 0, "shape": "dicts", "rows": [[["a", ["s", "x"]], ["c", ["s", "u"]]], [["a", ["s", "y"]]]]},
            W(0, c={"d": ["match", V("u")]}), W(0, a={"d": ["match", V("x")]}), W(0, pos="match", a=V("y"))]})
        cs.append({"init": {"kind": "columns", "columns": ["a"]}, "ops": [
            {"op": "insert", "t": 0, "shape": "dicts", "rows": [[["a", ["s", "y"]]], [["a", ["s", "x"]], ["c", ["s", "on"]]]]},
            W(0, c={"d": ["match", V("on")]})]})
        cs.append(mk("ab", [[1, "a1"], [12, "12"], [2, "x12y"], [1, "121"]], W(0, b={"d": ["match", V(12)]}), W(0, a={"d": ["match", V(1)]}), W(0, a={"d": ["match", V("1")]}), W(0, b={"d": ["match", V(1)]})))
        # insert into a table indexed by two columns, the new rows agree on the first: a number (one sorted() of the last column),
        # None (cannot be ordered: index dropped), Missing then None (== each other but out of order)
        two = [[1, 1], [1, 3], [2, 0]]
        def INS(*rows):
            return {"op": "insert", "t": 0, "shape": "rows", "rows": [[V(x)["v"] for x in r] for r in rows]}
        cs.append(mk("ab", two, IX(0, "a", "b"), INS([2, 1], [2, 2]), W(0, a=V(2), b=V(1)), INS([2.0, 5], [2, 4]), W(0, a=V(2), b=V(4))))
        cs.append(mk("ab", two, IX(0, "a", "b"), INS([None, 1], [None, 2]), W(0, a=V(2)), W(0, b=V(1))))
        cs.append(mk("ab", two, IX(0, "a", "b"), INS(["M", 1], [None, 2]), W(0, a=V(2)), W(0, b=V(1))))
        cs.append(mk("ab", two, IX(0, "a", "b"), INS(["M", 1], ["M", 0]), W(0, a=V(2)), W(0, b=V(1)), INS(["M", 3], ["M", 4]), W(0, b=V(4))))
        cs.append(mk("abc", [[1, 0, "p"], [1, 1, "q"]], IX(0, "a", "b"), INS([1, 2, "r"], [2, 3, "s"], [1, 4, "t"]), W(0, a=V(2)), W(0, a=V(1)), W(0, b={"d": [">=", V(3)]}),
                     {"op": "groupby", "t": 0, "level": 1, "select": "count"}))
        # the probes are a live column of another table / of the table itself, or a list the caller owns: a query changes none of them
        def C(t, c):
            return {"col": [t, c]}
        tt = [[1, 5, "r0"], [2, 3, "r1"], [3, 9, "r2"], [4, 1, "r3"], [5, 2, "r4"], [6, 2, "r5"]]
        cs.append(mk("abc", tt, IX(0, "a"), W(0, a={"d": ["!in", C(0, "b")]}), W(0, b=V(2)), W(0, a={"d": ["in", C(0, "b")]}), W(0, a=C(0, "b")), W(0, b=V(2)),
                     {"op": "groupby", "t": 0, "level": 0, "select": "count"}))
        cs.append(mk("abc", tt, {"op": "copy", "t": 0}, IX(0, "a"), W(0, b={"d": [">=", V(2)]}), W(0, a=C(2, "b")), W(2, b=V(2)), W(0, a={"d": ["!in", C(2, "b")]}), W(2, a=C(0, "b"))))
        cs.append(mk("ab", [[3, "x"], [1, "y"], [2, "z"]], IX(0, "a"), W(0, a=L(3, 1, 2)), W(0, a={"d": ["!in", L(3, 1, 2, 1)]}), W(0, pos="in", a=L(2, 1))))
        # 0 / 0.0 / -0.0 / False and 1 / 1.0 / True on text cells (the harness asks the other spellings itself)
        zs = [["x=0.0"], ["x=-0.0"], ["0"], ["v1.0"], ["110"], ["1"], ["1.0"], ["True"], ["is False"], ["0.0"]]
        cs.append(mk("a", zs, W(0, a={"d": ["match", V(1.0)]}), W(0, a={"d": ["match", V(0.0)]}), W(0, pos="match", a=V(0)), W(0, pos="match", a=V(1))))
        # equal numbers written differently are different patterns; every query is answered from its own probe (also across tables)
        strs = [["1"], ["v1"], ["1.0"], ["11"], ["x1y0"], ["2"], ["2.0"], ["run 2"]]
        cs.append(mk("a", strs, W(0, a={"d": ["match", V(1)]}), W(0, a={"d": ["match", V(1.0)]}), W(0, a={"d": ["match", V(2.0)]}), W(0, a={"d": ["match", V(2)]}), W(0, a={"d": ["match", V(1)]})))
        cs.append(mk("a", strs, W(0, a={"d": ["match", V(1.0)]}), W(0, a={"d": ["match", V(1)]}), W(0, pos="match", a=V(2)), W(0, pos="match", a=V(2.0))))
        cs.append(mk("ab", [[0, "1"], [1, "1.0"], [0, "10"], [1, "1x0"]], IX(0, "a"), W(0, a={"d": [">=", V(0)]}), W(1, b={"d": ["match", V(10)]}), W(1, b={"d": ["match", V(10.0)]}),
                     {"op": "copy", "t": 0}, W(4, b={"d": ["match", V(1.0)]}), W(0, b={"d": ["match", V(1)]})))
        cs.append({"init": {"kind": "columns", "columns": ["a", "b"]}, "ops": [
            {"op": "insert", "t": 0, "shape": "dicts", "rows": [[], []]}, {"op": "insert", "t": 0, "shape": "dicts", "rows": [[["a", ["i", 1]]], []]}]})
        # a where on the (broken) view P8 returns: the repeated row numbers make View._try_slice take it for a slice
        cs.append(mk("ab", [[1, 4], [2, 0], [3, 2], [3, 2], [0, 2]], IX(0, "a"), W(0, a={"d": ["in", dict(L(3, 0, 3, 2), **{"as": "tuple"})]}), W(1, b=L(2))))
        # tables created without columns; inserts that add several columns at once (dict rows, column mapping, ragged)
        D = lambda *rows: {"op": "insert", "t": 0, "shape": "dicts", "rows": [[[c, V(v)["v"]] for c, v in r] for r in rows]}
        C = lambda **cols: {"op": "insert", "t": 0, "shape": "cols", "cols": [[c, [V(v)["v"] for v in vs]] for c, vs in cols.items()]}
        for bare in (True, False):
            ini = {"kind": "columns", "columns": [], "bare": bare}
            cs.append({"init": ini, "ops": [D([("a", 2), ("b", "x")], [("a", 1), ("b", "y")], [("a", 2), ("b", "y")]), W(0, b=V("y")), W(0, a=V(2)), IX(0, "b", "a"), W(0, b=V("y")),
                                            {"op": "groupby", "t": 0, "level": 1, "select": "count"}]})
            cs.append({"init": ini, "ops": [C(a=[2, 1, 2], b=["x", "y", "y"], c=[0.5, 0.25, 0.75]), IX(0, "b", "a"), W(0, b=V("y")), {"op": "groupby", "t": 0, "level": 1, "select": "count"}]})
            cs.append({"init": ini, "ops": [D([("a", 1)], [("b", "x"), ("c", 3)], []), D([("d", 1), ("e", 2), ("a", 5)]), C(f=[7], b=["q"]), W(0, a=V(5))]})
            cs.append({"init": ini, "ops": [D([("a", 1)], [("a", 2)]), D([("a", 3), ("b", "z")]), W(0, b=V("z"))]})
        cs.append({"init": {"kind": "columns", "columns": ["a"]}, "ops": [D([("a", 1), ("b", "x"), ("c", 1)], [("a", 2), ("c", 2), ("d", "u")]), C(e=[1, 2], f=[3, 4], a=[7, 8]), W(0, d=V("u")), W(0, e=V(2))]})
        # every flavour of probe collection the code accepts (Iterable and not str), bare (implicit `in`) and explicit in / !in
        for fl in FLAVOURS:
            c12 = dict(L(1, 2), **{"as": fl})
            for indexed in (False, True):
                cs.append(mk("ab", [[3, "x"], [1, "y"], [2, "z"], [1, "w"], ["M", "q"]], *([IX(0, "a")] if indexed else []),
                             W(0, a=c12), W(0, a={"d": ["in", c12]}), W(0, pos="in", a=c12), W(0, pos="!in", a=c12), W(0, a={"d": ["!in", c12]}),
                             W(0, a=c12, b=V("q")), W(0, b=dict(L("x", "w"), **{"as": fl if fl != "range" else "iterable"}))))
        # the witnesses of the `_counterexample` theorems of Props/C17.lean, replayed on the real code
        exT = [[1, 5], [1, 6], [2, 5], ["M", 7]]
        cs.append(mk("ab", exT, IX(0, "a"), W(0, a=L(1, 1)), W(0, b={"d": ["!in", L(5)]}), W(0, a={"d": ["<", V(1)]}, b=V(6)),
                     W(0, a=V("q")), W(0, pos="!in", a=L(None)), W(0, a={"d": [">", V("M")]}), W(0, b=V(6), a={"d": [">=", V(2)]})))
        cs.append(mk("ab", [[1, 5], [2, "M"]], W(0, b={"d": ["<=", V(5)]})))
        cs.append(mk("ab", [[2, "x"], [1, "y"], [3, "z"], [1, "w"]], IX(0, "a", "a")))
        cs.append(mk("ab", [[2, "x"], [1, "y"], [3, "z"], [1, "w"]], IX(0, "a", "b"), {"op": "groupby", "t": 0, "level": 1, "select": "count"}))
        # boundaries: first/last group, probes below/above the range, multi-level index, where-of-where, views as slices and lists
        rows = [[a, b, c] for a in (1, 2, 3) for b in ("x", "y") for c in (0, 1)]
        for o in OPS[:6]:
            for v in (0, 1, 2, 3, 4):
                cs.append(mk("abc", rows, IX(0, "a", "b", "c"), W(0, a={"d": [o, V(v)]}), W(1, b={"d": [o, V("x")]}), W(2, c={"d": [o, V(1)]}),
                             {"op": "groupby", "t": 1, "level": 2, "select": {"many": ["a", "b", "c"]}}))
        for vs in ([], [1], [3], [0], [4], [1, 3], [0, 4], [2, 1], [1, 2, 3]):
            cs.append(mk("abc", rows, IX(0, "a", "c"), W(0, a=L(*vs)), W(0, pos="!in", a=L(*vs)), W(0, c=L(*vs)), W(1, pos="!in", c=L(*vs)),
                         W(0, a=L(*vs), c=V(1)), {"op": "groupby", "t": 1, "level": 1, "select": "count"}))
        cs.append(mk("ab", [[1, "x"], ["M", "y"], [2, "M"], ["M", "M"], [1, "y"]], IX(0, "a", "b"), W(0, a=V("M")), W(0, a={"d": [">", V(1)]}), W(0, a={"d": ["<", V(5)]}),
                     W(0, b={"d": ["!=", V("y")]}), {"op": "groupby", "t": 0, "level": 1, "select": {"many": ["a", "b"]}}, {"op": "copy", "t": 0}, W(6, a=L(1, "M"))))
        cs.append(mk("ab", [[1, 1.0], [1.0, 1], [0.5, 2], [2, 0.5]], IX(0, "a", "b"), W(0, a=V(1)), W(0, a=L(1, 1.0)), W(0, b={"d": ["<=", V(1)]}), {"op": "groupby", "t": 0, "level": 1, "select": "count"}))
        # Phase 4: histories that go on using the ORIGINAL after its copy / view-parent mutated the lists (compared with stepC, (A) only on the stale object)
        rows4 = [[1, "z"], [2, "x"], [1, "y"], [3, "w"]]
        st = []
        st.append(mk("a", [[1], [2]], IX(0, "a"), W(0, a=V(1)), {"op": "copy", "t": 0}, {"op": "insert", "t": 2, "shape": "rows", "rows": [[["i", 0]], [["i", 5]]]},
                     W(0, a=V(5)), W(0, a=V(0)), W(2, a=V(5)), {"op": "groupby", "t": 0, "level": 0, "select": "count"}, {"op": "groupby", "t": 2, "level": 0, "select": "count"},
                     {"op": "insert", "t": 0, "shape": "rows", "rows": [[["i", 7]]]}, W(0, a=V(7)), W(2, a=V(7))))
        st.append(mk("ab", rows4, IX(0, "a"), {"op": "copy", "t": 0}, IX(1, "b"), W(0, a=V(1)), W(0, a=V(3)), W(1, b=V("x")), {"op": "groupby", "t": 0, "level": 0, "select": "count"},
                     IX(0, "a"), W(0, a=V(1)), IX(0, "b", "a"), W(0, a=V(1)), W(1, b=V("x"))))
        st.append(mk("ab", rows4, IX(0, "a"), W(0, a=L(1, 2)), IX(0, "b"), W(1, a=V(1)), W(1, b=V("x")), {"op": "copy", "t": 1}, W(3, a=V(2)),
                     {"op": "insert", "t": 0, "shape": "rows", "rows": [[["i", 0], ["s", "a"]]]}, W(1, a=V(1)), W(0, b=V("a"))))
        st.append(mk("ab", rows4, {"op": "copy", "t": 0}, IX(0, "a", "b"), {"op": "groupby", "t": 0, "level": 1, "select": "count"}, W(1, a=V(1)), IX(1, "b"), W(0, a=V(1), b=V("y")),
                     {"op": "groupby", "t": 0, "level": 1, "select": None}, {"op": "groupby", "t": 1, "level": 0, "select": "count"}))
        for c in st:
            c["stale"] = True
        cs.extend(st)
        cs.extend(own_corpus())
        # corpus/C17/*.json: minimised past failures kept as files (Phase 6: the thorough-tier false alarm C:naive-vs-whereS on a stale view)
        cdir = os.path.join(os.path.dirname(os.path.dirname(os.path.dirname(os.path.abspath(__file__)))), "corpus", "C17")
        for fn in sorted(os.listdir(cdir)) if os.path.isdir(cdir) else []:
            if fn.endswith(".json"):
                with open(os.path.join(cdir, fn)) as fh:
                    cs.append(json.load(fh))
        cs.extend(vt_corpus())
        cs.extend(sort_corpus(3))
        cs.extend(lib_corpus())
        cs.extend(fromres_corpus())
        return cs

    def exhaustive(self, tier):
        """finite sweep (thorough tier): every table of <= 4 rows over {1, 2, Missing} (plus a row-id column), unindexed and
        indexed, x every operator = != < <= > >= with values below / inside / above the data, in / !in with every small
        collection incl. empty, absent, unsorted and repeated values, positional and {op: value} form, and a where-of-where;
        every table of <= 3 rows over {1,2} x {1,2,Missing} with a two-level index, conditions on the second level, groupby"""
        import itertools
        vals = [1, 2, "M"]
        scal = [0, 1, 2, 3]
        colls = [[], [1], [2], [3], [1, 2], [2, 1], [1, 3], [1, 1], [3, 1, 2], [2, 2, 1]]
        out = []
        for n in range(0, 5):
            for tup in itertools.product(vals, repeat=n):
                rows = [[v, i] for i, v in enumerate(tup)]
                for indexed in (False, True):
                    ops = [IX(0, "a")] if indexed else []
                    k = 0
                    first = None      # table id of the result of `a != 2`, target of the where-of-where queries
                    for o in OPS[:6]:
                        for v in scal:
                            k += 1
                            if o == "!=" and v == 2:
                                first = 1 + sum(1 for x in ops if x["op"] == "where")
                            ops.append(W(0, a={"d": [o, V(v)]}) if k % 2 else W(0, pos=o, a=V(v)))
                    for o in ("in", "!in"):
                        for c in colls:
                            k += 1
                            ops.append(W(0, a={"d": [o, L(*c)]}) if k % 2 else W(0, pos=o, a=L(*c)))
                    ops.append(W(0, a=V("M")))
                    ops.append(W(0, a=L(1, "M")))
                    for o in OPS[:6]:
                        ops.append(W(first, a={"d": [o, V(2)]}))
                    ops.append(W(first, a=L(2, 3)))
                    ops.append({"op": "groupby", "t": 0, "level": 0, "select": {"many": ["a", "b"]}})
                    out.append(mk("ab", rows, *ops))
        for n in range(0, 4):
            for tup in itertools.product(list(itertools.product([1, 2], vals)), repeat=n):
                rows = [[a, c, i] for i, (a, c) in enumerate(tup)]
                ops = [IX(0, "a", "c")]
                for o in OPS[:6]:
                    for v in (0, 1, 2, 3):
                        ops.append(W(0, c={"d": [o, V(v)]}))
                for c in ([], [1], [3], [2, 1], [1, 1]):
                    ops.append(W(0, c=L(*c)))
                    ops.append(W(0, pos="!in", c=L(*c)))
                ops.append(W(0, a=V(1), c=V(2)))
                ops.append(W(0, a=V(2)))
                ops.append(W(len([x for x in ops if x["op"] == "where"]), c={"d": ["<=", V(1)]}))
                ops.append({"op": "groupby", "t": 0, "level": 1, "select": {"many": ["a", "c", "b"]}})
                ops.append({"op": "groupby", "t": 0, "level": 0, "select": "count"})
                out.append(mk("acb", rows, *ops))
        return out

    # ---- evaluation
    def evaluate(self, case, driver):
        if "vt" in case:
            return vt_eval(case)
        if "sort" in case:
            return sort_eval(case, driver)
        if "lib" in case:
            return lib_eval(case)
        if "fromres" in case:
            return fromres_eval(case)
        run = Runner(case).run()
        fails, tags = list(run.fails), run.tags
        model = None
        if driver is not None:
            init = case["init"]
            if init["kind"] == "columns":
                minit = {"kind": "columns", "columns": [cid(c) for c in init["columns"]]}
            elif init["kind"] == "coldict":
                minit = {"kind": "coldict", "data": [[cid(c), v] for c, v in init["data"]]}
            else:
                minit = {"kind": "coldict_cols", "data": [[cid(c), v] for c, v in init["data"]], "columns": [cid(c) for c in init["columns"]]}
            ans = driver.ask({"cfg": run.cfg, "init": minit, "ops": run.model_ops})
            model = ans["model"]
            labels = ["init"] + [op["op"] for op in run.model_ops]

            def differ(k, o, m):
                # groupby(level, [columns]) that names an unknown column AND a level the table has no index column for raises either
                # way; the code looks the columns up first (KeyError), the model the level (IndexError): one failed lookup, not compared further
                if (o != m and labels[k] == "groupby" and isinstance(run.model_ops[k - 1].get("select"), dict) and "many" in run.model_ops[k - 1]["select"]
                        and isinstance(o, dict) and isinstance(m, dict) and {o.get("err"), m.get("err")} == {"KeyError", "IndexError"}):
                    tags.append("A:groupby:two-failed-lookups")
                    return False
                return o != m
            for k, (o, m) in enumerate(zip(run.obs, model) if not case.get("stale") else []):
                if differ(k, o, m):
                    what = "after model op #%d (%s %s): implementation %s, model %s" % (k - 1, labels[k], json.dumps(run.model_ops[k - 1])[:300] if k else "", json.dumps(o)[:400], json.dumps(m)[:400])
                    fails.append(F("A", what, "A:" + labels[k]))
                    break
            if len(model) != len(run.obs):
                fails.append(F("A", "model answered %d observations for %d" % (len(model), len(run.obs)), "A:length"))
            # Phase 5: len / to_dicts / column access of every live object nobody mutated under, against Table.len / toDicts / colObs (view_observables)
            mviews = ans.get("views") or []
            for j, v in sorted(run.views.items()):
                mv = mviews[j] if j < len(mviews) else None
                # the class of table[c] (list / SliceView / ListView) and the negative index [-1] (a SliceView answers seq[start-1]) are
                # internals: evaluated by the model and tagged, but a rewrite that changes them is harmless for the property
                strip = lambda w: w if w is None else dict(w, cols=[[c, ({"ok": {q: x for q, x in o["ok"].items() if q not in ("kind", "last")}} if "ok" in o else o)] for c, o in w["cols"]])
                mv, v = strip(mv), strip(v)
                if mv != v:
                    part = next((key for key in ("len", "dicts") if mv is None or mv.get(key) != v[key]), "column")
                    fails.append(F("A", "live table %d at the end of the case: implementation shows %s, the model %s" % (j, json.dumps(v)[:500], json.dumps(mv)[:500]), "A:view:" + part))
                    break
            # Phase 4: the machine with per-object _lohis caches (stepC) on the same operations: the real code must agree with it
            # as well (A), and where OKC holds every fresh live object must pass invB and cohB at the end (multi_inv_reachable at run time)
            cached = ans.get("cached")
            if cached:
                for k, (o, m) in enumerate(zip(run.obs, cached["obs"])):
                    if differ(k, o, m):
                        fails.append(F("A", "after model op #%d (%s): implementation %s, machine with _lohis caches %s" % (k - 1, labels[k], json.dumps(o)[:400], json.dumps(m)[:400]), "A:cached:" + labels[k]))
                        break
                if len(cached["obs"]) != len(run.obs):
                    fails.append(F("A", "machine with caches answered %d observations for %d" % (len(cached["obs"]), len(run.obs)), "A:cached:length"))
                if case.get("stale") and any(a != b for a, b in zip(cached["obs"], model)):
                    tags.append("stale:answer-differs-from-cache-free-model")     # the stale cache / stale view really matters in this case
                tags.append("M:okc-" + ("holds" if cached["okc"] else "fails"))
                tags.append("M:objects-fresh:%d" % min(cached["fresh"], 4)); tags.append("M:objects-stale:%d" % min(cached["stale"], 4)); tags.append("M:warm-caches:%d" % min(cached["warm"], 3))
                if cached["okc"] and not cached["good_end"]:
                    fails.append(F("C", "OKC holds but a fresh live object of the machine with caches fails invB / cohB at the end", "C:multi_inv_reachable"))
            # ops_refine at run time: for the linear history of the case (operations on the table the history is "at"),
            # when every side condition holds (WFL) the code's table, the model's and the specification machine's agree up to ==
            def keyrows(o):
                return [[(["q", c[1], 1] if c[0] == "i" else ["q", c[1], c[2]] if c[0] == "f" else c) for c in r] for r in o["rows"]]

            def same(x, y):
                return "rows" in x and "rows" in y and x["columns"] == y["columns"] and x["indexes"] == y["indexes"] and keyrows(x) == keyrows(y)
            lin = ans.get("linear")
            if lin:
                tags.append("L:wfl-" + ("holds" if lin["wfl"] else "fails") + (":n>=3" if lin["n"] >= 3 else ""))
                tags.append("L:okl-" + ("holds" if lin.get("okl") else "fails") + (":n>=3" if lin["n"] >= 3 else ""))
                if lin.get("okl") and not lin.get("inv_end"):
                    # inv_reachable at run time
                    fails.append(F("C", "OKL holds from a table that satisfies the invariant but the model's final table does not satisfy it: %s" % json.dumps(lin["model"])[:300], "C:inv_reachable"))
                if lin["wfl"] or lin.get("okl"):
                    which = "WFL" if lin["wfl"] else "OKL (data-only side conditions, repaired insert)"
                    if not same(lin["model"], lin["spec"]):
                        fails.append(F("C", "%s holds but runL gives %s and runLS %s" % (which, json.dumps(lin["model"])[:300], json.dumps(lin["spec"])[:300]), "C:ops_refine"))
                    elif run.lin_obs is not None and lin["cur"] == run.lin_cur and not same(run.lin_obs, lin["spec"]):
                        fails.append(F("B", "a history of %d operations that meets every side condition (%s) ends with the table %s; the specification machine (runLS: append (and keep in index order) / stable sort / plain filter) gives %s"
                                       % (lin["n"], which, json.dumps(run.lin_obs)[:400], json.dumps(lin["spec"])[:400]), "history-differs-from-specification-machine"))
                    elif run.lin_obs is not None and lin["cur"] == run.lin_cur:
                        tags.append("L:checked-against-code")
            # (C) the theorem at run time: where the hypotheses of where_eq_spec_partial hold and the plain evaluation is defined,
            # the model's result is the specification's
            for mk_, sp in enumerate(ans.get("spec", [])):
                if not sp:
                    continue
                k = run.mop_case[mk_] if mk_ < len(run.mop_case) else None
                if k is None:
                    continue
                if "ihyp" in sp:
                    ih = sp["ihyp"] or sp.get("ihyp2")
                    tags.append("C:insert-hyp-" + ("holds" if ih else "fails") + (":indexed" if ih and not sp.get("exact", True) else ""))
                    m = model[mk_ + 1]
                    if ih and "rows" in m:
                        agree = m["rows"] == sp["rows"] if sp.get("exact", True) else keyrows(m) == keyrows(sp)
                        if not agree or m.get("columns") != sp["columns"]:
                            fails.append(F("C", "op #%d: insertWF holds but the model's table is %s and insertSpec gives %s %s" % (k, json.dumps(m)[:300], sp["columns"], json.dumps(sp["rows"])[:300]), "C:insert_eq_spec"))
                    elif ih:
                        fails.append(F("C", "op #%d: insertWF holds but the model's insert gives %s" % (k, json.dumps(m)[:300]), "C:insert_eq_spec"))
                    if sp.get("ihyp2") and not sp.get("inv_after"):
                        fails.append(F("C", "op #%d: the invariant and insertOK hold before the insert but the model's table afterwards is not in index order: %s" % (k, json.dumps(m)[:300]), "C:insert_keeps_index_order"))
                    continue
                if "perm" in sp:
                    tags.append("C:index-hyp-" + ("holds" if sp["hyp"] else "fails"))
                    if sp["hyp"] and not (sp["perm"] and sp["sorted"] and sp.get("stablesort", True)):
                        fails.append(F("C", "op #%d: hypotheses of index_spec_partial / index_eq_spec hold but the model's rows are %s"
                                       % (k, "not a rearrangement" if not sp["perm"] else "not in index order" if not sp["sorted"] else "not the stable lexicographic sort (indexS)"), "C:index_spec"))
                    continue
                tags.append("C:where-hyp-" + ("holds" if sp["hyp"] else "fails"))
                tags.append("C:where-hyp2-" + ("holds" if sp.get("hyp2") else "fails"))
                m = model[mk_ + 1]
                # the two readings below are compared on ONE table: in a stale history the cache-free model (which `spec` comes from)
                # may hold another table than the code from the first answer of a stale object on (that answer is compared with the
                # machine with caches only), so they are compared while everything observed so far is what this model shows too
                same_table = all(a == b for a, b in zip(model[:mk_ + 1], run.obs[:mk_ + 1]))
                if not same_table:
                    tags.append("C:spec-on-another-table-than-the-code:skipped")
                if same_table and sp.get("match") is not None and k in run.naive and run.naive[k] is not None:
                    # `matchCell` (Lean) and the harness' cell-by-cell reading of match must keep the same rows
                    tags.append("C:match-spec-compared")
                    if run.naive[k] != sp["match"]:
                        fails.append(F("C", "op #%d: the harness' reading of match keeps %s, matchCell keeps %s" % (k, json.dumps(run.naive[k])[:300], json.dumps(sp["match"])[:300]), "C:naive-vs-matchCell"))
                # the Lean specification and the harness' plain evaluation are two readings of the same sentence: they must agree
                if same_table and not any(f["kind"] == "A" for f in fails) and k in run.naive and "pred" in case["ops"][k] and not case["ops"][k].get("pred"):
                    nv = run.naive[k]
                    if isinstance(sp["spec"], list) and nv is not None and nv != sp["spec"]:
                        fails.append(F("C", "op #%d: the harness' plain evaluation keeps %s, whereS keeps %s" % (k, json.dumps(nv)[:300], json.dumps(sp["spec"])[:300]), "C:naive-vs-whereS"))
                    elif isinstance(sp["spec"], list) and nv is None:
                        tags.append("C:whereS-defined-naive-raises")
                    elif isinstance(sp["spec"], dict) and nv is not None:
                        tags.append("C:whereS-raises-naive-defined:" + sp["spec"].get("err", "?"))
                if (sp["hyp"] or sp.get("hyp2")) and isinstance(sp["spec"], list):
                    tags.append("C:where-checked")
                    if m.get("rows") != sp["spec"]:
                        fails.append(F("C", "op #%d: hypotheses of where_eq_spec_partial hold but the model returns %s and whereS %s" % (k, json.dumps(m)[:300], json.dumps(sp["spec"])[:300]), "C:where_eq_spec"))
        return {"fails": fails, "nontrivial": run.nontrivial, "tags": tags, "impl": run.obs, "model": model}

    def shrink(self, case):
        if "vt" in case:
            v = case["vt"]
            for k in range(len(v["cells"])):
                if len(v["cells"]) > 1:
                    yield {"vt": dict(v, cells=v["cells"][:k] + v["cells"][k + 1:])}
            for k in range(len(v["probes"])):
                if len(v["probes"]) > 1:
                    yield {"vt": dict(v, probes=v["probes"][:k] + v["probes"][k + 1:])}
            return
        if "lib" in case or "fromres" in case:
            return
        if "sort" in case:
            cells = case["sort"]["cells"]
            for k in range(len(cells)):
                yield {"sort": {"cells": cells[:k] + cells[k + 1:]}}
            return
        for c in self._shrink_ops(case):
            if case.get("stale"):
                c["stale"] = True
            yield c

    def _shrink_ops(self, case):
        ops = case["ops"]
        init = case["init"]
        # drop an operation (renumbering later table ids when the dropped one created a table)
        for k in range(len(ops) - 1, -1, -1):
            creates = ops[k]["op"] in ("where", "copy")
            made = 1 + sum(1 for o in ops[:k] if o["op"] in ("where", "copy"))
            new, ok = [], True
            for j, o in enumerate(ops):
                if j == k:
                    continue
                o = dict(o)
                if creates and j > k:
                    if o["t"] == made:
                        ok = False
                        break
                    if o["t"] > made:
                        o["t"] -= 1
                    if o["op"] == "where":
                        # probe collections that are a live column of a table: same renumbering
                        kws = []
                        for c, a in o["kws"]:
                            inner = a["d"][1] if "d" in a else a
                            if "col" in inner:
                                tid = inner["col"][0]
                                if tid == made:
                                    ok = False
                                    break
                                if tid > made:
                                    inner = {"col": [tid - 1, inner["col"][1]]}
                                    a = {"d": [a["d"][0], inner]} if "d" in a else inner
                            kws.append([c, a])
                        if not ok:
                            break
                        o["kws"] = kws
                new.append(o)
            if ok:
                yield {"init": init, "ops": new}
        for k, o in enumerate(ops):
            def rep(x):
                return {"init": init, "ops": ops[:k] + [x] + ops[k + 1:]}
            if o["op"] == "insert":
                key = "cols" if o["shape"] == "cols" else "rows"
                if o["shape"] == "cols":
                    n = len(o["cols"][0][1]) if o["cols"] else 0
                    for i in range(n):
                        yield rep(dict(o, cols=[[c, v[:i] + v[i + 1:]] for c, v in o["cols"]]))
                else:
                    for i in range(len(o[key])):
                        yield rep(dict(o, rows=o["rows"][:i] + o["rows"][i + 1:]))
                    if o["shape"] == "dicts":
                        for i, d in enumerate(o["rows"]):
                            for j in range(len(d)):
                                yield rep(dict(o, rows=o["rows"][:i] + [d[:j] + d[j + 1:]] + o["rows"][i + 1:]))
            elif o["op"] == "index":
                for i in range(len(o["cols"])):
                    yield rep(dict(o, cols=o["cols"][:i] + o["cols"][i + 1:]))
            elif o["op"] == "where":
                if len(o["kws"]) > 1:
                    for i in range(len(o["kws"])):
                        yield rep(dict(o, kws=o["kws"][:i] + o["kws"][i + 1:]))
                for i, (c, a) in enumerate(o["kws"]):
                    tgt = a["d"][1] if "d" in a else a
                    if "l" in tgt:
                        for j in range(len(tgt["l"])):
                            t2 = dict(tgt, l=tgt["l"][:j] + tgt["l"][j + 1:])
                            a2 = {"d": [a["d"][0], t2]} if "d" in a else t2
                            yield rep(dict(o, kws=o["kws"][:i] + [[c, a2]] + o["kws"][i + 1:]))
                if o.get("pos") and all("d" in a or "f" in a for _, a in o["kws"]):
                    yield rep(dict(o, pos=None))
            elif o["op"] == "groupby":
                if o.get("select") not in (None, "count"):
                    yield rep(dict(o, select="count"))
        if init["kind"] != "columns":
            n = len(init["data"][0][1]) if init["data"] else 0
            for i in range(n):
                yield {"init": dict(init, data=[[c, v[:i] + v[i + 1:]] for c, v in init["data"]]), "ops": ops}

    def snippet(self, case):
        if "vt" in case:
            return vt_snippet(case)
        if "sort" in case:
            return sort_snippet(case)
        if "lib" in case:
            return lib_snippet(case)
        if "fromres" in case:
            return fromres_snippet(case)
        return plain_snippet(case)


PROPERTY = C17()
