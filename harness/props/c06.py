"""C06 Sequential evaluation feeds and records exactly what the environment provides.

Case format (JSON):
  cfg     {"learn": "on"|"off"|"ips"|null, "eval": "on"|"ips"|null, "record": [names]}
  env     {"batch": null|n, "gen": bool (read() returns a generator), "inters": [[ [key, valspec], … ], …]}
          valspec: null | int | str | {"f":[n,d]} float | {"b":0|1} bool | {"l":[…]} list | {"t":[…]} tuple | {"d":[[k,v],…]} dict
          key 'rewards' holds either {"l":[numbers]} (sequence rewards) or {"rfn":{kind,…}} (functional rewards)
  learner {"fmt","has_score","batch_mode","kw_keys","script":[{"idx","free","p","pint","kw","s"}], "prewrap": bool}
  then    optional [{"cfg","env"}, …]: further evaluations run afterwards with the SAME learner object (a history); every
          evaluation is judged on its own
"""
import json
import os
import sys
from fractions import Fraction

from core.engine import Property, F

RESERVED = ("context", "actions", "rewards", "action", "reward", "probability")
RECORD_ALL = ["reward", "time", "probability", "action", "context", "actions", "rewards"]
TIMING = ("predict_time", "learn_time")


# ------------------------------------------------------------------ values
def mk(v):
    """valspec -> python value"""
    if v is None or isinstance(v, (int, str)):
        return v
    if "f" in v:
        return v["f"][0] / v["f"][1]
    if "b" in v:
        return bool(v["b"])
    if "l" in v:
        return [mk(x) for x in v["l"]]
    if "t" in v:
        return tuple(mk(x) for x in v["t"])
    if "d" in v:
        return {k: mk(x) for k, x in v["d"]}
    raise ValueError(v)


def fr(x):
    """python number -> Fraction (exact)"""
    if isinstance(x, bool):
        return Fraction(int(x))
    return Fraction(x)


def cn(x):
    from props.c06_learners import canon
    return canon(x)


def cnum(q):
    q = Fraction(q)
    return ["q", q.numerator, q.denominator]


def isnum(c):
    return isinstance(c, list) and len(c) == 3 and c[0] == "q"


def close(a, b):
    """canonical numbers equal up to float noise of one division/multiplication"""
    if a == b:
        return True
    if isnum(a) and isnum(b):
        x, y = Fraction(a[1], a[2]), Fraction(b[1], b[2])
        return abs(x - y) <= Fraction(1, 10 ** 12) * max(1, abs(y))
    return False


def ceq(a, b, tol=False):
    """structural equality of canonical values.  Exact, except that with `tol` numbers may differ by the float noise of
    one division/multiplication: only computed rewards (r/p, score*r/p against the model's exact rationals) are compared
    that way -- contexts, actions, probabilities, kwargs and extra fields are values the code must pass on untouched,
    and an integer id that came back rounded through float() must not compare equal"""
    if tol and (isnum(a) or isnum(b)):
        return close(a, b)
    if isinstance(a, list) and isinstance(b, list):
        return len(a) == len(b) and all(ceq(x, y, tol) for x, y in zip(a, b))
    return a == b


# ------------------------------------------------------------------ reward functions
def rfn_py(spec):
    """build the real coba reward object"""
    from coba.primitives import L1Reward, BinaryReward, DiscreteReward, HammingReward
    k = spec["kind"]
    if k == "L1":
        return L1Reward(mk(spec["argmax"]))
    if k == "binary":
        return BinaryReward(mk(spec["argmax"]), mk(spec["value"]))
    if k == "discrete2":
        return DiscreteReward([mk(a) for a in spec["actions"]], [mk(r) for r in spec["rewards"]], default=mk(spec.get("default", 0)))
    if k == "discreteM":
        return DiscreteReward({mk(a): mk(r) for a, r in zip(spec["actions"], spec["rewards"])}, default=mk(spec.get("default", 0)))
    if k == "hamming":
        return HammingReward([mk(a) for a in spec["argmax"]])
    if k == "lambda":
        tbl = [(mk(a), mk(r)) for a, r in zip(spec["actions"], spec["rewards"])]
        dflt = mk(spec.get("default", 0))

        def f(a, tbl=tbl, dflt=dflt):
            for x, r in tbl:
                if x == a:
                    return r
            return dflt
        return f
    raise ValueError(k)


def rfn_value(spec, a):
    """the harness's own evaluation of a functional reward at python action `a` (not coba's code)"""
    k = spec["kind"]
    if k == "L1":
        return -abs(a - mk(spec["argmax"]))
    if k == "binary":
        return mk(spec["value"]) if cn(a) == cn(mk(spec["argmax"])) else 0
    if k in ("discrete2", "discreteM", "lambda"):
        for x, r in zip(spec["actions"], spec["rewards"]):
            if cn(mk(x)) == cn(a):
                return mk(r)
        return mk(spec.get("default", 0))
    if k == "hamming":
        am = [cn(mk(x)) for x in spec["argmax"]]
        n_int = sum(1 for x in a if cn(x) in am)
        return n_int / (len(am) + len(a) - n_int)
    raise ValueError(k)


# ------------------------------------------------------------------ building the real objects
def build_inter(pairs, ctor=False):
    """the interaction as a plain `Interaction` dict, or (ctor) through coba's own constructors -- LoggedInteraction(context, action,
    reward, probability, **rest) when the spec has context/action/reward, SimulatedInteraction(context, actions, rewards, **rest)
    when it has context/actions/rewards -- whose arguments are then what the environment provides"""
    from coba.primitives import Interaction, LoggedInteraction, SimulatedInteraction
    vals = {}
    for k, v in pairs:
        vals[k] = rfn_py(v["rfn"]) if (k == "rewards" and isinstance(v, dict) and "rfn" in v) else mk(v)
    if ctor and all(k in vals for k in ("context", "action", "reward")):
        rest = {k: v for k, v in vals.items() if k not in ("context", "action", "reward", "probability")}
        if "probability" in vals:
            return LoggedInteraction(vals["context"], vals["action"], vals["reward"], vals["probability"], **rest)
        return LoggedInteraction(vals["context"], vals["action"], vals["reward"], **rest)
    if ctor and all(k in vals for k in ("context", "actions", "rewards")):
        rest = {k: v for k, v in vals.items() if k not in ("context", "actions", "rewards")}
        return SimulatedInteraction(vals["context"], vals["actions"], vals["rewards"], **rest)
    d = Interaction()
    d.update(vals)
    return d


class CaseEnv:
    """an Environment-like (only `read` and `params` are needed by SequentialCB / Experiment)"""

    def __init__(self, inters, batch, as_gen, ctor=False):
        self.inters, self.batch, self.as_gen, self.ctor = inters, batch, as_gen, ctor

    @property
    def params(self):
        return {"env_type": "c06case"}

    def read(self):
        from coba.environments import Batch
        it = [build_inter(p, self.ctor) for p in self.inters]
        src = iter(it) if self.as_gen else it
        if self.batch:
            return Batch(self.batch).filter(src)
        return src


def canon_row(row):
    return sorted([[str(k), cn(v)] for k, v in row.items() if k not in TIMING], key=lambda kv: kv[0])


def raw_episodes(case):
    """the evaluations of a case in order, as the case spells them: [(cfg, env)]"""
    return [(case["cfg"], case["env"])] + [(t["cfg"], t["env"]) for t in case.get("then", [])]


NOT_EXTRA = RESERVED + ("learn_rewards", "eval_rewards")


def stop_rows(env):
    """phase 6 -- env['stop'] = k: the consumer of evaluate()'s generator takes k rows, rounded up to whole loop passes (Unbatch hands
    the rows of a batch out one at a time), then CLOSES the generator.  Returns the number of rows taken = interactions the loop
    got through, or None when the environment is read to the end.  Only where every interaction is certain to give a row (each
    has an additional field, so `if out: yield out` never skips) and the reserved keys are homogeneous."""
    k, inters = env.get("stop"), env["inters"]
    if not k or k < 1 or not inters or hetero(env):
        return None
    if not all(any(key not in NOT_EXTRA for key, _ in p_) for p_ in inters):
        return None
    bs = env.get("batch") or 1
    return min(-(-k // bs) * bs, len(inters))


def seen_env(env):
    """what an abandoned evaluation got through (theorems stopped_*_is_evaluation_of_prefix): the first stop_rows interactions;
    'stopped' keeps the number of passes and the whole environment for the model's evaluateStopped"""
    m = stop_rows(env)
    if m is None:
        return {k: v for k, v in env.items() if k != "stop"} if "stop" in env else env
    bs = env.get("batch") or 1
    return dict({k: v for k, v in env.items() if k != "stop"}, inters=env["inters"][:m],
                stopped={"rows": m, "passes": -(-m // bs), "full": env["inters"]})


def episodes(case):
    """the evaluations of a case in order: [(cfg, env)] -- an abandoned evaluation (env['stop']) is the evaluation of the interactions
    it got through, for the monitor (B), the model (A) and the spec (C) alike"""
    return [(c_, seen_env(e_)) for c_, e_ in raw_episodes(case)]


def episode_learner(case, k):
    """learner spec of evaluation k: `then` entries may bring their own learner (a different learner object); otherwise the
    case's learner object is used again"""
    if k == 0:
        return case["learner"]
    return case["then"][k - 1].get("learner") or case["learner"]


def episode_case(case, k):
    cfg, env = episodes(case)[k]
    return {"cfg": cfg, "env": env, "learner": episode_learner(case, k), "experiment_seed": episode_seed(case, k)}


def episode_seed(case, k):
    """CobaContext.store['experiment_seed'] during evaluation k (`then` entries may change it)"""
    if k > 0 and "experiment_seed" in case["then"][k - 1]:
        return case["then"][k - 1]["experiment_seed"]
    return case.get("experiment_seed")


def effective_seed(case):
    """the seed SafeLearner's generator must be built with: the evaluator's own seed whenever it is not None (0 and 0.0 are
    seeds!), else the experiment's seed; None = time-seeded (no draw can be predicted)"""
    own = mk(case["learner"].get("pmf_seed"))
    return own if own is not None else case.get("experiment_seed")


PRE_SIM = [{"context": 10 * (i + 1), "actions": ["a", "b", "c"], "rewards": [0.25 * i, 0.5, 0.75]} for i in range(3)]
PRE_LOG = [{"context": 10 * (i + 1), "actions": ["a", "b", "c"], "action": "b", "reward": 0.5 + i, "probability": 0.5} for i in range(3)]


def run_pre(op):
    """an earlier operation in the same process that leaves CobaContext.learning_info non-empty (what the property's "exactly what
    the environment provides" must be robust against -- Experiment's ProcessTasks goes on to the next task after a failed one):
      {"kind":"crash","where":"learn"|"predict"|"score","at":k,"info":[[key,valspec],…]}  a SequentialCB evaluation whose learner writes
          learning_info and then raises in its (k+1)-th learn/predict/score call -- the evaluation is aborted mid-pass;
      {"kind":"rejection","info":[…]}  a complete RejectionCB evaluation whose learner writes learning_info in learn (RejectionCB clears the
          dict at the top of each pass only, so the last pass's info stays behind).
    Returns a short description of what happened (exception name or row count)."""
    from coba.context import CobaContext
    from coba.evaluators.sequential import SequentialCB, RejectionCB
    info = {k: mk(v) for k, v in op["info"]}
    where, at = op.get("where"), op.get("at", 0)

    class Env:
        def __init__(self, rows):
            self._rows = rows
        params = {}
        def read(self):
            return [dict(r) for r in self._rows]

    class Noisy:
        def __init__(self):
            self.n = {"predict": 0, "learn": 0, "score": 0}
        def _hit(self, m):
            self.n[m] += 1
            CobaContext.learning_info.update(info)
            if where == m and self.n[m] > at:
                raise RuntimeError("pre-operation learner fails in %s call #%d" % (m, self.n[m]))
        def predict(self, context, actions):
            self._hit("predict")
            return actions[0], 0.5
        def score(self, context, actions, action):
            self._hit("score")
            return 1.0
        def learn(self, context, action, reward, probability):
            self._hit("learn")

    try:
        if op["kind"] == "rejection":
            return "rows=%d" % len(list(RejectionCB(record=["reward"], cinit=1, seed=1).evaluate(Env(PRE_LOG), Noisy())))
        if where == "score":
            ev = SequentialCB(record=["reward"], learn="off", eval="ips")
            return "rows=%d" % len(list(ev.evaluate(Env(PRE_LOG), Noisy())))
        return "rows=%d" % len(list(SequentialCB().evaluate(Env(PRE_SIM), Noisy())))
    except RuntimeError as e:
        return "RuntimeError"


def episode_pre(case, k):
    return (case.get("pre") if k == 0 else case["then"][k - 1].get("pre")) or []


def monitor_foreign(case, impl):
    """(B) "additional interaction fields are carried into the row unchanged" and nothing else is: every key of a recorded row is a
    recorded variable, a timing column, a field of this environment's interactions, or learning_info written by THIS evaluation's learner"""
    if not impl["rows"]:
        return []
    allowed = set(RESERVED) | {k for p_ in case["env"]["inters"] for k, _ in p_}
    if case["learner"].get("info"):
        allowed |= {k for e in case["learner"]["script"] for k, _ in list(e.get("ip", [])) + list(e.get("il", []))}
    for i, row in enumerate(impl["rows"]):
        foreign = sorted(k for k, _ in row if k not in allowed)
        if foreign:
            stale = all(k.startswith("stale_") for k in foreign)
            return [F("B", "row %d holds %s=%s: neither a recorded variable nor a field of this environment nor learning_info written by this evaluation's "
                           "learner%s" % (i, foreign, [v for k, v in row if k in foreign][:3],
                                          " (left in CobaContext.learning_info by an earlier operation in the same process: %s)" % json.dumps(episode_pre_of(case)) if stale else ""),
                      "rows:foreign-key" + (":stale-learning_info" if stale else ""))]
    return []


def episode_pre_of(case):
    return case.get("pre") or []


def run_history(case):
    """run the real SequentialCB exactly as Experiment's ProcessTasks does, list(SafeEvaluator(val).evaluate(env, lrn)), once per
    episode.  Episodes without a learner of their own reuse the case's learner OBJECT (the recording learner itself, or one
    SafeLearner wrapped around it when learner['prewrap']); with case['reuse_evaluator'] one SequentialCB OBJECT serves all
    episodes (which then share the config), as an Experiment does.  Returns one observation per episode: exception, rows, the
    calls the episode's learner saw during that episode and that learner's script position when the episode started."""
    from coba.context import CobaContext, NullLogger
    from coba.evaluators.sequential import SequentialCB
    from coba.safety import SafeEvaluator, SafeLearner
    from props.c06_learners import RecLearner

    def build(L):
        script = [dict(e, free=mk(e.get("free")), kw={k: mk(v) for k, v in e.get("kw", {}).items()},
                       ip={k: mk(v) for k, v in e.get("ip", [])}, il={k: mk(v) for k, v in e.get("il", [])}) for e in L["script"]]
        lrn = RecLearner(script, L["fmt"], L["has_score"], L.get("batch_mode", "aware"), L.get("kw_keys", ()), info=bool(L.get("info")))
        return lrn, (SafeLearner(lrn) if L.get("prewrap") else lrn)

    shared = build(case["learner"])
    shared_ev = None
    outs = []
    old_logger = CobaContext.logger
    CobaContext.logger = NullLogger()
    had_seed = "experiment_seed" in CobaContext.store
    old_seed = CobaContext.store.get("experiment_seed")
    try:
        for k, (cfg, envd) in enumerate(raw_episodes(case)):
            if episode_seed(case, k) is not None:
                CobaContext.store["experiment_seed"] = episode_seed(case, k)      # what Experiment.run(seed=…) leaves for the evaluators
            else:
                CobaContext.store.pop("experiment_seed", None)
            L = episode_learner(case, k)
            lrn, given = shared if (k == 0 or not case["then"][k - 1].get("learner")) else build(L)
            if k == 0:
                CobaContext.learning_info.clear()        # once per history; between evaluations the evaluator itself has to cope
            pre_notes = [run_pre(op) for op in episode_pre(case, k)]
            n0 = len(lrn.calls)
            r0 = len(lrn.raw)
            out = {"exc": None, "rows": None, "s0": [lrn.n_pred, lrn.n_score]}
            if pre_notes:
                out["pre"] = pre_notes
            try:
                if case.get("reuse_evaluator"):
                    if shared_ev is None:
                        shared_ev = SequentialCB(record=list(cfg["record"]), learn=cfg["learn"], eval=cfg["eval"], seed=mk(L.get("pmf_seed")))
                    ev = shared_ev
                else:
                    ev = SequentialCB(record=list(cfg["record"]), learn=cfg["learn"], eval=cfg["eval"], seed=mk(L.get("pmf_seed")))
                env = CaseEnv(envd["inters"], envd.get("batch"), envd.get("gen", False), envd.get("ctor", False))
                take = stop_rows(envd)
                if take is None:
                    rows = list(SafeEvaluator(ev).evaluate(env, given))
                else:
                    # an early consumer stop: take `take` rows, then close the generator (GeneratorExit at the suspended yield)
                    it, rows = iter(SafeEvaluator(ev).evaluate(env, given)), []
                    for r in it:
                        rows.append(r)
                        if len(rows) >= take:
                            break
                    n_close = len(lrn.calls)
                    if hasattr(it, "close"):
                        it.close()
                    del it
                    out["after_close"] = len(lrn.calls) - n_close
                out["rows"] = [canon_row(r) for r in rows]
            except Exception as e:       # noqa: any exception is an observable here
                out["exc"] = type(e).__name__
                out["msg"] = str(e)[:300]
            except BaseException as e:   # noqa: CobaExit (missing optional package) derives from BaseException
                if type(e).__name__ != "CobaExit":
                    raise
                out["exc"] = "CobaExit"
                out["msg"] = str(e)[:300]
            out["calls"] = [dict(c) for c in lrn.calls[n0:]]
            out["raw"] = [dict(c) for c in lrn.raw[r0:]]
            outs.append(out)
    finally:
        CobaContext.logger = old_logger
        CobaContext.learning_info.clear()
        if had_seed:
            CobaContext.store["experiment_seed"] = old_seed
        else:
            CobaContext.store.pop("experiment_seed", None)
    return outs


def run_impl(case):
    """first (or only) evaluation of a case"""
    return run_history(case)[0]


# ------------------------------------------------------------------ the property, read directly (B)
def idict(pairs):
    return {k: v for k, v in pairs}


def need_pred_mode(learn, ev, has_score):
    """a prediction is part of the mode's documented meaning"""
    return learn in ("on", "ips") or ev == "on" or (ev == "ips" and not has_score)


def need_pred(cfg, has_score):
    rec = cfg["record"]
    return need_pred_mode(cfg["learn"], cfg["eval"], has_score) or (bool(cfg["eval"]) and ("action" in rec or "probability" in rec))


def documented_required(cfg, has_score):
    """SequentialCB docstring: on needs actions+rewards; off needs action+reward; ips needs actions, action, reward
    and probability.  'actions' is only demanded where the mode's meaning involves a prediction (score-based IPS
    evaluation is well defined without an action set)."""
    learn, ev = cfg["learn"], cfg["eval"]
    req = []
    if need_pred(cfg, has_score):
        req.append("actions")
    if learn == "on" or ev == "on":
        req.append("rewards")
    if learn in ("off", "ips") or ev == "ips":
        req += ["action", "reward"]
    if learn == "ips" or ev == "ips":
        req.append("probability")
    return req


def env_reward(first_pairs, pairs, a):
    """the environment's reward for python action `a` in this interaction"""
    d = idict(pairs)
    rw = d["rewards"]
    if isinstance(rw, dict) and "rfn" in rw:
        return rfn_value(rw["rfn"], a)
    acts = [cn(mk(x)) for x in d["actions"]["l"]]
    rs = [mk(x) for x in rw["l"]]
    ca = cn(a)
    return rs[acts.index(ca)] if ca in acts else 0


def ips_reward(d, a):
    r, p = mk(d["reward"]), mk(d.get("probability"))
    v = r / (p or 1)
    return v if cn(a) == cn(mk(d["action"])) else 0


def uncanon(c):
    """canonical form -> a python value that is == to the original"""
    if c is None:
        return None
    t = c[0]
    if t == "q":
        q = Fraction(c[1], c[2])
        return int(q) if q.denominator == 1 else float(q)
    if t == "s":
        return c[1]
    if t == "l":
        return tuple(uncanon(x) for x in c[1])
    if t == "d":
        return {k: uncanon(v) for k, v in c[1]}
    raise ValueError(c)


def known_gap(key, cfg, has_score):
    """requirements the docstring states but `_required` does not enforce (recorded findings): returns a suffix"""
    if key == "probability":
        return ""
    if key == "actions" and not need_pred_mode(cfg["learn"], cfg["eval"], has_score):
        return ":record-forced-predict"
    return None


def exc_class(case, impl):
    """narrow signature of an exception raised on an environment that has every documented field"""
    cfg, env = case["cfg"], case["env"]
    msg, exc = impl.get("msg", ""), impl["exc"]
    first = idict(env["inters"][0])
    batched = bool(env.get("batch"))
    if exc == "UnboundLocalError" and "learn_time" in msg and "time" in cfg["record"] and not cfg["learn"]:
        return "raises:UnboundLocalError:learn_time:time-without-learn"
    if exc == "TypeError" and "has no len()" in msg and batched and cfg["learn"] in ("off", None) and not cfg["eval"]:
        return "raises:TypeError:none-len:batched-without-reward-mode"
    absent = ("context" not in first) or ("probability" not in first and cfg["learn"] == "off") or ("actions" not in first)
    if exc == "TypeError" and batched and absent and ("'NoneType' object is not iterable" in msg or "'NoneType' object is not subscriptable" in msg):
        return "raises:TypeError:none-arg:batched-absent-field"
    if exc == "KeyError" and "probability" in msg and "probability" in first and any("probability" not in idict(p_) for p_ in env["inters"]):
        return "raises:KeyError:probability:later-interaction-without-probability"     # finding F8, the other direction
    return "raises:%s:%s" % (exc, "".join(ch if ch.isalnum() else "-" for ch in msg[:40]))


def monitor(case, impl):
    """(B) the property evaluated directly on what the real code did.  Returns (fails, tags)."""
    fails, tags = [], []
    cfg, L, env = case["cfg"], case["learner"], case["env"]
    inters = env["inters"]
    learn, ev, rec = cfg["learn"], cfg["eval"], cfg["record"]
    has_score = L["has_score"]
    mode = "learn=%s,eval=%s" % (learn, ev)
    calls = impl["calls"]
    if not inters:
        tags.append("empty-env")
        if impl["exc"] or calls or impl["rows"]:
            fails.append(F("B", "empty environment: expected no calls and no rows, got exc=%s calls=%d rows=%s" % (impl["exc"], len(calls), impl["rows"]), "empty-env-output"))
        return fails, tags
    first = idict(inters[0])
    missing = [k for k in documented_required(cfg, has_score) if k not in first]
    if missing:
        tags.append("reject:" + "+".join(missing))
        upfront = impl["exc"] is not None and not calls
        if not upfront:
            strict = [k for k in missing if known_gap(k, cfg, has_score) is None]
            for k in (strict or missing):
                gap = known_gap(k, cfg, has_score)
                fails.append(F("B", "SequentialCB(learn=%r,eval=%r,record=%r) on an environment without %r (documented as required) was not rejected before the learner was used: exc=%s, learner calls=%d, rows=%s"
                               % (learn, ev, rec, k, impl["exc"], len(calls), "none" if impl["rows"] is None else len(impl["rows"])),
                               "not-rejected-upfront:missing=%s%s" % (k, gap or "")))
        if not (missing == ["probability"] and impl["exc"] is None):
            return fails, tags
        # finding F1: the code goes on with `probability or 1` per interaction.  Go on too, so that what it then feeds and records is
        # still held to that (documented by OpeRewards) reading -- in particular on logs where only some interactions carry a propensity
        tags.append("ips-without-first-probability")
    if impl["exc"]:
        sig = exc_class(case, impl)
        tags.append("exc:" + impl["exc"])
        fails.append(F("B", "SequentialCB(learn=%r,eval=%r,record=%r) raised %s(%s) on an environment that has every field the mode needs (batch=%s, learner batch_mode=%s)"
                       % (learn, ev, rec, impl["exc"], impl.get("msg", "")[:120], env.get("batch"), L.get("batch_mode")), sig))
        return fails, tags

    np_ = need_pred(cfg, has_score)
    sb = ev == "ips" and has_score and not np_
    batched = bool(env.get("batch"))
    bs = env.get("batch") or 1
    pos = 0
    exp_rows = []
    unknown_draw = False
    draw_rng = None
    if L["fmt"] in PMF_FMTS and effective_seed(case) is not None:
        from coba.random import CobaRandom
        draw_rng = CobaRandom(effective_seed(case))     # SafeLearner(learner, seed): one choicew per predicted row, rows in order
    infos_pred, infos_learn = {}, {}

    def bad(what, sig):
        fails.append(F("B", what, sig))

    for lo in range(0, len(inters), bs):
        chunk = inters[lo:lo + bs]
        rets = [None] * len(chunk)
        scs = [None] * len(chunk)
        for r, pairs in enumerate(chunk):
            d = idict(pairs)
            ctx = cn(mk(d.get("context")))
            acts = cn(mk(d["actions"])) if "actions" in d else None
            if np_ or sb:
                want = "predict" if np_ else "score"
                c = calls[pos] if pos < len(calls) else None
                if c is None or c["m"] != want:
                    bad("interaction %d: expected a %s call, the learner saw %s (%s)" % (lo + r, want, c and c["m"], mode), "trace:missing-%s:%s" % (want, mode))
                    return fails, tags
                if not ceq(c["ctx"], ctx):
                    bad("interaction %d: %s received context %s, the environment has %s" % (lo + r, want, c["ctx"], ctx), "trace:%s-context" % want)
                if not ceq(c["acts"], acts):
                    bad("interaction %d: %s received actions %s, the environment has %s" % (lo + r, want, c["acts"], acts), "trace:%s-actions" % want)
                infos_pred[lo + r] = c.get("info")
                if sb:
                    if not ceq(c["a"], cn(mk(d["action"]))):
                        bad("interaction %d: score received action %s, logged action is %s" % (lo + r, c["a"], cn(mk(d["action"]))), "trace:score-action")
                    scs[r] = c["ret"]
                else:
                    rets[r] = c["ret"]
                pos += 1
        n_predicts = sum(1 for c in calls if c["m"] == "predict")
        if np_ and batched and lo == 0 and n_predicts == len(inters) + 1 and pos < len(calls) and calls[pos]["m"] == "predict":
            d0 = idict(chunk[0])
            if ceq(calls[pos]["ctx"], cn(mk(d0.get("context")))) and ceq(calls[pos]["acts"], cn(mk(d0["actions"])) if "actions" in d0 else None):
                # finding F2 is the probe of a batch-ACCEPTING learner; a learner that refused the batch was called row by row
                # (`_method['predict'] == 2` => batch_order answers 'row' without asking) and must never see a surplus predict
                refusing = L.get("batch_mode", "aware") != "aware"
                bad("batched evaluation: the learner saw a second predict for the first interaction (SafeLearner probes the orientation of the "
                    "first batch prediction when batch size == len(prediction row)); the property allows one predict per interaction"
                    + ("; this learner refuses batched arguments and is called row by row, where the orientation is known" if refusing else ""),
                    "trace:extra-predict:batched-orientation-probe" + (":batch-refusing-learner" if refusing else ""))
                tags.append("probe")
                pos += 1
        for r, pairs in enumerate(chunk):
            d = idict(pairs)
            ctx = cn(mk(d.get("context")))
            ret = rets[r]
            if ret is not None and ret.get("pmf") is not None and draw_rng is not None:
                # the action SafeLearner must have drawn: CobaRandom(effective seed).choicew(actions, pmf), one draw per row in order
                ws_f = [float(Fraction(w[1], w[2])) for w in ret["pmf"][1]]
                # (independent of choicew: the index is drawn as choicew documents -- choice(range(n), weights) -- and the probability
                # the property demands is the learner's OWN entry for that action, exactly; no normalisation, no tolerance)
                acts_py = mk(d["actions"])
                qi = draw_rng.choice(list(range(len(acts_py))), ws_f)
                ea, ep = acts_py[qi], ws_f[qi]
                c = calls[pos] if (learn in ("on", "ips") and pos < len(calls) and calls[pos]["m"] == "learn") else None
                if c is not None and ceq(c["a"], cn(ea)) and not ceq(c["p"], cn(ep)):
                    bad("interaction %d: the learner predicted the PMF %s (float sum %r) and action %s was played; learn must receive exactly the "
                        "probability the learner predicted for the chosen action, %r, but received %s"
                        % (lo + r, ws_f, sum(ws_f), cn(ea), ep, c["p"]), "trace:pmf-probability-not-own-entry")
                elif c is not None and not (ceq(c["a"], cn(ea)) and ceq(c["p"], cn(ep))):
                    bad("interaction %d: the learner answered the PMF %s; with SequentialCB(seed=%r) and experiment seed %r the action must be drawn by "
                        "CobaRandom(%r): action=%s probability=%s, but learn received action=%s probability=%s"
                        % (lo + r, ret["pmf"][1], mk(L.get("pmf_seed")), case.get("experiment_seed"), effective_seed(case), cn(ea), cn(ep), c["a"], c["p"]),
                        "trace:pmf-draw:seed")
                ret = dict(ret, a=cn(ea), p=cn(ep))
            elif ret is not None and ret.get("pmf") is not None:
                # PMF answer: SafeLearner drew the action.  With on-policy learning the learn call shows which; it must be an
                # action of this interaction with positive mass and the probability handed on must be that mass.
                c = calls[pos] if (learn in ("on", "ips") and pos < len(calls) and calls[pos]["m"] == "learn") else None
                if c is None:
                    ret = None
                    unknown_draw = True
                else:
                    acts_c = cn(mk(d["actions"]))[1] if "actions" in d else []
                    ws = ret["pmf"][1]
                    idx = [q for q, x in enumerate(acts_c) if ceq(x, c["a"])]
                    if not idx or not any(ws[q] != ["q", 0, 1] and ceq(ws[q], c["p"]) for q in idx):
                        bad("interaction %d: PMF %s over actions %s, but learn received action=%s probability=%s"
                            % (lo + r, ws, acts_c, c["a"], c["p"]), "trace:pmf-draw")
                    ret = dict(ret, a=c["a"], p=c["p"])
            a_py = uncanon(ret["a"]) if ret else None
            er = None
            if ev and not (np_ and ret is None):
                if ev == "on":
                    er = cn(env_reward(inters[0], pairs, a_py))
                elif np_:
                    er = cn(ips_reward(d, a_py))
                else:
                    er = cn(float(Fraction(scs[r][1], scs[r][2])) * ips_reward(d, mk(d["action"])))
            row = {}
            pmf_blind = np_ and ret is None        # a PMF draw the monitor cannot see (no learn call): values left to (A)
            if ev and "reward" in rec and not (pmf_blind and not sb):
                row["reward"] = er
            if ev and "action" in rec and not pmf_blind:
                row["action"] = ret["a"]
            if ev and "probability" in rec and not pmf_blind:
                row["probability"] = ret["p"]
            if pmf_blind:
                row["__blind__"] = True
            if learn:
                if learn == "off":
                    want = {"ctx": ctx, "a": cn(mk(d["action"])), "r": cn(mk(d["reward"])), "p": cn(mk(d.get("probability"))), "kw": cn({})}
                elif ret is None:
                    bad("interaction %d: expected a learn call after the PMF answer, the learner saw %s (%s)"
                        % (lo + r, calls[pos]["m"] if pos < len(calls) else None, mode), "trace:missing-learn:%s" % mode)
                    return fails, tags
                else:
                    lr = env_reward(inters[0], pairs, a_py) if learn == "on" else ips_reward(d, a_py)
                    want = {"ctx": ctx, "a": ret["a"], "r": cn(lr), "p": ret["p"], "kw": ret["kw"]}
                c = calls[pos] if pos < len(calls) else None
                if c is None or c["m"] != "learn":
                    bad("interaction %d: expected a learn call, the learner saw %s (%s)" % (lo + r, c and c["m"], mode), "trace:missing-learn:%s" % mode)
                    return fails, tags
                infos_learn[lo + r] = c.get("info")
                names = {"ctx": "context", "a": "action", "r": "reward", "p": "probability", "kw": "kwargs"}
                for k in ("ctx", "a", "r", "p", "kw"):
                    if not ceq(c[k], want[k], tol=(k == "r")):
                        sg = "trace:learn-%s:learn=%s" % (names[k], learn)
                        if k == "p" and learn == "off" and c[k] is None and "probability" not in first and "probability" in d:
                            sg += ":first-interaction-without-probability"      # has_prob is read off the first interaction (finding F8)
                        bad("interaction %d (%s): learn received %s=%s, the property demands %s" % (lo + r, mode, names[k], c[k], want[k]), sg)
                pos += 1
            if "context" in rec:
                row["context"] = ctx
            if "actions" in rec and "actions" in d:
                row["actions"] = cn(mk(d["actions"]))
            if "rewards" in rec and "rewards" in d and "actions" in first and mk(first["actions"]):
                row["rewards"] = cn([env_reward(inters[0], pairs, x) for x in mk(d["actions"])])
            for k, v in pairs:
                if k not in RESERVED:
                    row[k] = cn(mk(v))
            exp_rows.append(row)
    if pos < len(calls):
        bad("the learner saw %d call(s) the property does not allow, first: %s (%s)" % (len(calls) - pos, strip_call(calls[pos]), mode),
            "trace:extra-call:%s:%s" % (calls[pos]["m"], mode))

    # rows
    rows = impl["rows"]
    blind = [bool(r.pop("__blind__", False)) for r in exp_rows]
    demanded = [{k: v for k, v in r.items() if not (k == "probability" and v is None)} for r in exp_rows]
    # a batch row is only un-batched when one of its cells is a Batch.List: the recorded reward, a context/actions
    # cell the environment really has, a reward object, or an extra field.  Otherwise (finding C06-F7) it is not.
    discrete = "actions" in first and bool(mk(first["actions"]))
    typed = (bool(ev) and "reward" in rec) or ("context" in rec and "context" in first) or ("actions" in rec and "actions" in first) \
        or any(k not in RESERVED for k in first) or ("rewards" in rec and "rewards" in first and not discrete)
    plain = batched and not typed
    rsig = ":batched-plain-list-cells" if plain else (":batched" if batched else "")
    row_fails = []

    def rbad(what, sig):
        row_fails.append(F("B", what, sig))

    if any(demanded) and len(rows) != len(demanded):
        rbad("%d interactions but %d rows (record=%r, %s, batch=%s)" % (len(demanded), len(rows), rec, mode, env.get("batch")), "rows:count" + rsig)
    else:
        for i, (row, e) in enumerate(zip(rows, demanded)):
            rd = dict(row)
            for k, v in e.items():
                if k not in rd:
                    rbad("row %d lacks %r (record=%r, %s)" % (i, k, rec, mode), "rows:missing:%s%s" % (k if k in RESERVED else "extra-field", rsig))
                elif not ceq(rd[k], v, tol=k in ("reward", "rewards")):
                    kind = k if k in RESERVED else "extra-field"
                    rbad("row %d: %r is %s, the property demands %s (%s)" % (i, k, rd[k], v, mode), "rows:value:%s%s%s" % (kind, (":eval=%s" % ev) if k == "reward" else "", rsig))
            if ev and "probability" in rec and not blind[i] and exp_rows[i].get("probability") is None and rd.get("probability") is not None:
                rbad("row %d records probability %s although the learner returned none" % (i, rd.get("probability")), "rows:value:probability-invented" + rsig)
    if L.get("info") and not batched and len(rows) == len(demanded) and (any(demanded) or rows):
        # learning_info is local to its interaction: row i holds what predict wrote during pass i update()d by what learn wrote
        # during pass i, and no info key written during another pass
        for i, row in enumerate(rows):
            rd = dict(row)
            want = {}
            for src in (infos_pred.get(i), infos_learn.get(i)):
                if src:
                    want.update({k: v for k, v in src[1]})
            for k, v in want.items():
                if k not in rd or not ceq(rd[k], v):
                    rbad("row %d: learning_info %r written during this interaction is %s in the row, expected %s" % (i, k, rd.get(k), v), "rows:info-missing")
            for k in rd:
                if k.startswith("info_") and k not in want:
                    rbad("row %d holds learning_info %r=%s which the learner did not write during this interaction" % (i, k, rd[k]), "rows:info-leaked")
    if plain and row_fails:
        # one class: a batch row none of whose cells is a Batch.List is never un-batched
        row_fails = [F("B", "batched evaluation, record=%r: rows are not one per interaction with that interaction's values (%s) -- e.g. %s"
                       % (rec, mode, row_fails[0]["what"]), "rows:batched-plain-list-cells")]
    fails += row_fails
    return fails, tags


XMODES = ("dr", "dm")


def is_xcfg(cfg):
    """a mode that needs the optional package vowpalwabbit (outside the property's quantifier; the guard is modelled)"""
    return cfg["learn"] in XMODES or cfg["eval"] in XMODES


def vw_installed():
    import importlib.util
    try:
        return importlib.util.find_spec("vowpalwabbit") is not None
    except Exception:
        return False


def hetero_reserved(env):
    """later interactions whose reserved keys (other than 'probability') differ from the first interaction's: outside the
    property's quantifier -- only (A) applies (model: missingOf / firstBad)"""
    if not env["inters"]:
        return False
    ks = [sorted(k for k, _ in p_ if k in RESERVED and k != "probability") for p_ in env["inters"]]
    return any(k != ks[0] for k in ks)


def monitor_x(case, impl):
    """(B) for a dr/dm mode where vowpalwabbit is absent: the statement's last clause -- an evaluation that cannot be carried out is
    refused with an error, never mis-evaluated: no learner call, no row"""
    cfg = case["cfg"]
    fails, tags = [], ["xmode:learn=%s,eval=%s" % (cfg["learn"], cfg["eval"])]
    if not case["env"]["inters"]:
        tags.append("empty-env")
        if impl["exc"] or impl["calls"] or impl["rows"]:
            fails.append(F("B", "empty environment: expected no calls and no rows, got exc=%s calls=%d rows=%s" % (impl["exc"], len(impl["calls"]), impl["rows"]), "empty-env-output"))
        return fails, tags
    if vw_installed():
        tags.append("vw-installed")
        return fails, tags
    if impl["exc"] is None or impl["calls"] or impl["rows"]:
        fails.append(F("B", "SequentialCB(learn=%r,eval=%r) without vowpalwabbit: the mode cannot be evaluated, but exc=%s, learner calls=%d, rows=%s -- "
                       "the learner was fed / rows were recorded from something other than the documented reward estimate"
                       % (cfg["learn"], cfg["eval"], impl["exc"], len(impl["calls"]), impl["rows"] if impl["rows"] is None else len(impl["rows"])),
                       "xmode:mis-evaluated-without-package"))
    return fails, tags


def compare_AX(case, impl, ans):
    """implementation vs `evaluateX` (all accepted modes; vw = whether vowpalwabbit is installed)"""
    import re
    m = ans["modelX"]
    cfg = case["cfg"]
    mode = "learn=%s,eval=%s" % (cfg["learn"], cfg["eval"])
    if m["kind"] == "notModelled":
        return []
    if m["kind"] == "error" and m["err"] == "missing":
        got = None
        if impl["exc"] == "CobaException" and "requires" in impl.get("msg", ""):
            got = sorted(re.findall(r"'(\w+)'", impl["msg"].split("requires", 1)[1]))
        if got is None or got != sorted(m["missing"]) or impl["calls"]:
            return [F("A", "modelX: validation rejects %s with missing keys %s; implementation: exc=%s %s calls=%d"
                      % (mode, sorted(m["missing"]), impl["exc"], impl.get("msg", "")[:100], len(impl["calls"])), "A:x-validate")]
        return []
    if m["kind"] == "error" and m["err"] == "package":
        ok = impl["exc"] == "CobaExit" and ("%s OpeRewards" % m["type"]) in impl.get("msg", "") and not impl["calls"]
        if not ok:
            return [F("A", "modelX: OpeRewards(%r, target=%r) refuses for want of vowpalwabbit (%s); implementation: exc=%s %s calls=%d"
                      % (m["type"], m["target"], mode, impl["exc"], impl.get("msg", "")[:100], len(impl["calls"])), "A:x-package")]
        return []
    if m["kind"] == "ok" and not case["env"]["inters"]:
        if impl["exc"] or impl["rows"] or impl["calls"]:
            return [F("A", "modelX: empty environment gives nothing; implementation exc=%s rows=%s" % (impl["exc"], impl["rows"]), "A:x-empty")]
    return []


def compare_hetero(case, impl, ans):
    """(A) on an environment whose later interactions lack reserved keys the first one has: the model says which interaction is the
    first to lack a key the code subscripts (firstBad) and which keys; the code must raise KeyError for one of them, after having
    fed the learner no more than the interactions before it"""
    fb = ans.get("firstBad")
    m = ans["model"]
    if fb is None or (m["kind"] == "error" and m.get("err") == "missing"):
        return None          # the model evaluates / validation rejects: the ordinary comparison applies
    if not fb["shapeOk"]:
        return []
    fails = []
    key = impl.get("msg", "").strip("'\"")
    if impl["exc"] != "KeyError" or key not in fb["keys"]:
        fails.append(F("A", "interaction %d lacks %s which the code subscripts (flags of the first interaction): model KeyError, implementation exc=%s %s"
                       % (fb["at"], fb["keys"], impl["exc"], impl.get("msg", "")[:80]), "A:hetero-keyerror"))
        return fails
    if m["kind"] != "error" or m.get("err") != "KeyError" or m.get("key") not in fb["keys"]:
        fails.append(F("C", "firstBad says interaction %d lacks %s but evaluate gives %s" % (fb["at"], fb["keys"], json.dumps(m)[:120]), "C:hetero-firstBad"))
    pre = fb["prefix"]
    if pre["kind"] == "ok" and case["learner"]["fmt"] not in PMF_FMTS:      # (PMF draws: the prefix is evaluated with the plain scripted learner)
        exp = [model_call(c) for c in pre["calls"]]
        got = [strip_call(c) for c in impl["calls"]]
        if len(got) > len(exp) or any(set(g) != set(e) or not all(ceq(g[k], e[k], tol=(k == "r")) for k in e) for g, e in zip(got, exp)):
            fails.append(F("A", "before the KeyError at interaction %d the learner saw %s, the model's evaluation of the %d interactions before it gives %s"
                           % (fb["at"], json.dumps(got)[:160], fb["at"], json.dumps(exp)[:160]), "A:hetero-prefix"))
    return fails


def compare_record_keys(case, impl, ans):
    """(A) record-field set (theorem record_fields_per_mode): the reserved-name cells of every implementation row are `recordKeys`"""
    rk = ans.get("recordKeys")
    if rk is None or impl["rows"] is None:
        return []
    L = case["learner"]
    if L["fmt"] in PMF_FMTS:
        has_p = True
    else:
        has_p = L["fmt"] in ("AP", "APK", "dAP", "dAPK") and all(e.get("p") is not None for e in L["script"])
    want = set(rk[1] if has_p else rk[0])
    if not has_p:
        want.discard("probability")       # the batched path writes a `probability: None` cell = absent
    for i, row in enumerate(impl["rows"]):
        got = {k for k, v in row if k in RESERVED and not (k == "probability" and v is None)}
        if got != want:
            return [F("A", "row %d holds the reserved cells %s, recordKeys (record=%r, learn=%s, eval=%s) says %s"
                      % (i, sorted(got), case["cfg"]["record"], case["cfg"]["learn"], case["cfg"]["eval"], sorted(want)), "A:record-keys")]
    return []


def raw_width(impl):
    """`len()` of the first row of the first batch-level answer the learner gave in this evaluation (None: no such answer, or it has no len / is a mapping)"""
    for c in impl.get("raw", []):
        if c["k"] == "batch" and c["m"] == "predict" and c.get("ok"):
            return c.get("w")
    return None


def compare_raw(case, impl, ans):
    """(A) for `callsSeen` (theorem calls_seen_by_learner_batched): every invocation of a method of the learner OBJECT during one
    evaluate() with a learner that evaluate wraps afresh -- has_score probes, refused batch attempts, batch-level / row-level calls,
    the orientation probe -- compared call by call with the recording learner's raw log (kind, method, accepted or refused, the
    contexts carried); (C): the row-level reading of the model's raw calls is the loop skeleton, whose methods are those of the
    model's evaluation trace."""
    raw = ans.get("raw")
    if not raw:
        return [], []
    env = case["env"]
    ctxs = [cn(mk(idict(p_).get("context"))) for p_ in env["inters"]]
    want = []
    for c in raw["calls"]:
        if c[0] == "probe":
            want.append(("probe", None, True, []))
        elif c[0] == "batch":
            want.append(("batch", c[1], bool(c[3]), list(c[2])))
        elif c[0] == "row":
            want.append(("row", c[1], True, [c[2]]))
        else:
            want.append(("batch", "predict", True, [c[1]]))           # the orientation probe is a one-row batch predict
    got = [(c["k"], c.get("m"), bool(c.get("ok", True)), c.get("ctx", [])) for c in impl.get("raw", [])]
    fails, tags = [], []
    n_or = sum(1 for c in raw["calls"] if c[0] == "orient")
    n_ref = sum(1 for c in raw["calls"] if c[0] == "batch" and not c[3])
    tags += ["raw:orient:%d" % n_or, "raw:refused:%d" % n_ref, "raw:probes:%d" % sum(1 for c in raw["calls"] if c[0] == "probe")]

    def show(w):
        return "%s %s%s rows=%s" % (w[0], w[1] or "score(None,None,None)", "" if w[2] else " (refused)", w[3])
    ok = len(want) == len(got)
    at = None
    for i, (w, g) in enumerate(zip(want, got)):
        if w[:3] != g[:3] or len(w[3]) != len(g[3]) or not all(ceq(ctxs[j], gc) for j, gc in zip(w[3], g[3])):
            ok, at = False, i
            break
    if not ok:
        if at is None:
            at = min(len(want), len(got))
        fails.append(F("A", "the learner object received %d calls, the model of SafeLearner's call discipline gives %d; first difference at call %d: "
                       "model %s, learner saw %s (batch=%s, batch_mode=%s, fmt=%s, first answer width=%s)"
                       % (len(got), len(want), at, show(want[at]) if at < len(want) else None,
                          (got[at][0], got[at][1], got[at][2], len(got[at][3])) if at < len(got) else None,
                          env.get("batch"), case["learner"].get("batch_mode", "aware"), case["learner"]["fmt"], raw_width(impl)),
                       "A:raw-calls:%s" % ("count" if len(want) != len(got) else want[at][0] if at < len(want) else "count")))
    # (C) the model's own raw calls, read row-wise, are the loop skeleton (theorem) and the skeleton's methods are the trace's
    rl = []
    for c in raw["calls"]:
        if c[0] == "batch" and c[3]:
            rl += [[c[1], i] for i in c[2]]
        elif c[0] == "row":
            rl.append([c[1], c[2]])
    body = raw["skeleton"]
    if ans["model"].get("kind") == "ok" and (rl != body or (raw.get("modelMeths") is not None and [m for m, _ in body] != raw["modelMeths"])):
        fails.append(F("C", "row-level reading of callsSeen %s / skeleton %s / methods of the model trace %s disagree"
                       % (json.dumps(rl)[:120], json.dumps(body)[:120], json.dumps(raw.get("modelMeths"))[:120]), "C:raw-skeleton"))
    return fails, tags


def strip_call(c):
    return {k: v for k, v in c.items() if k in ("m", "ctx", "acts", "a", "r", "p", "kw")}


# ------------------------------------------------------------------ (A) the Lean model's view of a case
def vstr(x):
    return json.dumps(cn(x), separators=(",", ":"), sort_keys=True)


def model_fld(key, v, domain):
    if key == "rewards":
        if isinstance(v, dict) and "rfn" in v:
            tbl = []
            for a in domain:
                try:
                    tbl.append([vstr(a), cnum(fr(rfn_value(v["rfn"], a)))[1:]])
                except Exception:
                    pass
            return {"t": "rfn", "name": v["rfn"]["kind"], "tbl": tbl, "dflt": [0, 1]}
        return {"t": "rlist", "v": [cnum(fr(mk(x)))[1:] for x in v["l"]]}
    if key == "actions":
        return {"t": "none"} if v is None else {"t": "acts", "v": [vstr(mk(a)) for a in v["l"]]}
    if key in ("reward", "probability"):
        x = mk(v)
        return {"t": "none"} if x is None else {"t": "num", "v": cnum(fr(x))[1:]}
    x = mk(v)
    return {"t": "none"} if x is None else {"t": "val", "v": vstr(x)}


def model_request(case, s0=(0, 0)):
    cfg, L, env = case["cfg"], case["learner"], case["env"]
    frees = [mk(e.get("free")) for e in L["script"]]
    menv = []
    for pairs in env["inters"]:
        d = idict(pairs)
        domain = list(mk(d["actions"]) or []) if "actions" in d else []
        domain += frees
        if "action" in d:
            domain.append(mk(d["action"]))
        menv.append([[k, model_fld(k, v, domain)] for k, v in pairs])
    has_p = L["fmt"] in ("AP", "APK", "dAP", "dAPK")
    has_k = L["fmt"].endswith("K")
    script = [{"idx": e["idx"], "free": vstr(mk(e.get("free"))), "p": e.get("p") if has_p else None,
               "kw": [[k, vstr(mk(e["kw"][k]))] for k in L.get("kw_keys", ())] if has_k else [], "s": e.get("s", [1, 2]),
               "pm": [[n_, [[Fraction(w[0] / w[1]).numerator, Fraction(w[0] / w[1]).denominator] for w in ws]] for n_, ws in e.get("pm", [])],
               "ip": [[k, vstr(mk(v))] for k, v in e.get("ip", [])] if L.get("info") else [],
               "il": [[k, vstr(mk(v))] for k, v in e.get("il", [])] if L.get("info") else []} for e in L["script"]]
    return {"cfg": {"learn": cfg["learn"], "eval": cfg["eval"], "record": cfg["record"]}, "batch": env.get("batch"),
            "env": menv, "learner": dict({"has_score": L["has_score"], "script": script},
                                         **({"pmf_seed": int(effective_seed(case))} if L["fmt"] in PMF_FMTS and effective_seed(case) is not None else {})),
            "s0": list(s0)}


def mval(sv):
    return None if sv is None else json.loads(sv)


def mrat(q):
    return None if q is None else cnum(Fraction(q[0], q[1]))


def model_call(c):
    out = {"m": c["m"], "ctx": mval(c["ctx"])}
    if c["m"] in ("predict", "score"):
        out["acts"] = None if c["acts"] is None else ["l", [mval(a) for a in c["acts"]]]
    if c["m"] == "score":
        out["a"] = mval(c["a"])
    if c["m"] == "learn":
        out.update(a=mval(c["a"]), r=mrat(c["r"]), p=mrat(c["p"]), kw=["d", sorted([[k, mval(v)] for k, v in c["kw"]], key=lambda kv: kv[0])])
    return out


def model_cell(c):
    t = c["t"]
    if t in ("oval", "val"):
        return mval(c.get("v"))
    if t == "none":
        return None
    if t == "oacts":
        return None if c["v"] is None else ["l", [mval(a) for a in c["v"]]]
    if t == "acts":
        return ["l", [mval(a) for a in c["v"]]]
    if t in ("onum", "num"):
        return mrat(c["v"])
    if t in ("nums", "rlist"):
        return ["l", [mrat(q) for q in c["v"]]]
    if t == "fn":
        return ["fn"]
    raise ValueError(c)


def model_row(r):
    cells = [[k, model_cell(c)] for k, c in r]
    return sorted([kv for kv in cells if not (kv[0] == "probability" and kv[1] is None)], key=lambda kv: kv[0])


def impl_row_for_A(r):
    out = []
    for k, v in r:
        if k == "probability" and v is None:
            continue
        if isinstance(v, list) and v and v[0] == "fn":
            v = ["fn"]
        out.append([k, v])
    return out


def compare_A(case, impl, ans):
    """implementation vs model on the observable (exception class, call trace, rows without timing)"""
    import re
    fails = []
    m = ans["model"]
    if case["learner"].get("info"):
        m = ans["modelIB"] if case["env"].get("batch") else ans["modelI"]
    if case["learner"]["fmt"] in PMF_FMTS:
        m = ans["modelP"]
        if m is None:
            return fails            # time-seeded generator (no seed anywhere): the draws cannot be predicted
    mode = "learn=%s,eval=%s" % (case["cfg"]["learn"], case["cfg"]["eval"])
    if m["kind"] == "error":
        if m["err"] == "missing":
            got = None
            if impl["exc"] == "CobaException" and "requires" in impl.get("msg", ""):
                got = sorted(re.findall(r"'(\w+)'", impl["msg"].split("requires", 1)[1]))
            gaps = {k for k in RESERVED if known_gap(k, case["cfg"], case["learner"]["has_score"]) is not None}
            if got is None or set(got) - gaps != set(m["missing"]) - gaps:
                fails.append(F("A", "model: validation rejects with missing keys %s; implementation: exc=%s %s" % (sorted(m["missing"]), impl["exc"], impl.get("msg", "")[:100]), "A:validate"))
        elif impl["exc"] is None:
            fails.append(F("A", "model raises %s, implementation returned rows" % m["err"], "A:model-error"))
        return fails
    if impl["exc"]:
        fails.append(F("A", "implementation raised %s(%s), model evaluates (%s)" % (impl["exc"], impl.get("msg", "")[:100], mode), "A:exception"))
        return fails
    got = [strip_call(c) for c in impl["calls"]]
    exp = [model_call(c) for c in m["calls"]]
    if len(got) != len(exp):
        fails.append(F("A", "call trace length: implementation %d, model %d (%s)" % (len(got), len(exp), mode), "A:trace-length"))
    else:
        for i, (g, e) in enumerate(zip(got, exp)):
            if set(g) != set(e) or not all(ceq(g[k], e[k], tol=(k == "r")) for k in e):
                fails.append(F("A", "call #%d: implementation %s, model %s (%s)" % (i, json.dumps(g)[:200], json.dumps(e)[:200], mode), "A:trace:" + e["m"]))
                break
    rows = [r for r in (impl_row_for_A(r) for r in impl["rows"]) if r]     # a row holding only timing columns is empty here
    mrows = [r for r in (model_row(r) for r in m["rows"]) if r]
    if len(rows) != len(mrows):
        fails.append(F("A", "row count: implementation %d, model %d (%s)" % (len(rows), len(mrows), mode), "A:rows-count"))
    else:
        for i, (g, e) in enumerate(zip(rows, mrows)):
            if [k for k, _ in g] != [k for k, _ in e] or not all(ceq(x[1], y[1], tol=x[0] in ("reward", "rewards")) for x, y in zip(g, e)):
                fails.append(F("A", "row %d: implementation %s, model %s (%s)" % (i, json.dumps(g)[:200], json.dumps(e)[:200], mode), "A:rows"))
                break
    return fails


def regroup(calls, n_inters, bs):
    """un-batched call list -> the batched one for a history-independent learner (theorem batched_trace_regrouped): per batch all
    predicts, all scores, all learns"""
    if n_inters == 0 or len(calls) % n_inters:
        return None
    g = len(calls) // n_inters
    groups = [calls[i * g:(i + 1) * g] for i in range(n_inters)]
    out = []
    for lo in range(0, n_inters, bs):
        chunk = [c for grp in groups[lo:lo + bs] for c in grp]
        for kind in ("predict", "score", "learn"):
            out += [c for c in chunk if c["m"] == kind]
    return out


def compare_C(ans, batched=False, oblivious=None):
    """model |= spec whenever the refinement theorems' hypotheses hold (plumbing guard): un-batched model = specRun,
    and for a batched case also batched model = specRunB"""
    if not ans.get("hyp"):
        return []
    out = []
    u, sp = ans["unbatched"], ans["spec"]
    if sp is None or u != sp:
        out.append(F("C", "hypotheses of trace_eq_spec/rows_eq_spec hold but model %s != spec %s" % (json.dumps(u)[:200], json.dumps(sp)[:200]), "C:refinement"))
    if batched:
        m, sb = ans["model"], ans.get("specB")
        if sb is None or m != sb:
            out.append(F("C", "hypotheses of trace_eq_spec_batched/rows_eq_spec_batched hold but model %s != specRunB %s"
                         % (json.dumps(m)[:200], json.dumps(sb)[:200]), "C:refinement-batched"))
        if oblivious and m.get("kind") == "ok" and u.get("kind") == "ok":
            want = regroup(u["calls"], oblivious[0], oblivious[1])
            if want is not None and want != m["calls"]:
                out.append(F("C", "history-independent learner: batched trace %s is not the regrouped un-batched trace %s"
                             % (json.dumps(m["calls"])[:200], json.dumps(want)[:200]), "C:regrouped"))
    return out


# ------------------------------------------------------------------ generators
def fq(n, d=1):
    """valspec of a number: ints stay ints, everything else a float given exactly"""
    q = Fraction(n, d)
    if q.denominator == 1:
        return int(q)
    return {"f": [q.numerator, q.denominator]}


def gen_num(rng, floaty=None):
    """small dyadic number (every float operation of the evaluated paths stays exact on these)"""
    r = rng.below(10)
    if r < 4:
        v = fq(rng.randint(-4, 9))
    elif r < 8:
        v = fq(rng.randint(-16, 32), rng.choice([2, 4, 8]))
    else:
        v = fq(rng.choice([0, 1, 1, 0, 2]))
    if floaty or (floaty is None and rng.chance(0.3)):
        if isinstance(v, int):
            v = {"f": [v, 1]}
    return v


# ints that do not survive a round trip through float (and pairs that collide as floats)
BIG_INTS = [2 ** 53 + 1, 2 ** 53 + 2, 2 ** 53 + 3, 2 ** 60 + 1, 2 ** 60 + 3, 2 ** 63 - 1, 2 ** 64 + 5, -(2 ** 53) - 1, 10 ** 17 + 1]


def gen_any(rng, depth=0):
    r = rng.below(10)
    if r < 2:
        return gen_num(rng) if rng.chance(0.8) else rng.choice(BIG_INTS + [0, {"f": [0, 1]}])
    if r < 4:
        return rng.choice(["a", "b", "xy", "", "", "L1", "0"])
    if r < 5:
        return None
    if depth < 2 and r < 7:
        return {"l": [gen_any(rng, depth + 1) for _ in range(rng.randint(0, 3))]}
    if depth < 2 and r < 8:
        return {"t": [gen_any(rng, depth + 1) for _ in range(rng.randint(0, 3))]}
    if depth < 2 and r < 9:
        return {"d": [[k, gen_any(rng, depth + 1)] for k in rng.sample(["k1", "k2", "z"], rng.randint(0, 2))]}
    return gen_num(rng)


def gen_context(rng, style):
    if style == "none":
        return None
    if style == "scalar":
        return rng.choice([0, {"f": [0, 1]}, rng.choice(BIG_INTS)]) if rng.chance(0.25) else gen_num(rng)
    if style == "str":
        return rng.choice(["c1", "c2", "ctx", "", ""])
    if style == "dense":
        items = [gen_num(rng) if rng.chance(0.85) else rng.choice(["u", "v"]) for _ in range(rng.choice([0, 1, 2, 3, 4]))]
        return {"t": items} if rng.chance(0.5) else {"l": items}
    if style == "sparse":
        return {"d": [[k, gen_num(rng)] for k in rng.sample(["a", "b", "c", "d"], rng.randint(0, 3))]}
    raise ValueError(style)


def gen_actions(rng, style, n):
    """n distinct actions (distinct under Python ==)"""
    from props.c06_learners import canon
    out, seen = [], set()
    tries = 0
    while len(out) < n and tries < 50:
        tries += 1
        if style == "int":
            v = rng.choice([0, 1, 2, 3, 4, 5, 7, -1, 10, 0, 1, {"b": 0}, {"b": 1}])
        elif style == "bigint":
            v = rng.choice(BIG_INTS) if rng.chance(0.7) else rng.choice([0, 1, 0, 1, 5])
        elif style == "float":
            v = {"f": [rng.randint(-8, 24), rng.choice([1, 2, 4])]}
        elif style == "str":
            v = rng.choice(["a", "b", "c", "ab", "abc", "action_1", "xy", "q", ""])
        elif style == "dense":
            v = {"t": [fq(rng.randint(0, 3)) for _ in range(2 + (tries % 2))]}
        elif style == "denselist":
            v = {"l": [fq(rng.randint(0, 3)) for _ in range(3)]}
        elif style == "sparse":
            v = {"d": [[k, fq(rng.randint(1, 3))] for k in rng.sample(["a", "b", "c"], rng.randint(1, 3))]}
        else:
            raise ValueError(style)
        key = json.dumps(canon(mk(v)))
        if key not in seen:
            seen.add(key)
            out.append(v)
    return out


HASHABLE = ("int", "bigint", "float", "str", "dense")
NUMERIC = ("int", "float")


def gen_rewards(rng, style, acts, kind):
    if kind == "list":
        return {"l": [(rng.choice([0, {"f": [0, 1]}]) if rng.chance(0.15) else gen_num(rng)) for _ in acts]}
    if kind == "L1":
        return {"rfn": {"kind": "L1", "argmax": gen_num(rng)}}
    if kind == "binary":
        am = rng.choice(acts) if acts and rng.chance(0.85) else (gen_num(rng) if style in NUMERIC + ("cont",) else "zz")
        return {"rfn": {"kind": "binary", "argmax": am, "value": gen_num(rng) if rng.chance(0.6) else 1}}
    if kind in ("discrete2", "discreteM", "lambda"):
        dom = list(acts)
        if dom and rng.chance(0.3):
            dom = dom[:-1]             # last action falls to the default
        if style == "cont":
            dom = [fq(rng.randint(0, 6)) for _ in range(2)]
            dom = dom[:1] if cn(mk(dom[0])) == cn(mk(dom[1])) else dom
        if not dom:
            dom = [acts[0]] if acts else [1]
        return {"rfn": {"kind": kind, "actions": dom, "rewards": [gen_num(rng) for _ in dom], "default": gen_num(rng) if rng.chance(0.5) else 0}}
    if kind == "hamming":
        labels = [fq(x) for x in rng.sample([0, 1, 2, 3], rng.randint(1, 3))]
        return {"rfn": {"kind": "hamming", "argmax": labels}}
    raise ValueError(kind)


def reward_kinds(style):
    ks = ["binary", "discrete2", "lambda"]
    if style in HASHABLE:
        ks.append("discreteM")
    if style in NUMERIC or style == "cont":
        ks += ["L1", "L1"]
    if style in ("dense", "denselist"):
        ks.append("hamming")
    return ks


FMTS_ALL = ["A", "AP", "AK", "APK", "dA", "dAP", "dAK", "dAPK"]


def fmts_for(style):
    if style == "cont":
        return ["A", "AK", "dA", "dAP", "dAK", "dAPK"]
    if style == "sparse":
        return ["AP", "APK", "dA", "dAP", "dAK", "dAPK"]
    return FMTS_ALL


PROBS = [[1, 1], [1, 2], [1, 4], [1, 8], [1, 2], [1, 4], [3, 4], [3, 10], [1, 10], [1, 3]]


# logged propensities: ordinary ones, plus tiny ones (importance weights of 10^3..10^9 must not be clipped; the dyadic
# ones keep reward/probability exact) and exactly 1.0
LOGGED_PROBS = PROBS + [[1, 1], [1, 1000], [1, 10000], [1, 10 ** 9], [1, 4096], [1, 2 ** 20], [1, 2 ** 30], [1, 4096]]


# PMFs (dyadic, summing to 1) a learner may answer with, by number of actions
PMFS = {1: [[(1, 1)]],
        2: [[(1, 2), (1, 2)], [(1, 4), (3, 4)], [(0, 1), (1, 1)], [(1, 1), (0, 1)]],
        3: [[(1, 2), (1, 4), (1, 4)], [(0, 1), (1, 2), (1, 2)], [(1, 4), (1, 2), (1, 4)], [(1, 1), (0, 1), (0, 1)]],
        4: [[(1, 4)] * 4, [(1, 2), (0, 1), (1, 4), (1, 4)], [(1, 8), (1, 8), (1, 4), (1, 2)]],
        5: [[(1, 2), (1, 8), (1, 8), (1, 8), (1, 8)], [(0, 1), (0, 1), (1, 1), (0, 1), (0, 1)], [(1, 4), (1, 4), (1, 4), (1, 8), (1, 8)]]}

# round h: PMFs whose FLOAT sum is not exactly 1.0 but inside SafeLearner's 0.001 tolerance (entries rounded to four decimals, an
# epsilon-greedy 0.3 over three actions, sevenths): what real learners answer.  The probability handed to learn / recorded must be the
# learner's own entry for the played action, exactly.  (n, d) stands for the double n/d.
PMF_FMTS = ("pmf", "pmfK", "pmfB")        # {'pmf': ws}, ({'pmf': ws}, kwargs), and (corpus only, un-batched) the bare list ws
# bare-list PMFs around SafeLearner.possible_pmf's tolerance (abs 0.001): float sums 1.0009 (accepted) / 1.002, 0.998 (not a PMF, not an action)
PMFS_EDGE_IN = {1: [(10009, 10000)], 2: [(5004, 10000), (5005, 10000)], 3: [(3336, 10000), (3336, 10000), (3337, 10000)],
                4: [(25, 100), (25, 100), (25, 100), (2509, 10000)], 5: [(2, 10), (2, 10), (2, 10), (2, 10), (2009, 10000)]}
PMFS_EDGE_OUT = {1: [(1002, 1000)], 2: [(501, 1000), (501, 1000)], 3: [(334, 1000), (334, 1000), (334, 1000)],
                 4: [(25, 100), (25, 100), (25, 100), (248, 1000)], 5: [(2, 10), (2, 10), (2, 10), (2, 10), (198, 1000)]}
PMFS_INEXACT = {1: [[(10005, 10000)], [(9995, 10000)]],
                2: [[(5002, 10000), (5002, 10000)], [(3, 10), (7001, 10000)], [(1, 10), (8995, 10000)]],
                3: [[(3334, 10000), (3333, 10000), (3334, 10000)], [(8, 10), (1, 10), (1, 10)], [(3333, 10000), (3333, 10000), (3333, 10000)],
                    [(0, 1), (4999, 10000), (5008, 10000)]],
                4: [[(25, 100), (25, 100), (25, 100), (2505, 10000)], [(2505, 10000), (2505, 10000), (2495, 10000), (25, 100)],
                    [(7, 10), (1, 10), (1, 10), (1, 10)]],
                5: [[(2, 10), (2, 10), (2, 10), (2, 10), (2004, 10000)], [(1999, 10000)] * 5, [(6, 10), (1, 10), (1, 10), (1, 10), (1, 10)]]}


def pmf_outside(L):
    """a bare-list answer whose float sum is further than 0.001 from 1: SafeLearner documents it cannot be read as a PMF"""
    return L["fmt"] == "pmfB" and all(abs(sum(w[0] / w[1] for w in ws) - 1) > 0.001 for e in L.get("script", []) for _, ws in e.get("pm", []))


def pmf_inexact(L):
    """does some PMF of this learner's script have a float sum different from 1.0"""
    return any(sum(w[0] / w[1] for w in ws) != 1.0 for e in L.get("script", []) for _, ws in e.get("pm", []))


def gen_episode(rng, boundary=False, cfg_fixed=None):
    """one (cfg, env) pair + the action style that restricts the learner's prediction format; with `cfg_fixed` only the
    environment is drawn (for that configuration)"""
    learn = rng.choice(["on", "on", "off", "ips", None])
    ev = rng.choice(["on", "on", "ips", "ips", None])
    r = rng.below(10)
    if r < 3:
        record = ["reward", "action", "probability"]
    elif r < 4:
        record = list(RECORD_ALL)
    elif r < 5:
        record = [rng.choice(RECORD_ALL)]
    else:
        record = rng.shuffle(rng.subset(RECORD_ALL, 0.45))
    xmode = cfg_fixed is None and rng.chance(0.07)
    if xmode:
        # a mode that needs vowpalwabbit ('dr'/'dm'): accepted by the constructor; without the package the evaluation must be refused
        # (CobaException from validation when a required key is missing, else CobaExit from OpeRewards) before the learner is used
        learn = rng.choice(["dr", "dm", "dr", "dm", "on", "off", "ips", None])
        ev = rng.choice(["dr", "dm", "on", "ips", None]) if learn in XMODES and rng.chance(0.6) else rng.choice(["dr", "dm"])
    cfg = {"learn": learn, "eval": ev, "record": record}
    if cfg_fixed is not None:
        cfg, learn, ev = cfg_fixed, cfg_fixed["learn"], cfg_fixed["eval"]

    astyle = rng.choice(["int", "int", "bigint", "float", "str", "dense", "denselist", "sparse", "cont"])
    cstyle = rng.choice(["none", "scalar", "str", "dense", "dense", "sparse", "sparse"])
    n = (0 if rng.chance(0.03) else rng.choice([1, 1, 2, 3, 3, 4, 5, 6, 7])) if not boundary else rng.choice([1, 2, 3, 4])
    has_ctx_key = not (cstyle == "none" and rng.chance(0.5))
    # which fields the environment carries
    wants_sim = learn == "on" or ev == "on"
    wants_log = learn in ("off", "ips", "dr", "dm") or ev in ("ips", "dr", "dm")
    r = rng.below(10)
    if r < 5:
        has_actions, has_rewards, has_logged = True, wants_sim or rng.chance(0.3), wants_log or rng.chance(0.3)
    elif r < 7:
        has_actions, has_rewards, has_logged = True, True, True
    elif r < 8:
        has_actions, has_rewards, has_logged = rng.chance(0.5), rng.chance(0.6), True
    else:
        has_actions, has_rewards, has_logged = rng.chance(0.8), rng.chance(0.7), rng.chance(0.7)
    has_prob = has_logged and rng.chance(0.75)
    has_action, has_reward = has_logged, has_logged
    if rng.chance(0.08):                     # knock one key out: validation must notice
        k = rng.choice(["actions", "rewards", "action", "reward", "probability"])
        if k == "actions":
            has_actions = False
        elif k == "rewards":
            has_rewards = False
        elif k == "action":
            has_action = False
        elif k == "reward":
            has_reward = False
        else:
            has_prob = False
    if astyle == "cont" and not has_actions:
        astyle = "int"
    same_actions = rng.chance(0.3)
    rkind = "list" if (astyle != "cont" and has_actions and rng.chance(0.5)) else rng.choice(reward_kinds(astyle))
    extras = rng.sample(["L", "userid", "tag", "meta", "id", "note"], rng.choice([0, 0, 1, 1, 2, 3]))
    order_shuffle = rng.chance(0.3)
    fixed_acts = gen_actions(rng, astyle, rng.randint(1, 5)) if astyle != "cont" else []
    inters = []
    for i in range(n):
        acts = [] if astyle == "cont" else (fixed_acts if same_actions else gen_actions(rng, astyle, rng.randint(1, 5)))
        pairs = []
        if has_ctx_key:
            pairs.append(["context", gen_context(rng, cstyle)])
        if has_actions:
            pairs.append(["actions", {"l": acts}])
        if has_rewards:
            pairs.append(["rewards", gen_rewards(rng, astyle, acts, rkind)])
        if has_action:
            if acts and rng.chance(0.9):
                la = rng.choice(acts)
            elif astyle in ("cont",) + NUMERIC:
                la = gen_num(rng)
            else:
                la = (gen_actions(rng, astyle, 1) or ["zz"])[0]
            pairs.append(["action", la])
        if has_reward:
            pairs.append(["reward", rng.choice([0, {"f": [0, 1]}]) if rng.chance(0.15) else gen_num(rng)])
        if has_prob:
            p = rng.choice(LOGGED_PROBS)
            if rng.chance(0.06):
                pairs.append(["probability", rng.choice([0, {"f": [0, 1]}])])     # a logged propensity of exactly 0 is a value, not "absent"
            else:
                pairs.append(["probability", {"f": p} if p != [1, 1] or rng.chance(0.5) else 1])
        for k in extras:
            pairs.append([k, gen_any(rng)])
        if not any(k in ("context", "actions", "action") for k, _ in pairs):
            # degenerate: nothing a learner could be fed.  (`_results` also decides "batched" from these three keys only,
            # so a batched environment of bare rewards/extras is treated as unbatched; noted, not generated.)
            pairs.insert(0, ["context", None])
        if order_shuffle:
            pairs = rng.shuffle(pairs) if i == 0 else [[k, idict(pairs)[k]] for k, _ in inters[0]]
        inters.append(pairs)
    batch = None if rng.chance(0.6) else rng.choice([1, 2, 2, 3, 4])
    if has_prob and len(inters) > 1 and batch is None and rng.chance(0.12):
        # a log where only some interactions carry a propensity (LoggedInteraction leaves the key out when none is given; OpeRewards
        # reads a missing one as 1, interaction by interaction): the first has none, some later ones do
        if rng.chance(0.7):
            inters = [[kv for kv in p_ if kv[0] != "probability" or (q > 0 and (q == 1 or rng.chance(0.6)))] for q, p_ in enumerate(inters)]
        else:   # the other direction: the first has one, the second (and maybe others) has none
            inters = [[kv for kv in p_ if kv[0] != "probability" or q == 0 or (q > 1 and rng.chance(0.6))] for q, p_ in enumerate(inters)]
    het = False
    if cfg_fixed is None and not xmode and batch is None and len(inters) > 1 and rng.chance(0.08):
        # heterogeneous reserved keys (outside the property's quantifier, (A) only): ONE later interaction loses one or two reserved keys
        # the first interaction has (the code subscripts them when the first has them: KeyError, or not at all), and later interactions
        # may carry reserved keys the first lacks (ignored: every has_* flag is read off the first interaction)
        het = True
        q = rng.randint(1, len(inters) - 1)
        have = [k for k, _ in inters[0] if k in RESERVED and k != "probability"]
        if have and rng.chance(0.75):
            drop = rng.sample(have, min(len(have), rng.choice([1, 1, 1, 2])))
            inters = [[kv for kv in p_ if not (i_ == q and kv[0] in drop)] for i_, p_ in enumerate(inters)]
        lack = [k for k in ("context", "action", "reward", "actions") if k not in idict(inters[0])]
        if lack and rng.chance(0.6):
            k = rng.choice(lack)
            val = {"context": lambda: gen_context(rng, "scalar"), "action": lambda: rng.randint(0, 3), "reward": lambda: gen_num(rng),
                   "actions": lambda: {"l": [0, 1, 2]}}[k]
            inters = [p_ + ([[k, val()]] if (i_ > 0 and rng.chance(0.6)) else []) for i_, p_ in enumerate(inters)]
    env = {"batch": batch, "gen": rng.chance(0.5), "inters": inters}
    if rng.chance(0.4) and not het:
        env["ctor"] = True        # built through LoggedInteraction(...) / SimulatedInteraction(...) where the keys allow
    return cfg, env, (astyle if has_actions else "int")


def env_style(env):
    """the action style of an environment as far as it restricts the prediction formats SafeLearner parses unambiguously"""
    if not env["inters"] or "actions" not in idict(env["inters"][0]):
        return "int"
    acts = idict(env["inters"][0])["actions"]["l"]
    if not acts:
        return "cont"
    return "sparse" if isinstance(acts[0], dict) and "d" in acts[0] else "other"


def hetero(env):
    """interactions with differing key sets (only generated for 'probability'); `Batch` keeps the first interaction's keys only, so
    such an environment is never batched by the generator"""
    ks = [sorted(k for k, _ in p_) for p_ in env["inters"]]
    return any(k != ks[0] for k in ks)


def gen_learner(rng, cfgs, envs, allow_pmf=True, has_score=None, force_pmf=False):
    """a scripted recording learner whose prediction format is legal for every environment it will meet"""
    styles = [env_style(e_) for e_ in envs]
    evs = [c_["eval"] for c_ in cfgs]
    if has_score is None:
        has_score = rng.chance(0.6 if "ips" in evs else 0.2)
    fmts = [f for f in FMTS_ALL if all(f in fmts_for(st) for st in styles)]
    fmt = rng.choice(fmts)
    pmf_ok = allow_pmf and all(all("actions" in idict(p_) and idict(p_)["actions"]["l"] for p_ in e_["inters"]) for e_ in envs)
    if pmf_ok and (force_pmf or rng.chance(0.12)):
        fmt = rng.choice(["pmf", "pmfK"])      # the learner answers with {'pmf': [...]}: SafeLearner draws the action with CobaRandom(seed)
    kw_keys = rng.sample(["i", "tag", "z"], rng.choice([0, 1, 1, 2, 2])) if fmt.endswith("K") else []   # (a, {}) is legal
    script = []
    noprob = rng.chance(0.08)      # a learner either always or never reports a probability (consistent format)
    for _ in range(rng.randint(1, 4)):
        script.append({"idx": rng.randint(0, 5), "free": gen_num(rng), "p": None if noprob else rng.choice(PROBS[:7] + [[0, 1], [0, 1]]),
                       "pint": rng.chance(0.5),
                       "kw": {k: gen_any(rng, 1) for k in kw_keys}, "s": rng.choice([[1, 2], [1, 4], [1, 1], [0, 1], [3, 4]])})
    L = {"fmt": fmt, "has_score": has_score, "batch_mode": rng.choice(["aware", "unaware"]), "kw_keys": kw_keys, "script": script}
    if fmt in PMF_FMTS:
        # SequentialCB(seed=…): 0 and 0.0 are seeds like any other; None falls back to the experiment's seed (set by the case)
        L["pmf_seed"] = rng.choice([0, 0, {"f": [0, 1]}, 1, 1, 7, 42, 1000003, None, None])
        inexact = rng.chance(0.4)              # round h: float sums != 1.0 inside SafeLearner's tolerance
        for e in script:
            e["pm"] = [[n_, [list(w) for w in rng.choice(PMFS_INEXACT[n_] if inexact and rng.chance(0.8) else PMFS[n_])]] for n_ in range(1, 6)]
    def info_ok(e_):
        # in a batched pass the info is merged into the batch row; a batch row without any Batch.List cell is never un-batched
        # (then there is one row per batch holding the raw info) -- generated only where every row has an extra field
        return not e_.get("batch") or all(any(k not in RESERVED for k, _ in p_) for p_ in e_["inters"])
    if fmt not in PMF_FMTS and rng.chance(0.15) and all(info_ok(e_) for e_ in envs):
        # the learner also writes CobaContext.learning_info: predict writes `ip`, learn then update()s with `il` (modelled un-batched)
        L["info"] = True
        for e in script:
            e["ip"] = [[k, gen_any(rng, 1)] for k in rng.sample(["info_p", "info_x", "info_n"], rng.randint(0, 2))]
            e["il"] = [[k, gen_any(rng, 1)] for k in rng.sample(["info_l", "info_x"], rng.randint(0, 2))]
    return L


STALE_INFOS = [[["stale_explored", {"b": 1}], ["stale_step", 3]], [["stale_loss", {"f": [1, 2]}]], [["stale_tag", "xy"]], [["stale_vec", {"l": [1, 2, 3]}]]]


def gen_pre(rng):
    """1-2 earlier operations in the same process that leave CobaContext.learning_info non-empty"""
    ops = []
    for _ in range(rng.choice([1, 1, 2])):
        if rng.chance(0.3):
            ops.append({"kind": "rejection", "info": rng.choice(STALE_INFOS)})
        else:
            ops.append({"kind": "crash", "where": rng.choice(["learn", "learn", "predict", "score"]), "at": rng.choice([0, 1, 1, 2]), "info": rng.choice(STALE_INFOS)})
    return ops


def add_stop(case, which, k, again):
    """phase 6 family (deterministic in its arguments): evaluation number `which` (mod the number of eligible ones) of the case is
    ABANDONED after k rows -- every interaction of it gets an additional field 'sid' when it has none, so that each loop pass is
    certain to yield -- and, with `again`, the same configuration/environment is then read once more to the end with the same
    learner object (read / abandon / read again); the later evaluations of the case follow."""
    eps = raw_episodes(case)
    ok = [q for q, (c_, e_) in enumerate(eps) if len(e_["inters"]) >= 2 and not hetero(e_) and not is_xcfg(c_)
          and not (q > 0 and case["then"][q - 1].get("learner")) and not case.get("reuse_evaluator")]
    if not ok or pmf_outside(case["learner"]):
        return case
    q = ok[which % len(ok)]
    cfg, env = eps[q]
    inters = env["inters"]
    if not all(any(key not in NOT_EXTRA for key, _ in p_) for p_ in inters):
        inters = [list(p_) + [["sid", i_]] for i_, p_ in enumerate(inters)]
    env2 = dict(env, inters=inters, stop=1 + (k - 1) % max(1, len(inters) - 1))
    then = list(case.get("then", []))
    if q == 0:
        case = dict(case, env=env2)
    else:
        then[q - 1] = dict(then[q - 1], env=env2)
    if again:
        then.insert(q, {"cfg": cfg, "env": dict(env, inters=inters)})
    if then:
        case = dict(case, then=then)
    return case


def gen_case(rng, tier="quick", boundary=False):
    """`gen_case0` + (12%) earlier operations in the same process (an aborted SequentialCB evaluation whose learner wrote
    learning_info, or a RejectionCB evaluation) before the first and/or a later evaluation of the case"""
    case = gen_case0(rng, tier, boundary)
    if rng.chance(0.3 if boundary else 0.16):
        case = add_stop(case, rng.below(3), rng.randint(1, 4), rng.chance(0.5))
    if rng.chance(0.2 if boundary else 0.12):
        then = case.get("then") or []
        if then and rng.chance(0.4):
            q = rng.below(len(then))
            case["then"] = [dict(t, pre=gen_pre(rng)) if i_ == q else t for i_, t in enumerate(then)]
        else:
            case["pre"] = gen_pre(rng)
    return case


def gen_case0(rng, tier="quick", boundary=False):
    """a case = one evaluation, or a short history of 2-3 evaluations: (25%) the SAME learner object -- plain or already wrapped in
    a SafeLearner -- over environments that differ in batching / context kind / action set, each with a fresh evaluator; or (12%)
    the SAME SequentialCB object applied to DIFFERENT learners (with/without score, other formats, batch-aware or not) over the
    same or other environments (with/without 'actions', logged fields), as an Experiment does"""
    cfg, env, style = gen_episode(rng, boundary)
    r = rng.below(100)
    if r < 12:
        # one evaluator object, several learners
        if rng.chance(0.3):
            # what is required depends on the learner: score-based IPS needs no 'actions', a learner without `score` does
            cfg = {"learn": rng.choice([None, "off"]), "eval": "ips", "record": rng.shuffle(rng.subset(["reward", "context", "time"], 0.6))}
            _, env, _ = gen_episode(rng, True, cfg_fixed=cfg)
            env = dict(env, inters=[[kv for kv in p_ if kv[0] not in ("actions", "rewards")] for p_ in env["inters"]])
        def pmf_able(e_):
            return bool(e_["inters"]) and all("actions" in idict(p_) and idict(p_)["actions"]["l"] for p_ in e_["inters"])
        if rng.chance(0.35) and pmf_able(env):
            # one SequentialCB(seed=own) object under a CHANGING experiment seed, PMF-answering learners: every evaluation must draw
            # with CobaRandom(own seed if it is not None else the experiment seed of THAT evaluation)
            own = rng.choice([None, None, None, 0, 7])
            seeds = rng.shuffle([3, 5, 11, 0, None])
            L = gen_learner(rng, [cfg], [env], force_pmf=True)
            L["pmf_seed"] = own
            then = []
            for q in range(rng.choice([1, 1, 2])):
                L2 = gen_learner(rng, [cfg], [env], force_pmf=True)
                L2["pmf_seed"] = own
                then.append({"cfg": cfg, "env": dict(env, gen=rng.chance(0.5)), "learner": L2, "experiment_seed": seeds[q + 1]})
                if rng.chance(0.4):
                    then[-1].pop("learner")          # the same learner object again
            return {"cfg": cfg, "env": env, "learner": L, "then": then, "reuse_evaluator": True, "experiment_seed": seeds[0]}
        then, hs0 = [], rng.chance(0.5)
        L = gen_learner(rng, [cfg], [env], allow_pmf=False, has_score=hs0)
        for q in range(rng.choice([1, 1, 2])):
            if rng.chance(0.5):
                e2 = dict(env, gen=rng.chance(0.5), batch=(env.get("batch") if rng.chance(0.7) else rng.choice([None, 2])))
                if hetero(env):
                    e2["batch"] = None
            else:
                _, e2, _ = gen_episode(rng, True, cfg_fixed=cfg)
            hs = (not hs0 if q == 0 else rng.chance(0.5)) if rng.chance(0.8) else hs0
            then.append({"cfg": cfg, "env": e2, "learner": gen_learner(rng, [cfg], [e2], allow_pmf=False, has_score=hs)})
        return {"cfg": cfg, "env": env, "learner": L, "then": then, "reuse_evaluator": True}
    then = []
    if r < 37:
        for _ in range(rng.choice([1, 1, 2])):
            c2, e2, s2 = gen_episode(rng, True)
            if rng.chance(0.5):                       # same interactions and mode, other batching: the cleanest contrast
                e2 = dict(env, batch=(rng.choice([1, 2, 2, 3]) if not env.get("batch") and not hetero(env) else None))
                c2 = cfg
            then.append({"cfg": c2, "env": e2})
    L = gen_learner(rng, [cfg] + [t["cfg"] for t in then], [env] + [t["env"] for t in then])
    case = {"cfg": cfg, "env": env, "learner": L}
    if L["fmt"] in PMF_FMTS:
        case["experiment_seed"] = rng.choice([None, None, 5, 11, 0]) if L["pmf_seed"] is not None else rng.choice([5, 11, 0, 3, None])
    if then:
        case["then"] = then
        L["prewrap"] = rng.chance(0.5)
    return case


# ------------------------------------------------------------------ translator: tables read off the source with `ast`
DEFAULT_TABLES = {
    "implicit_exclude": ["context", "actions", "rewards", "action", "reward", "probability", "eval_rewards", "learn_rewards"],
    "req_pred": ["actions"], "req_off": ["action", "reward"], "req_rwds": ["rewards"],
    "learn_types": [["ips", "IPS"], ["dr", "DR"], ["dm", "DM"]], "eval_types": [["ips", "IPS"], ["dr", "DR"], ["dm", "DM"]],
    "ope_targets": ["learn_rewards", "eval_rewards"], "learn_target": "learn_rewards", "eval_target_own": "eval_rewards",
    "eval_target_shared": "learn_rewards", "vw_types": ["DM", "DR"], "learn_modes": ["on", "off", "ips", "dr", "dm"],
    "eval_modes": ["on", "ips", "dr", "dm"], "default_record": ["reward", "action", "probability"]}


def extract_tables(repo):
    """tables, constants, dispatch chains and key lists of SequentialCB / OpeRewards, read with `ast` from the source under test"""
    import ast
    seq = ast.parse(open(os.path.join(repo, "coba", "evaluators", "sequential.py"), encoding="utf-8").read())
    flt = ast.parse(open(os.path.join(repo, "coba", "environments", "filters.py"), encoding="utf-8").read())
    cls = next(n for n in seq.body if isinstance(n, ast.ClassDef) and n.name == "SequentialCB")
    fns = {n.name: n for n in cls.body if isinstance(n, ast.FunctionDef)}
    t = {}
    # _IMPLICIT_EXCLUDE = {...}
    asg = next(n for n in cls.body if isinstance(n, ast.Assign) and n.targets[0].id == "_IMPLICIT_EXCLUDE")
    t["implicit_exclude"] = [ast.literal_eval(e) for e in asg.value.elts]
    # _required: `if pred: required_keys.update([...])` ...
    for n in ast.walk(fns["_required"]):
        if isinstance(n, ast.If) and isinstance(n.test, ast.Name) and n.test.id in ("pred", "off", "rwds"):
            call = n.body[0].value
            assert call.func.attr == "update"
            t["req_" + n.test.id] = ast.literal_eval(call.args[0])
    # flags `lrn_ips = learn == 'ips'` and the chains `learn_type = 'IPS' if lrn_ips else ... else None`
    res = fns["_results"]
    flags, chains, targets = {}, {}, {}
    for n in ast.walk(res):
        if isinstance(n, ast.Assign) and len(n.targets) == 1 and isinstance(n.targets[0], ast.Name):
            name, v = n.targets[0].id, n.value
            if isinstance(v, ast.Compare) and isinstance(v.left, ast.Name) and v.left.id in ("learn", "eval") and isinstance(v.ops[0], ast.Eq):
                flags[name] = (v.left.id, ast.literal_eval(v.comparators[0]))
            if name in ("learn_type", "eval_type"):
                chain = []
                while isinstance(v, ast.IfExp):
                    chain.append((v.test.id, ast.literal_eval(v.body)))
                    v = v.orelse
                assert ast.literal_eval(v) is None
                chains[name] = chain
            if name == "learn_target":
                t["learn_target"] = ast.literal_eval(v)
            if name == "eval_target":
                t["eval_target_own"], t["eval_target_shared"] = ast.literal_eval(v.body), ast.literal_eval(v.orelse)
    for nm, which in (("learn_type", "learn"), ("eval_type", "eval")):
        t[which + "_types"] = [[flags[f][1], ty] for f, ty in chains[nm] if flags[f][0] == which]
        assert len(t[which + "_types"]) == len(chains[nm])
    t["ope_targets"] = [ast.literal_eval(k.value) for n in ast.walk(res) if isinstance(n, ast.Call) and getattr(n.func, "id", None) == "OpeRewards"
                        for k in n.keywords if k.arg == "target"]
    # __init__(record: …=[…], learn: Optional[Literal[…]], eval: Optional[Literal[…]])
    init = fns["__init__"]
    args = {a.arg: a for a in init.args.args}
    def literals(a):
        return [ast.literal_eval(e) for n in ast.walk(a.annotation) if isinstance(n, ast.Subscript) and getattr(n.value, "id", None) == "Literal"
                for e in (n.slice.elts if isinstance(n.slice, ast.Tuple) else [n.slice])]
    t["learn_modes"], t["eval_modes"] = literals(args["learn"]), literals(args["eval"])
    t["default_record"] = ast.literal_eval(init.args.defaults[0])
    # OpeRewards.__init__: `if rwd_type in ['DM','DR']: PackageChecker.vowpalwabbit(...)`
    ope = next(n for n in flt.body if isinstance(n, ast.ClassDef) and n.name == "OpeRewards")
    oinit = next(n for n in ope.body if isinstance(n, ast.FunctionDef) and n.name == "__init__")
    t["vw_types"] = []
    for n in ast.walk(oinit):
        if isinstance(n, ast.If) and isinstance(n.test, ast.Compare) and isinstance(n.test.ops[0], ast.In) and "vowpalwabbit" in ast.dump(n.body[0]):
            t["vw_types"] = ast.literal_eval(n.test.comparators[0])
    for k in DEFAULT_TABLES:
        assert k in t, k
    return t


DEFAULT_ROW_PROGRAM = {
    "flag_defs": [["out_prob", "probability", "eval"], ["out_time", "time", ""], ["out_action", "action", "eval"], ["out_context", "context", ""],
                  ["out_actions", "actions", "has_actions"], ["out_rewards", "rewards", "has_rewards"], ["out_reward", "reward", "eval"],
                  ["out_ope_loss", "ope_loss", "eval"]],
    "row_program": [["predict_time", ["out_time"]], ["learn_time", ["out_time", "learn"]], ["context", ["out_context"]], ["actions", ["out_actions"]],
                    ["action", ["out_action"]], ["reward", ["out_reward"]], ["rewards", ["out_rewards"]], ["ope_loss", ["out_ope_loss"]],
                    ["probability", ["out_prob", "should_pred", "on_pr"]]]}


def extract_row_program(repo):
    """phase 5 (goal 3): the record-construction code of `_results` as a small program, read with `ast` from the source under test --
    the `out_* = '<name>' in self._record [and <guard>]` flag definitions and, in program order, every `if <conjunction>: out['<key>'] = …`
    statement of the loop body (the conjunction as a list of atoms: flag names, `learn`, `should_pred`, `on_pr` for `on_pr is not None`)"""
    import ast
    seq = ast.parse(open(os.path.join(repo, "coba", "evaluators", "sequential.py"), encoding="utf-8").read())
    cls = next(n for n in seq.body if isinstance(n, ast.ClassDef) and n.name == "SequentialCB")
    res = next(n for n in cls.body if isinstance(n, ast.FunctionDef) and n.name == "_results")

    def in_record(v):
        ok = (isinstance(v, ast.Compare) and len(v.ops) == 1 and isinstance(v.ops[0], ast.In) and isinstance(v.left, ast.Constant)
              and isinstance(v.comparators[0], ast.Attribute) and v.comparators[0].attr == "_record")
        return v.left.value if ok else None
    defs = []
    for n in res.body:
        if isinstance(n, ast.Assign) and len(n.targets) == 1 and isinstance(n.targets[0], ast.Name) and n.targets[0].id.startswith("out_"):
            v = n.value
            if in_record(v) is not None:
                defs.append([n.targets[0].id, in_record(v), ""])
            else:
                assert isinstance(v, ast.BoolOp) and isinstance(v.op, ast.And) and len(v.values) == 2 and in_record(v.values[0]) is not None and isinstance(v.values[1], ast.Name)
                defs.append([n.targets[0].id, in_record(v.values[0]), v.values[1].id])
    loop = next(n for n in res.body if isinstance(n, ast.For) and isinstance(n.target, ast.Name) and n.target.id == "interaction")

    def atom(e):
        if isinstance(e, ast.Name):
            return e.id
        assert (isinstance(e, ast.Compare) and isinstance(e.left, ast.Name) and e.left.id == "on_pr" and isinstance(e.ops[0], ast.IsNot)
                and isinstance(e.comparators[0], ast.Constant) and e.comparators[0].value is None), ast.dump(e)
        return "on_pr"
    prog = []
    for n in loop.body:
        if (isinstance(n, ast.If) and not n.orelse and len(n.body) == 1 and isinstance(n.body[0], ast.Assign)
                and isinstance(n.body[0].targets[0], ast.Subscript) and isinstance(n.body[0].targets[0].value, ast.Name)
                and n.body[0].targets[0].value.id == "out"):
            key = n.body[0].targets[0].slice.value
            atoms = [atom(x) for x in n.test.values] if isinstance(n.test, ast.BoolOp) and isinstance(n.test.op, ast.And) else [atom(n.test)]
            prog.append([key, atoms])
    assert defs and prog
    return {"flag_defs": defs, "row_program": prog}


# ------------------------------------------------------------------ the property
def corpus_cases():
    """boundary cases + minimised past failures (run first on every check)"""
    def L(fmt="AP", has_score=False, bm="aware", kw=(), script=None):
        return {"fmt": fmt, "has_score": has_score, "batch_mode": bm, "kw_keys": list(kw),
                "script": script or [{"idx": 1, "free": 3, "p": [1, 4], "kw": {k: "v" for k in kw}, "s": [1, 2]},
                                     {"idx": 0, "free": {"f": [3, 2]}, "p": [1, 2], "kw": {k: 7 for k in kw}, "s": [1, 4]}]}
    sim = [[["context", 1], ["actions", {"l": [0, 1, 2]}], ["rewards", {"l": [{"f": [1, 2]}, {"f": [1, 4]}, 1]}], ["L", "a"]],
           [["context", 2], ["actions", {"l": [3, 4]}], ["rewards", {"l": [1, 2]}], ["L", {"l": [1, 2]}]],
           [["context", None], ["actions", {"l": [5, 6, 7]}], ["rewards", {"l": [0, 0, 3]}], ["L", None]]]
    log = [[["context", {"d": [["a", 1]]}], ["action", 2], ["reward", 3], ["probability", {"f": [1, 4]}], ["actions", {"l": [2, 5, 8]}]],
           [["context", {"d": [["b", 2]]}], ["action", 6], ["reward", 4], ["probability", {"f": [1, 2]}], ["actions", {"l": [3, 6, 9]}]],
           [["context", {"d": []}], ["action", 4], ["reward", 5], ["probability", 1], ["actions", {"l": [4, 7, 0]}]]]
    lognp = [[kv for kv in p if kv[0] != "probability"] for p in log]
    logna = [[kv for kv in p if kv[0] != "actions"] for p in log]
    both = [s + [kv for kv in l if kv[0] in ("action", "reward", "probability")] for s, l in zip(sim, log)]
    noctx = [[kv for kv in p if kv[0] != "context"] for p in both]
    cont = [[["context", {"t": [1, 2]}], ["actions", {"l": []}], ["rewards", {"rfn": {"kind": "L1", "argmax": 1}}]],
            [["context", {"t": [3, 4]}], ["actions", {"l": []}], ["rewards", {"rfn": {"kind": "L1", "argmax": {"f": [5, 2]}}}]]]
    allrec = list(RECORD_ALL)
    dflt = ["reward", "action", "probability"]
    cs = []

    def add(learn, ev, rec, inters, batch=None, **lk):
        cs.append({"cfg": {"learn": learn, "eval": ev, "record": rec}, "env": {"batch": batch, "gen": False, "inters": inters}, "learner": L(**lk)})
    for learn in ("on", "off", "ips", None):
        for ev in ("on", "ips", None):
            add(learn, ev, dflt, both)
            add(learn, ev, allrec, both, fmt="APK", kw=("i",))
            add(learn, ev, dflt, both, batch=2, bm="unaware")
            add(learn, ev, ["reward"], both, batch=3, fmt="dAP")
            add(learn, ev, dflt, both, has_score=True)
    add("on", "on", dflt, sim)
    add("on", "on", ["time"], sim)
    add(None, "on", ["time", "reward"], sim)                      # learn_time without learn
    add("off", None, [], logna, batch=2)                          # batched, no reward object
    add(None, None, ["context"], both, batch=2)
    add("on", "on", ["action"], sim, batch=2, fmt="dAP")          # rows with plain-list cells only
    add("on", "on", ["action", "probability"], sim, batch=1, fmt="dAP")
    add("on", "on", ["rewards"], [p[:3] for p in sim], batch=3, fmt="dAP")
    add("on", "on", dflt, noctx, batch=2, bm="unaware", fmt="dAP")  # absent context, per-row fallback
    add("off", "on", dflt, [[kv for kv in p if kv[0] != "probability"] for p in both], batch=2, bm="unaware", fmt="dAP")
    add("on", "on", dflt, sim, batch=2, fmt="AP")                 # orientation probe
    add("ips", None, dflt, lognp)                                 # ips without probability
    add(None, "ips", ["reward"], lognp, has_score=True)
    add("off", "ips", dflt, logna, has_score=True, fmt="dA")      # record forces a predict without actions
    add(None, "ips", ["reward"], logna, has_score=True)           # score-based, no actions needed
    add("on", "on", dflt, cont, fmt="dAP")
    add("on", "on", allrec, cont, fmt="dA", batch=2)
    add("on", "on", dflt, [])
    # histories: the same learner object (plain / already wrapped in SafeLearner) evaluated un-batched, batched, un-batched
    for prewrap in (True, False):
        for fmt, bm in (("AP", "aware"), ("dAPK", "aware"), ("A", "unaware")):
            for first_batch, second_batch in ((None, 2), (2, None), (3, 1)):
                c0 = {"cfg": {"learn": "on", "eval": "on", "record": dflt}, "env": {"batch": first_batch, "gen": False, "inters": sim},
                      "learner": dict(L(fmt=fmt, bm=bm, kw=("i",) if fmt.endswith("K") else ()), prewrap=prewrap),
                      "then": [{"cfg": {"learn": "on", "eval": "on", "record": dflt}, "env": {"batch": second_batch, "gen": False, "inters": sim}},
                               {"cfg": {"learn": "ips", "eval": "ips", "record": allrec}, "env": {"batch": first_batch, "gen": True, "inters": both}}]}
                cs.append(c0)
    # one SequentialCB object, several learners: what the evaluator needs depends on the learner (has_score), not on the evaluator
    for learn in (None, "off"):
        for order in ((True, False), (False, True), (True, False, True)):
            for envq in (logna, log):
                c0 = {"cfg": {"learn": learn, "eval": "ips", "record": ["reward"]}, "env": {"batch": None, "gen": True, "inters": envq},
                      "learner": L(fmt="dAP", has_score=order[0]), "reuse_evaluator": True,
                      "then": [{"cfg": {"learn": learn, "eval": "ips", "record": ["reward"]}, "env": {"batch": None, "gen": False, "inters": envq},
                                "learner": L(fmt="A" if hs else "dAP", has_score=hs, bm="unaware" if hs else "aware")} for hs in order[1:]]}
                cs.append(c0)
    # only some interactions carry a propensity (first one does not)
    het = [[kv for kv in p_ if not (kv[0] == "probability" and q in (0, 2))] for q, p_ in enumerate(
        [[["context", i], ["actions", {"l": ["a", "b"]}], ["action", "a"], ["reward", {"f": [i + 1, 1]}], ["probability", {"f": [1, 4]}]] for i in range(4)])]
    one_a = [{"idx": 0, "free": 0, "p": [1, 1], "kw": {}, "s": [1, 2]}]
    for learn, ev, hs in (("ips", "ips", False), ("ips", None, False), (None, "ips", False), (None, "ips", True), ("on", "ips", False)):
        if learn != "on":
            add(learn, ev, ["reward"], het, fmt="AP", script=one_a, has_score=hs)
    # PMF answers under SequentialCB(seed=0 / 0.0 / 1 / None) with and without an experiment seed: the draw follows CobaRandom(own seed)
    # whenever the own seed is not None
    pm = [[n_, [list(w) for w in PMFS[n_][0]]] for n_ in range(1, 6)]
    pscript = [{"idx": 0, "free": 0, "p": [1, 2], "kw": {"i": 1}, "s": [1, 2], "pm": pm},
               {"idx": 0, "free": 0, "p": [1, 2], "kw": {"i": 2}, "s": [1, 2], "pm": [[n_, [list(w) for w in PMFS[n_][-1]]] for n_ in range(1, 6)]}]
    for own in (0, {"f": [0, 1]}, 1, None):
        for exp in (None, 5):
            if own is None and exp is None:
                continue
            for fmt, batch in (("pmf", None), ("pmfK", 2)):
                cs.append({"cfg": {"learn": "on", "eval": "on", "record": dflt}, "env": {"batch": batch, "gen": False, "inters": sim + sim},
                           "learner": dict(L(fmt=fmt, kw=("i",) if fmt == "pmfK" else (), script=pscript), pmf_seed=own), "experiment_seed": exp})
    # round h (seeded C06-hm2): PMF answers whose float sum is not exactly 1.0 (inside SafeLearner's tolerance): the probability given to
    # learn and recorded is the learner's own entry for the played action, exactly -- every inexact PMF, several seeds, on/ips, Batch(2)
    for q in range(4):
        hscript = [{"idx": 0, "free": 0, "p": [1, 2], "kw": {"i": j}, "s": [1, 2],
                    "pm": [[n_, [list(w) for w in PMFS_INEXACT[n_][(q + j) % len(PMFS_INEXACT[n_])]]] for n_ in range(1, 6)]} for j in range(2)]
        for own in (0, 1, 7):
            for learn, ev, inters in (("on", "on", sim + sim), ("ips", "ips", both + both)):
                for fmt, batch in (("pmf", None), ("pmfK", 2)):
                    cs.append({"cfg": {"learn": learn, "eval": ev, "record": dflt}, "env": {"batch": batch, "gen": False, "inters": inters},
                               "learner": dict(L(fmt=fmt, kw=("i",) if fmt == "pmfK" else (), script=hscript), pmf_seed=own), "experiment_seed": None})
    sim3 = [p_ for p_ in sim if len(idict(p_)["actions"]["l"]) == 3]
    for tbl in (PMFS_EDGE_IN, PMFS_EDGE_OUT, {n_: v[0] for n_, v in PMFS_INEXACT.items()}):
        bscript = [{"idx": 0, "free": 0, "p": [1, 2], "kw": {}, "s": [1, 2], "pm": [[n_, [list(w) for w in tbl[n_]]] for n_ in range(1, 6)]}]
        for own in (0, 7):
            for learn, ev, inters in (("on", "on", sim3 + sim + sim3), ("ips", "ips", [p_ for p_ in both if len(idict(p_)["actions"]["l"]) == 3] * 2)):
                cs.append({"cfg": {"learn": learn, "eval": ev, "record": dflt}, "env": {"batch": None, "gen": False, "inters": inters},
                           "learner": dict(L(fmt="pmfB", script=bscript), pmf_seed=own), "experiment_seed": None})
    # logs built with LoggedInteraction(...): falsy-but-legal values are values (probability 0 / 0.0, reward 0, action 0, context 0 / '' / [])
    lz = [[["context", c_], ["action", a_], ["reward", r_], ["probability", p_], ["actions", {"l": [0, "b", 2]}]]
          for c_, a_, r_, p_ in ((0, 0, 0, 0), ("", "b", {"f": [0, 1]}, {"f": [0, 1]}), ({"l": []}, 2, 1, {"f": [1, 2]}), ({"f": [0, 1]}, 0, 2, 0))]
    for learn, ev in (("off", None), ("off", "ips"), ("ips", "ips"), ("off", "on")):
        for batch in (None, 2):
            cs.append({"cfg": {"learn": learn, "eval": ev, "record": allrec if ev else ["context"]},
                       "env": {"batch": batch, "gen": False, "ctor": True,
                               "inters": lz if ev != "on" else [p_ + [["rewards", {"l": [0, 1, 0]}]] for p_ in lz]},
                       "learner": L(fmt="dAP")})
    # one SequentialCB(seed=None) object, the experiment seed changes between its evaluations, PMF learners
    for own, seq in ((None, (3, 5)), (None, (5, 3, 11)), (0, (3, 5)), (None, (0, 7))):
        mkL = lambda: dict(L(fmt="pmf", script=pscript), pmf_seed=own)
        cs.append({"cfg": {"learn": "on", "eval": "on", "record": dflt}, "env": {"batch": None, "gen": False, "inters": sim + sim},
                   "learner": mkL(), "reuse_evaluator": True, "experiment_seed": seq[0],
                   "then": [{"cfg": {"learn": "on", "eval": "on", "record": dflt}, "env": {"batch": None, "gen": True, "inters": sim + sim},
                             "learner": mkL(), "experiment_seed": e_} for e_ in seq[1:]]})
    # Lean example off_policy_probability_per_interaction_example (finding F8)
    add("off", None, [], [[["context", 1], ["action", 2], ["reward", 3]], [["context", 2], ["action", 3], ["reward", 4], ["probability", {"f": [1, 4]}]]])
    # tiny logged propensities with the learner playing the logged action (idx 0 of a one-entry script; logged action = actions[0])
    for pr in ([1, 4096], [1, 10000], [1, 10 ** 9], [1, 2 ** 30]):
        tiny = [[["context", i], ["actions", {"l": [7, 8, 9]}], ["rewards", {"l": [1, 2, 3]}], ["action", 7], ["reward", {"f": [i + 1, 2]}], ["probability", {"f": pr}]]
                for i in range(3)]
        one = [{"idx": 0, "free": 0, "p": [1, 2], "kw": {}, "s": [1, 2]}]
        for learn, ev, hs in (("ips", None, False), (None, "ips", False), ("ips", "ips", False), (None, "ips", True), ("off", "ips", True)):
            add(learn, ev, ["reward"] if hs else dflt, tiny, fmt="AP", script=one, has_score=hs)
    # integer ids that do not survive float(): SafeLearner rewrites 0/1 (and only those) to floats
    B1, B2 = 2 ** 53 + 1, 2 ** 53 + 3
    big = [[["context", {"t": [1]}], ["actions", {"l": [0, B1, B2]}], ["rewards", {"l": [{"f": [1, 8]}, {"f": [1, 2]}, {"f": [7, 8]}]}], ["tag", "a"]],
           [["context", {"t": [2]}], ["actions", {"l": [5, B1, B2]}], ["rewards", {"l": [{"f": [1, 4]}, {"f": [5, 8]}, {"f": [3, 4]}]}], ["tag", "b"]],
           [["context", {"t": [3]}], ["actions", {"l": [B2, B1, 1]}], ["rewards", {"l": [{"f": [3, 8]}, {"f": [3, 4]}, {"f": [1, 4]}]}], ["tag", ""]]]
    for fmt in ("A", "AP", "dAP"):
        add("on", "on", dflt, big, fmt=fmt)
    bigfn = []
    for p_ in big:
        d_ = dict(p_)
        bigfn.append([kv if kv[0] != "rewards" else
                      ["rewards", {"rfn": {"kind": "discreteM", "actions": d_["actions"]["l"], "rewards": d_["rewards"]["l"], "default": -1}}] for kv in p_])
    add("on", "on", dflt, bigfn, fmt="A")
    # falsy-but-legal learner outputs: probability 0 (float and int), empty kwargs
    zs = [{"idx": 0, "free": 0, "p": [1, 1], "kw": {}, "s": [1, 2]}, {"idx": 1, "free": 0, "p": [0, 1], "kw": {}, "s": [0, 1]},
          {"idx": 2, "free": 0, "p": [1, 2], "kw": {}, "s": [1, 2]}, {"idx": 0, "free": 0, "p": [0, 1], "pint": True, "kw": {}, "s": [1, 2]}]
    falsy = [[["context", c], ["actions", {"l": ["", "b", 0]}], ["rewards", {"l": [0, {"f": [0, 1]}, {"f": [1, 2]}]}], ["action", a], ["reward", r],
              ["probability", {"f": [1, 2]}], ["round", i]]
             for i, (c, a, r) in enumerate([(0, "", 0), ("", 0, {"f": [0, 1]}), ({"l": []}, "b", 1), ({"d": []}, 0, 0), ({"f": [0, 1]}, "", 2), ({"t": []}, "b", 0)])]
    for learn in ("on", None, "off", "ips"):
        for ev in ("on", "ips"):
            add(learn, ev, dflt, falsy, fmt="AP", script=zs)
            add(learn, ev, allrec, falsy, fmt="APK", script=zs)
    add("on", "on", dflt, [p[:2] for p in sim])                   # no rewards -> rejected
    add("off", "on", dflt, sim)                                   # no logged fields -> rejected
    add("ips", "ips", dflt, [[kv for kv in p if kv[0] != "reward"] for p in log])
    # round g (seeded C06-gm1): an earlier operation in the same process left CobaContext.learning_info non-empty
    for pre in ([{"kind": "crash", "where": "learn", "at": 1, "info": STALE_INFOS[0]}],
                [{"kind": "crash", "where": "learn", "at": 0, "info": STALE_INFOS[1]}],
                [{"kind": "crash", "where": "predict", "at": 1, "info": STALE_INFOS[2]}],
                [{"kind": "crash", "where": "score", "at": 0, "info": STALE_INFOS[3]}],
                [{"kind": "rejection", "info": STALE_INFOS[0]}],
                [{"kind": "rejection", "info": STALE_INFOS[2]}, {"kind": "crash", "where": "learn", "at": 2, "info": STALE_INFOS[1]}]):
        for (learn, ev, rec, inters, batch) in (("on", "on", dflt, sim, None), ("on", "on", [], [p[:3] for p in sim], None), ("off", "ips", ["reward"], both, 2)):
            add(learn, ev, rec, inters, batch=batch)
            cs[-1]["pre"] = pre
    add("on", "on", dflt, sim)
    cs[-1]["then"] = [{"cfg": {"learn": "on", "eval": "on", "record": dflt}, "env": {"batch": None, "gen": False, "inters": sim},
                       "pre": [{"kind": "crash", "where": "learn", "at": 1, "info": STALE_INFOS[0]}]}]
    # phase 4: modes needing vowpalwabbit (guard), heterogeneous reserved keys
    for learn, ev in (("dr", "dm"), ("dm", "dm"), ("dr", None), ("ips", "dr"), ("ips", "dm"), ("on", "dr"), ("off", "dm"), (None, "dr"), ("dm", "ips"), ("dr", "on")):
        add(learn, ev, dflt, both)
        add(learn, ev, ["reward"], both, batch=2, has_score=True)
        add(learn, ev, dflt, sim)                                   # no logged fields -> rejected by validation first
        add(learn, ev, dflt, logna, has_score=True)                 # no 'actions'
    for drop in (["context"], ["actions"], ["rewards"], ["action"], ["reward"], ["context", "actions"], ["rewards", "reward"]):
        for learn, ev in (("on", "on"), ("off", "ips"), ("ips", "on"), ("on", "ips"), (None, None)):
            add(learn, ev, allrec, [both[0], both[1], [kv for kv in both[2] if kv[0] not in drop]])
            add(learn, ev, dflt, [both[0], [kv for kv in both[1] if kv[0] not in drop], both[2]], has_score=True)
    add("off", None, allrec, [logna[0], logna[1] + [["actions", {"l": [1, 2]}]], logna[2]])       # a later interaction has 'actions', the first not
    add("on", "on", allrec, [noctx[0], noctx[1] + [["context", 5]], noctx[2]])
    return cs


class C06(Property):
    id = "C06"
    prop_modules = ["CobaVerif.Props.C06"]
    quick_n = 6000
    thorough_n = 100000
    search_n = 4000
    case_timeout = 60
    workers = 8
    rule = ("random finite environments (0-7 interactions; context none/scalar/str/dense/sparse or key absent, falsy values 0/''/[]/{} included; "
            "action sets of ints incl. 0/1/bools, ids above 2^53, floats, strings incl. '', dense tuples/lists, sparse dicts, or [] for continuous; "
            "sequence or functional rewards (L1, Binary, Discrete x2, Hamming, plain callable), zeros frequent; logged action/reward/probability "
            "present or absent, propensities from 1.0 down to 2^-30 and 1e-9; 0-3 extra fields of arbitrary JSON-like values; un-batched or "
            "Batch(1..4); list or generator read()) x learn in {on,off,ips,None} x eval in {on,ips,None} x record subsets x a scripted recording "
            "learner (8 (action[,prob][,kwargs]) formats incl. probability 0 and empty kwargs, or PMF answers {'pmf':..} drawn by SafeLearner with "
            "CobaRandom(seed); with/without score; batch-aware or not; 15% also write CobaContext.learning_info). 25% of the cases are histories of "
            "2-3 evaluations with the same learner object (plain or pre-wrapped in SafeLearner) over environments differing in batching/shape; "
            "every evaluation is judged on its own. 7% use a mode needing vowpalwabbit (learn/eval in dr, dm: guard only); 8% of un-batched "
            "environments have ONE later interaction lacking 1-2 reserved keys of the first and/or later interactions carrying reserved keys the first "
            "lacks ((A) only); 12% are preceded in the same process by an aborted SequentialCB evaluation whose learner wrote learning_info, or by a "
            "RejectionCB evaluation (rows must hold nothing of it). non-trivial = at least 2 interactions and every environment passes validation; distinct by "
            "canonical JSON of the case")
    trusted_base = [
        "SafeLearner's prediction-format parsing is the identity on (action, probability, kwargs) for the 8 hinted/unambiguous formats generated "
        "(C15's subject); for {'pmf': ..} answers it is modelled (wrapPmf) as one CobaRandom(seed).choicew draw per row with the finished C05 model; "
        "its 0/1 -> 0.0/1.0 action rewrite is invisible under Python ==, which is the equality used by the canonical forms",
        "reward objects (L1/Binary/Discrete/Hamming) are tabulated by the harness's own formulas on the actions that can occur and handed to the "
        "model as finite tables; Harden/Repr inside Finalize are identities on the generated (materialised, non-categorical) values",
        "numbers are exact rationals of the doubles; contexts, actions, probabilities, kwargs, extras are compared exactly; only computed rewards "
        "(r/p, score*r/p) are compared with relative tolerance 1e-12 against the model's exact rationals",
        "a batch-level learner call is read as its rows in order (batch-aware recorder) or is replaced by per-row calls by SafeLearner (batch-unaware recorder)",
        "learning_info in a batched pass is modelled with Unbatch's indexing of subscriptable values (Subscript.idx = Python v[i] on the canonical "
        "list/str forms); generated only where every row has an extra field (a batch row without any Batch.List cell is never un-batched)",
        "modes dr/dm: modelled up to the package guard (evaluateX: validation with _required for every accepted mode, then OpeRewards(type, target) in "
        "construction order raising CobaExit when vowpalwabbit is absent); with the package installed the trained DM/DR reward regressor is not "
        "modelled (OutcomeX.notModelled, (A) skipped)",
        "heterogeneous reserved keys: the model's per-interaction reads are Finalize's DiscreteReward, OpeRewards('IPS') and the loop body; "
        "Harden/Repr inside Finalize also subscript context/actions/action with a two-interaction look-ahead, so (A) compares the KeyError's key as a "
        "member of missingOf and the learner calls as a prefix of the model's calls before the first incomplete interaction",
        "translator (pre_build): _IMPLICIT_EXCLUDE, the key lists of _required, the learn_type/eval_type chains, the OpeRewards target names, the "
        "Literal mode lists, the default record and OpeRewards' vowpalwabbit types are read with ast from the source under test into "
        "Generated/C06Tables.lean; theorem source_tables_match ties them to the model",
    ]
    assumptions = ["modes dr/dm and record 'ope_loss' need vowpalwabbit (excluded by the property)",
                   "environments are homogeneous (every interaction has the keys of the first) except that 'probability' may be present in some "
                   "interactions only (un-batched logs); every interaction has at least one of "
                   "context/actions/action, and action sets have no duplicates under ==",
                   "extra field names and learning_info keys are disjoint from coba's reserved names (context, actions, rewards, action, reward, "
                   "probability, feedbacks, learn_rewards, eval_rewards, predict_time, learn_time) and from each other",
                   "a learner reports a probability either always or never; PMF answers are valid PMFs of the right length"]
    partial_theorems = {"validate_iff_missing_partial": "the code does not require 'probability' in the ips modes although the docstring does (finding C06-F1, "
                        "pinned by test_off_ips_actions_no_prob); witness validate_counterexample",
                        "batched_eq_unbatched / batched_trace_eq_unbatched": "hold for history-independent learners only -- for stateful learners the runs "
                        "legitimately differ; the exact difference is batched_calls_shape + batched_row_predicted_before_learning",
                        "off_policy_logged": "stated under Hyp (homogeneous environments); for the logged probability the model reads each interaction's "
                        "own key (fix C06-F8, logged_probability_read_per_interaction, off_policy_probability_per_interaction_example); until the fix "
                        "is committed /repo passes None / raises KeyError there (known C06-F8, C06-F8b)",
                        "batched_trace_regrouped": "history-independent learners only (exact side condition Oblivious + Hyp)"}

    # ---- translator part: tables/constants of SequentialCB and OpeRewards are re-extracted from the CURRENT source on every run;
    # Lemmas/C06.lean proves that they are the ones the model uses (theorem source_tables_match)
    def pre_build(self):
        from core import lean
        path = os.path.join(lean.LEAN_DIR, "CobaVerif", "Generated", "C06Tables.lean")
        try:
            t = extract_tables(os.environ.get("COBA_REPO", "/repo"))
            note = "C06 tables extracted from coba/evaluators/sequential.py and coba/environments/filters.py"
        except Exception as e:        # noqa: source reshaped beyond what the extractor reads
            t = dict(DEFAULT_TABLES, extracted=False)
            note = "C06 tables could not be extracted (%s: %s); (A) still pins them" % (type(e).__name__, e)

        def sl(xs):
            return "[" + ", ".join(json.dumps(x) for x in xs) + "]"

        def pl(ps):
            return "[" + ", ".join("(%s, %s)" % (json.dumps(a), json.dumps(b)) for a, b in ps) + "]"
        body = ("-- GENERATED by harness/props/c06.py from coba/evaluators/sequential.py and coba/environments/filters.py on every run; do not edit.\n"
                "namespace Coba.Generated.C06\n"
                "def implicitExclude : List String := %s\n"
                "def requiredPred : List String := %s\ndef requiredOff : List String := %s\ndef requiredRwds : List String := %s\n"
                "def learnTypes : List (String × String) := %s\ndef evalTypes : List (String × String) := %s\n"
                "def opeTargets : List String := %s\n"
                "def learnTarget : String := %s\ndef evalTargetOwn : String := %s\ndef evalTargetShared : String := %s\n"
                "def vwTypes : List String := %s\n"
                "def learnModes : List String := %s\ndef evalModes : List String := %s\n"
                "def defaultRecord : List String := %s\n"
                "def extracted : Bool := %s\nend Coba.Generated.C06\n"
                % (sl(sorted(t["implicit_exclude"])), sl(t["req_pred"]), sl(t["req_off"]), sl(t["req_rwds"]), pl(t["learn_types"]), pl(t["eval_types"]),
                   sl(t["ope_targets"]), json.dumps(t["learn_target"]), json.dumps(t["eval_target_own"]), json.dumps(t["eval_target_shared"]),
                   sl(sorted(t["vw_types"])), sl(sorted(t["learn_modes"])), sl(sorted(t["eval_modes"])), sl(t["default_record"]),
                   "true" if t.get("extracted", True) else "false"))
        old = open(path, encoding="utf-8").read() if os.path.exists(path) else None
        if old != body:
            os.makedirs(os.path.dirname(path), exist_ok=True)
            with open(path, "w", encoding="utf-8") as f:
                f.write(body)
        # phase 5: the record-construction code as a program (theorem record_program_matches)
        path2 = os.path.join(lean.LEAN_DIR, "CobaVerif", "Generated", "C06RowProgram.lean")
        try:
            rp = dict(extract_row_program(os.environ.get("COBA_REPO", "/repo")), extracted=True)
            note2 = "C06 row program extracted from SequentialCB._results"
        except Exception as e:        # noqa
            rp = dict(DEFAULT_ROW_PROGRAM, extracted=False)
            note2 = "C06 row program could not be extracted (%s: %s); (A) record-keys still pins it" % (type(e).__name__, e)
        body2 = ("-- GENERATED by harness/props/c06.py from coba/evaluators/sequential.py (SequentialCB._results) on every run; do not edit.\n"
                 "namespace Coba.Generated.C06\n"
                 "def flagDefs : List (String × String × String) := [%s]\n"
                 "def rowProgram : List (String × List String) := [%s]\n"
                 "def rowProgramExtracted : Bool := %s\nend Coba.Generated.C06\n"
                 % (", ".join("(%s, %s, %s)" % tuple(json.dumps(x) for x in d) for d in rp["flag_defs"]),
                    ", ".join("(%s, %s)" % (json.dumps(k), sl(a)) for k, a in rp["row_program"]),
                    "true" if rp["extracted"] else "false"))
        old2 = open(path2, encoding="utf-8").read() if os.path.exists(path2) else None
        if old2 != body2:
            with open(path2, "w", encoding="utf-8") as f:
                f.write(body2)
        return [note, note2]

    def corpus(self):
        cs = corpus_cases()
        # phase 6: read / abandon / read again -- the first 60 corpus cases that can be abandoned, stopped after 1 and after 2 rows,
        # with and without reading the same environment again afterwards
        extra = []
        for c_ in cs:
            if len(extra) >= 120:
                break
            for k_, again in ((1, True), (2, False)):
                c2 = add_stop(c_, 0, k_, again)
                if c2 is not c_:
                    extra.append(c2)
        return cs + extra

    def generate(self, rng, tier):
        return gen_case(rng, tier)

    def search(self, rng, tier):
        return gen_case(rng, tier, boundary=True)

    def evaluate(self, case, driver):
        obs = run_history(case)
        fails, tags, models, smalls = [], [], [], []
        n_eps = len(obs)
        own_learners = any(t.get("learner") for t in case.get("then", []))
        if n_eps > 1:
            tags += ["history:%d" % n_eps, "prewrap:%s" % bool(case["learner"].get("prewrap"))]
            if case.get("reuse_evaluator"):
                tags.append("same-evaluator-object")
            if own_learners:
                tags.append("different-learners")
        valid_all, n_inters = True, 0
        for k, impl in enumerate(obs):
            ecase = episode_case(case, k)
            cfg, env, L = ecase["cfg"], ecase["env"], ecase["learner"]
            if episode_pre(case, k):
                ecase = dict(ecase, pre=episode_pre(case, k))
            xmode, het = is_xcfg(cfg), hetero_reserved(env)
            outside = pmf_outside(L) and bool(env["inters"])
            if outside:
                # outside the quantifier (not a prediction format): (A) only -- SafeLearner must refuse it (CobaException naming the format),
                # nothing is learned, no row is produced
                efails, etags = [], ["pmf:bare:outside-tolerance"]
                n_learn = sum(1 for c in impl["calls"] if c["m"] == "learn")
                if impl["exc"] != "CobaException" or "prediction format" not in impl.get("msg", "") or n_learn or impl["rows"]:
                    efails.append(F("A", "a bare list %s (float sum %r, further than 0.001 from 1, not an action) was not refused as an unreadable "
                                    "prediction: exc=%s %s, learn calls=%d, rows=%s" % (L["script"][0]["pm"], [sum(w[0] / w[1] for w in ws) for _, ws in L["script"][0]["pm"]],
                                                                                        impl["exc"], impl.get("msg", "")[:80], n_learn, impl["rows"]),
                                    "A:pmf-outside-tolerance-not-refused"))
            elif xmode:
                efails, etags = monitor_x(ecase, impl)
            elif het:
                efails, etags = [], ["hetero-reserved-keys"]       # outside the quantifier: (A) only
            else:
                efails, etags = monitor(ecase, impl)
            efails += monitor_foreign(ecase, impl)
            stp = env.get("stopped")
            if stp:
                etags += ["stop:abandoned", "stop:passes:%d" % min(stp["passes"], 3), "stop:%s" % ("batched" if env.get("batch") else "unbatched"),
                          "stop:all" if stp["rows"] >= len(stp["full"]) else "stop:early"]
                if impl.get("after_close"):
                    efails.append(F("B", "closing the generator made the evaluator call the learner %d more time(s): %s -- interactions the consumer "
                                    "never asked for were fed to the learner" % (impl["after_close"], [strip_call(c) for c in impl["calls"][-impl["after_close"]:]][:2]),
                                    "stop:calls-after-close"))
                    impl = dict(impl, calls=impl["calls"][:-impl["after_close"]])
            for op, note in zip(episode_pre(case, k), impl.get("pre", [])):
                etags.append("pre:%s:%s:%s" % (op["kind"], op.get("where"), note))
            etags += ["learn:%s" % cfg["learn"], "eval:%s" % cfg["eval"], "batch:%s" % (env.get("batch") or 0), "n:%d" % min(len(env["inters"]), 5),
                      "fmt:" + L["fmt"], "score:%s" % L["has_score"], "bm:" + L.get("batch_mode", "aware")]
            etags += ["rec:" + r for r in cfg["record"]]
            if env["inters"]:
                d = idict(env["inters"][0])
                etags.append("keys:" + "".join(x[0].upper() if x in d else "-" for x in ("context", "actions", "rewards", "action", "reward", "probability")))
                if "rewards" in d:
                    etags.append("rewards:" + (d["rewards"]["rfn"]["kind"] if "rfn" in d["rewards"] else "list"))
                etags.append("extras:%d" % len([x for x in d if x not in RESERVED]))
                if any(mk(idict(p_).get("probability")) is not None and mk(idict(p_).get("probability")) < 0.001 for p_ in env["inters"]):
                    etags.append("tiny-logged-probability")
            if impl["exc"]:
                etags.append("raised:" + impl["exc"])
            if L["fmt"] in PMF_FMTS:
                etags.append("pmf:inexact-sum" if pmf_inexact(L) else "pmf:exact-sum")
            model = None
            if outside:
                pass
            elif driver is not None and xmode:
                req = model_request(dict(ecase, cfg=dict(cfg, learn=None, eval=None)), impl["s0"])
                req["xcfg"] = {"learn": cfg["learn"], "eval": cfg["eval"], "record": cfg["record"]}
                req["vw"] = vw_installed()
                ansx = driver.ask(req)
                efails += compare_AX(ecase, impl, ansx)
                etags.append("modelX:" + ansx["modelX"]["kind"] + ":" + str(ansx["modelX"].get("err")) + ":" + str(ansx["modelX"].get("type")))
            elif driver is not None and het:
                ans = driver.ask(model_request(ecase, impl["s0"]))
                model = ans["model"]
                hf = compare_hetero(ecase, impl, ans)
                if hf is None:
                    etags.append("hetero:evaluates")
                    efails += compare_A(ecase, impl, ans) + compare_record_keys(ecase, impl, ans)
                else:
                    etags.append("hetero:keyerror:" + "+".join(ans["firstBad"]["keys"]))
                    efails += hf
            elif driver is not None:
                req0 = model_request(ecase, impl["s0"])
                if stp:
                    req0["stop"] = {"j": stp["passes"], "full": model_request(dict(ecase, env=dict(env, inters=stp["full"])), impl["s0"])["env"]}
                raw_on = not L.get("prewrap")
                if raw_on:
                    req0["learner"]["raw"] = {"aware": L.get("batch_mode", "aware") == "aware", "width": raw_width(impl)}
                ans = driver.ask(req0)
                model = ans["model"]
                if stp:
                    # theorems stopped_{unbatched,batched}_is_evaluation_of_prefix / stopped_evaluation_is_prefix, at run time
                    sm = ans["stop"]
                    if sm["stopped"] != model:
                        efails.append(F("C", "evaluateStopped j=%d on the whole environment %s differs from evaluate on the first %d interactions %s"
                                        % (stp["passes"], json.dumps(sm["stopped"])[:150], stp["rows"], json.dumps(model)[:150]), "C:stopped-prefix"))
                    if sm["fullModel"].get("kind") == "ok" and sm["resumed"] != sm["fullModel"]:
                        efails.append(F("C", "resumeStopped after %d passes does not give the full evaluation" % stp["passes"], "C:stopped-resume"))
                if raw_on and (impl["exc"] is None and model.get("kind") == "ok"
                               or impl["exc"] == "CobaException" and model.get("kind") == "error" and model.get("err") == "missing"):
                    rf, rt = compare_raw(ecase, impl, ans)
                    efails += rf
                    etags += rt
                if (case.get("_xcheck") or len(json.dumps(ecase["cfg"])) % 5 == 0) and not case["learner"].get("info") and L["fmt"] not in PMF_FMTS:
                    # theorem evaluateX_conservative: on the package-free modes the all-modes model is the model
                    req = model_request(ecase, impl["s0"])
                    req["xcfg"] = req["cfg"]
                    ansx = driver.ask(req)
                    if ansx["modelX"] != model or ansx["requiredX"] != ans["required"]:
                        efails.append(F("C", "evaluateX %s differs from evaluate %s on a package-free mode" % (json.dumps(ansx["modelX"])[:150], json.dumps(model)[:150]), "C:conservative"))
                    etags.append("xcheck")
                gap_only = False
                if env["inters"]:
                    miss = [x for x in documented_required(cfg, L["has_score"]) if x not in idict(env["inters"][0])]
                    gap_only = bool(miss) and all(known_gap(x, cfg, L["has_score"]) is not None for x in miss)
                if gap_only and (impl["exc"] is not None or miss != ["probability"]):
                    etags.append("A-skipped:documented-but-unenforced-requirement")
                elif not any(f["kind"] == "B" and f["sig"] != "not-rejected-upfront:missing=probability" for f in efails):
                    efails += compare_A(ecase, impl, ans)
                    if not L.get("info") and not any(f["kind"] == "B" for f in efails):
                        efails += compare_record_keys(ecase, impl, ans)
                obl = (len(env["inters"]), env["batch"]) if (env.get("batch") and len(L["script"]) == 1 and L["fmt"] not in PMF_FMTS) else None
                efails += compare_C(ans, bool(env.get("batch")) and bool(env["inters"]), obl)
                if ans.get("hyp"):
                    etags.append("hyp")
            if L.get("info"):
                etags.append("learning_info")
            if stp:
                for f in efails:
                    f["what"] = "the consumer took %d row(s) of %d from evaluate()'s generator and closed it: %s" % (stp["rows"], len(stp["full"]), f["what"])
            if k > 0:
                for f in efails:
                    f["what"] = "evaluation #%d %s, after %s: %s" % (
                        k + 1,
                        ("with the same SequentialCB object%s" % (" and another learner (has_score=%s)" % L["has_score"] if case["then"][k - 1].get("learner") else ""))
                        if case.get("reuse_evaluator") else
                        ("with the same learner object (%s)" % ("a SafeLearner handed to evaluate" if L.get("prewrap") else "the plain learner")),
                        "; ".join("#%d batch=%s learn=%s eval=%s" % (q + 1, e_[1].get("batch"), e_[0]["learn"], e_[0]["eval"]) for q, e_ in enumerate(episodes(case)[:k])),
                        f["what"])
            fails += efails
            tags += etags
            models.append(model)
            smalls.append({"exc": impl["exc"], "msg": impl.get("msg"), "rows": impl["rows"], "calls": [strip_call(c) for c in impl["calls"]]})
            valid_all = valid_all and bool(env["inters"]) and not any(t.startswith("reject:") for t in etags)
            n_inters += len(env["inters"])
        L = case["learner"]
        if driver is not None and n_eps > 1 and not own_learners and all(m is not None for m in models) and L["fmt"] not in PMF_FMTS:
            # `runHistory` (theorem evaluations_independent): the k-th outcome of the whole history, evaluated by the model from the
            # initial learner state, must be the outcome replayed from the real learner's script position at the start of evaluation k
            # -- as long as the model's learner state after every earlier evaluation is the real one
            req = model_request(episode_case(case, 0), obs[0]["s0"])
            req["history"] = [{"cfg": model_request(episode_case(case, k))["cfg"], "batch": episodes(case)[k][1].get("batch"),
                               "env": model_request(episode_case(case, k))["env"]} for k in range(n_eps)]
            any_stop = False
            for k in range(n_eps):
                stp_k = episodes(case)[k][1].get("stopped")
                if stp_k:
                    any_stop = True
                    ec = episode_case(case, k)
                    req["history"][k]["stop"] = stp_k["passes"]
                    req["history"][k]["full"] = model_request(dict(ec, env=dict(ec["env"], inters=stp_k["full"])))["env"]
            hans = driver.ask(req)
            hist = hans["history"]
            if any_stop:
                # theorem abandoned_then_continued: the history with abandoned evaluations (runHistoryS on the whole environments) is
                # the history of the evaluations of what they got through
                tags.append("history-with-abandoned-evaluation")
                if hans["historyS"] != hist:
                    fails.append(F("C", "runHistoryS %s differs from runHistory on the prefixes %s" % (json.dumps(hans["historyS"])[:200], json.dumps(hist)[:200]),
                                   "C:history-abandoned"))
            for k in range(n_eps):
                if hist[k] != models[k]:
                    fails.append(F("C", "runHistory: outcome #%d %s differs from the evaluation replayed from its start state %s"
                                   % (k + 1, json.dumps(hist[k])[:200], json.dumps(models[k])[:200]), "C:history"))
                    break
                if k + 1 < n_eps and (models[k].get("kind") == "error" and models[k].get("err") != "missing"
                                      or (models[k].get("kind") == "ok" and models[k].get("state") != obs[k + 1]["s0"])
                                      or (models[k].get("kind") == "error" and obs[k + 1]["s0"] != obs[k]["s0"])):
                    break          # the real learner went on from a state the model does not reproduce (crash, probe, finding)
            tags.append("history-checked")
        return {"fails": fails, "nontrivial": valid_all and n_inters >= 2, "tags": tags,
                "impl": smalls[0] if n_eps == 1 else smalls, "model": models[0] if n_eps == 1 else models}

    def shrink(self, case):
        then = case.get("then", [])
        if then:
            rest = {k: v for k, v in case.items() if k != "then"}
            yield dict(rest, learner={k: v for k, v in case["learner"].items() if k != "prewrap"})      # first evaluation only
            for k in range(len(then)):
                kept = then[:k] + then[k + 1:]
                yield dict(case, then=kept) if kept else dict(rest, learner={kk: v for kk, v in case["learner"].items() if kk != "prewrap"})
            l0 = then[0].get("learner") or case["learner"]
            yield dict(case, cfg=then[0]["cfg"], env=then[0]["env"], learner=l0, then=then[1:]) if len(then) > 1 else \
                dict(rest, cfg=then[0]["cfg"], env=then[0]["env"], learner={kk: v for kk, v in l0.items() if kk != "prewrap"})
            if case.get("reuse_evaluator"):
                yield {kk: v for kk, v in case.items() if kk != "reuse_evaluator"}
            if case["learner"].get("prewrap"):
                yield dict(case, learner=dict(case["learner"], prewrap=False))
            for k, t in enumerate(then):              # shrink the later environments
                ti = t["env"]["inters"]
                for q in range(len(ti)):
                    if len(ti) > 1:
                        yield dict(case, then=then[:k] + [dict(t, env=dict(t["env"], inters=ti[:q] + ti[q + 1:]))] + then[k + 1:])
                for r in t["cfg"]["record"]:
                    yield dict(case, then=then[:k] + [dict(t, cfg=dict(t["cfg"], record=[x for x in t["cfg"]["record"] if x != r]))] + then[k + 1:])
        if "stop" in case["env"]:
            yield dict(case, env={k_: v for k_, v in case["env"].items() if k_ != "stop"})
        if case.get("pre") and len(case["pre"]) > 1:
            for q in range(len(case["pre"])):
                yield dict(case, pre=case["pre"][:q] + case["pre"][q + 1:])
        env, cfg, L = case["env"], case["cfg"], case["learner"]
        inters = env["inters"]
        for k in range(len(inters)):
            if len(inters) > 1:
                yield dict(case, env=dict(env, inters=inters[:k] + inters[k + 1:]))
        if env.get("batch"):
            yield dict(case, env=dict(env, batch=None))
            if env["batch"] > 1:
                yield dict(case, env=dict(env, batch=env["batch"] - 1))
        if env.get("gen"):
            yield dict(case, env=dict(env, gen=False))
        for r in cfg["record"]:
            yield dict(case, cfg=dict(cfg, record=[x for x in cfg["record"] if x != r]))
        if inters:
            keys = [k for k, _ in inters[0]]
            for k in keys:
                if k not in RESERVED or k == "context":
                    yield dict(case, env=dict(env, inters=[[kv for kv in p if kv[0] != k] for p in inters]))
            for k in keys:
                if k in ("context",) or k not in RESERVED:
                    yield dict(case, env=dict(env, inters=[[[kk, (1 if kk == k else vv)] for kk, vv in p] for p in inters]))
        if len(L["script"]) > 1:
            yield dict(case, learner=dict(L, script=L["script"][:1]))
        if L["fmt"] != "dAP":
            yield dict(case, learner=dict(L, fmt="dAP", kw_keys=[]))
        if L.get("batch_mode") == "unaware":
            yield dict(case, learner=dict(L, batch_mode="aware"))
        if L["has_score"]:
            yield dict(case, learner=dict(L, has_score=False))

    def snippet(self, case):
        return ("import sys, json; sys.path[:0] = ['/repo', '/verif/harness']\n"
                "from props.c06 import run_history, episode_case, monitor, monitor_foreign\n"
                "case = json.loads(%r)\n"
                "# builds the environment(s) + ONE recording learner (wrapped in SafeLearner when learner['prewrap']) and calls\n"
                "# SafeEvaluator(SequentialCB(**cfg)).evaluate(env, learner) once per episode (case, then case['then'][...]); case['pre'] lists earlier\n"
                "# operations run in the same process first (an aborted evaluation whose learner wrote learning_info / a RejectionCB evaluation)\n"
                "for k, impl in enumerate(run_history(case)):\n"
                "    print('--- evaluation', k + 1, 'exception:', impl['exc'], impl.get('msg'))\n    print('learner saw:')\n"
                "    for c in impl['calls']: print('  ', {k_: v for k_, v in c.items() if k_ in ('m','ctx','acts','a','r','p','kw')})\n"
                "    print('rows:', impl['rows'])\n    print('property monitor:', [f['what'] for f in monitor(episode_case(case, k), impl)[0] + monitor_foreign(dict(episode_case(case, k), pre=case.get('pre')), impl)])\n" % json.dumps(case))


PROPERTY = C06()
