"""C06 Sequential evaluation feeds and records exactly what the environment provides.

Case format (JSON):
  cfg     {"learn": "on"|"off"|"ips"|null, "eval": "on"|"ips"|null, "record": [names]}
  env     {"batch": null|n, "gen": bool (read() returns a generator), "inters": [[ [key, valspec], … ], …]}
          valspec: null | int | str | {"f":[n,d]} float | {"l":[…]} list | {"t":[…]} tuple | {"d":[[k,v],…]} dict
          key 'rewards' holds either {"l":[numbers]} (sequence rewards) or {"rfn":{kind,…}} (functional rewards)
  learner {"fmt","has_score","batch_mode","kw_keys","script":[{"idx","free","p","kw","s"}]}
"""
import json
import os
import sys
from fractions import Fraction

from core.engine import Property, F

RESERVED = ("context", "actions", "rewards", "action", "reward", "probability")
RECORD_ALL = ["reward", "time", "probability", "action", "context", "actions", "rewards"]
TIMING = ("predict_time", "learn_time")


# ------------------------------------------------------------------ values
def mk(v):
    """valspec -> python value"""
    if v is None or isinstance(v, (int, str)):
        return v
    if "f" in v:
        return v["f"][0] / v["f"][1]
    if "l" in v:
        return [mk(x) for x in v["l"]]
    if "t" in v:
        return tuple(mk(x) for x in v["t"])
    if "d" in v:
        return {k: mk(x) for k, x in v["d"]}
    raise ValueError(v)


def fr(x):
    """python number -> Fraction (exact)"""
    if isinstance(x, bool):
        return Fraction(int(x))
    return Fraction(x)


def cn(x):
    from props.c06_learners import canon
    return canon(x)


def cnum(q):
    q = Fraction(q)
    return ["q", q.numerator, q.denominator]


def isnum(c):
    return isinstance(c, list) and len(c) == 3 and c[0] == "q"


def close(a, b):
    """canonical numbers equal up to float noise of one division/multiplication"""
    if a == b:
        return True
    if isnum(a) and isnum(b):
        x, y = Fraction(a[1], a[2]), Fraction(b[1], b[2])
        return abs(x - y) <= Fraction(1, 10 ** 12) * max(1, abs(y))
    return False


def ceq(a, b):
    """structural equality of canonical values with numeric tolerance"""
    if isnum(a) or isnum(b):
        return close(a, b)
    if isinstance(a, list) and isinstance(b, list):
        return len(a) == len(b) and all(ceq(x, y) for x, y in zip(a, b))
    return a == b


# ------------------------------------------------------------------ reward functions
def rfn_py(spec):
    """build the real coba reward object"""
    from coba.primitives import L1Reward, BinaryReward, DiscreteReward, HammingReward
    k = spec["kind"]
    if k == "L1":
        return L1Reward(mk(spec["argmax"]))
    if k == "binary":
        return BinaryReward(mk(spec["argmax"]), mk(spec["value"]))
    if k == "discrete2":
        return DiscreteReward([mk(a) for a in spec["actions"]], [mk(r) for r in spec["rewards"]], default=mk(spec.get("default", 0)))
    if k == "discreteM":
        return DiscreteReward({mk(a): mk(r) for a, r in zip(spec["actions"], spec["rewards"])}, default=mk(spec.get("default", 0)))
    if k == "hamming":
        return HammingReward([mk(a) for a in spec["argmax"]])
    if k == "lambda":
        tbl = [(mk(a), mk(r)) for a, r in zip(spec["actions"], spec["rewards"])]
        dflt = mk(spec.get("default", 0))

        def f(a, tbl=tbl, dflt=dflt):
            for x, r in tbl:
                if x == a:
                    return r
            return dflt
        return f
    raise ValueError(k)


def rfn_value(spec, a):
    """the harness's own evaluation of a functional reward at python action `a` (not coba's code)"""
    k = spec["kind"]
    if k == "L1":
        return -abs(a - mk(spec["argmax"]))
    if k == "binary":
        return mk(spec["value"]) if cn(a) == cn(mk(spec["argmax"])) else 0
    if k in ("discrete2", "discreteM", "lambda"):
        for x, r in zip(spec["actions"], spec["rewards"]):
            if cn(mk(x)) == cn(a):
                return mk(r)
        return mk(spec.get("default", 0))
    if k == "hamming":
        am = [cn(mk(x)) for x in spec["argmax"]]
        n_int = sum(1 for x in a if cn(x) in am)
        return n_int / (len(am) + len(a) - n_int)
    raise ValueError(k)


# ------------------------------------------------------------------ building the real objects
def build_inter(pairs):
    from coba.primitives import Interaction
    d = Interaction()
    for k, v in pairs:
        if k == "rewards" and isinstance(v, dict) and "rfn" in v:
            d[k] = rfn_py(v["rfn"])
        else:
            d[k] = mk(v)
    return d


class CaseEnv:
    """an Environment-like (only `read` and `params` are needed by SequentialCB / Experiment)"""

    def __init__(self, inters, batch, as_gen):
        self.inters, self.batch, self.as_gen = inters, batch, as_gen

    @property
    def params(self):
        return {"env_type": "c06case"}

    def read(self):
        from coba.environments import Batch
        it = [build_inter(p) for p in self.inters]
        src = iter(it) if self.as_gen else it
        if self.batch:
            return Batch(self.batch).filter(src)
        return src


def canon_row(row):
    return sorted([[str(k), cn(v)] for k, v in row.items() if k not in TIMING], key=lambda kv: kv[0])


def run_impl(case):
    """run the real SequentialCB exactly as Experiment's ProcessTasks does: list(SafeEvaluator(val).evaluate(env, lrn))"""
    from coba.context import CobaContext, NullLogger
    from coba.evaluators.sequential import SequentialCB
    from coba.safety import SafeEvaluator
    from props.c06_learners import RecLearner
    cfg, L = case["cfg"], case["learner"]
    old_logger = CobaContext.logger
    CobaContext.logger = NullLogger()
    CobaContext.learning_info.clear()
    script = [dict(e, free=mk(e.get("free")), kw={k: mk(v) for k, v in e.get("kw", {}).items()}) for e in L["script"]]
    lrn = RecLearner(script, L["fmt"], L["has_score"], L.get("batch_mode", "aware"), L.get("kw_keys", ()))
    out = {"exc": None, "rows": None, "raw_rows": 0}
    try:
        ev = SequentialCB(record=list(cfg["record"]), learn=cfg["learn"], eval=cfg["eval"])
        env = CaseEnv(case["env"]["inters"], case["env"].get("batch"), case["env"].get("gen", False))
        rows = list(SafeEvaluator(ev).evaluate(env, lrn))
        out["rows"] = [canon_row(r) for r in rows]
        out["timing"] = [sorted(k for k in r if k in TIMING) for r in rows]
    except Exception as e:       # noqa: any exception is an observable here
        out["exc"] = type(e).__name__
        out["msg"] = str(e)[:300]
    finally:
        CobaContext.logger = old_logger
        CobaContext.learning_info.clear()
    out["calls"] = [{k: v for k, v in c.items()} for c in lrn.calls]
    out["probes"] = lrn.probes
    return out


# ------------------------------------------------------------------ the property, read directly (B)
def idict(pairs):
    return {k: v for k, v in pairs}


def need_pred_mode(learn, ev, has_score):
    """a prediction is part of the mode's documented meaning"""
    return learn in ("on", "ips") or ev == "on" or (ev == "ips" and not has_score)


def need_pred(cfg, has_score):
    rec = cfg["record"]
    return need_pred_mode(cfg["learn"], cfg["eval"], has_score) or (bool(cfg["eval"]) and ("action" in rec or "probability" in rec))


def documented_required(cfg, has_score):
    """SequentialCB docstring: on needs actions+rewards; off needs action+reward; ips needs actions, action, reward
    and probability.  'actions' is only demanded where the mode's meaning involves a prediction (score-based IPS
    evaluation is well defined without an action set)."""
    learn, ev = cfg["learn"], cfg["eval"]
    req = []
    if need_pred_mode(learn, ev, has_score):
        req.append("actions")
    if learn == "on" or ev == "on":
        req.append("rewards")
    if learn in ("off", "ips") or ev == "ips":
        req += ["action", "reward"]
    if learn == "ips" or ev == "ips":
        req.append("probability")
    return req


def env_reward(first_pairs, pairs, a):
    """the environment's reward for python action `a` in this interaction"""
    d = idict(pairs)
    rw = d["rewards"]
    if isinstance(rw, dict) and "rfn" in rw:
        return rfn_value(rw["rfn"], a)
    acts = [cn(mk(x)) for x in d["actions"]["l"]]
    rs = [mk(x) for x in rw["l"]]
    ca = cn(a)
    return rs[acts.index(ca)] if ca in acts else 0


def ips_reward(d, a):
    r, p = mk(d["reward"]), mk(d.get("probability"))
    v = r / (p or 1)
    return v if cn(a) == cn(mk(d["action"])) else 0


def script_entry(L, k):
    return L["script"][k % len(L["script"])]


def spec_py(case):
    """documented behaviour: ('error', missing) or ('ok', calls, rows) with rows as dicts of demanded cells"""
    cfg, L = case["cfg"], case["learner"]
    inters = case["env"]["inters"]
    if not inters:
        return {"kind": "ok", "calls": [], "rows": []}
    has_score = L["has_score"]
    first = idict(inters[0])
    missing = [k for k in documented_required(cfg, has_score) if k not in first]
    if missing:
        return {"kind": "error", "missing": missing}
    learn, ev, rec = cfg["learn"], cfg["eval"], cfg["record"]
    np_ = need_pred(cfg, has_score)
    bs = case["env"].get("batch") or 1
    calls, rows = [], []
    kpred = kscore = 0
    for lo in range(0, len(inters), bs):
        chunk = inters[lo:lo + bs]
        preds, learns = [], []
        info = []
        for pairs in chunk:
            d = idict(pairs)
            ctx = mk(d.get("context"))
            acts = mk(d["actions"]) if "actions" in d else None
            row = {}
            a = p = kw = None
            if np_:
                e = script_entry(L, kpred)
                kpred += 1
                a = acts[e["idx"] % len(acts)] if acts else mk(e["free"])
                p = None if (e.get("p") is None or L["fmt"] in ("A", "AK", "dA", "dAK")) else e["p"][0] / e["p"][1]
                kw = {k: mk(e["kw"][k]) for k in L.get("kw_keys", ())} if L["fmt"].endswith("K") else {}
                preds.append({"m": "predict", "ctx": cn(ctx), "acts": cn(acts)})
            if ev:
                if ev == "on":
                    er = env_reward(inters[0], pairs, a)
                elif np_:
                    er = ips_reward(d, a)
                else:
                    e = script_entry(L, kscore)
                    kscore += 1
                    s = e.get("s", [1, 2])
                    preds.append({"m": "score", "ctx": cn(ctx), "acts": cn(acts), "a": cn(mk(d["action"]))})
                    er = (s[0] / s[1]) * ips_reward(d, mk(d["action"]))
                if "reward" in rec:
                    row["reward"] = cn(er)
                if "action" in rec:
                    row["action"] = cn(a)
                if "probability" in rec and p is not None:
                    row["probability"] = cn(p)
            if learn == "off":
                learns.append({"m": "learn", "ctx": cn(ctx), "a": cn(mk(d["action"])), "r": cn(mk(d["reward"])),
                               "p": cn(mk(d.get("probability"))), "kw": cn({})})
            elif learn:
                lr = env_reward(inters[0], pairs, a) if learn == "on" else ips_reward(d, a)
                learns.append({"m": "learn", "ctx": cn(ctx), "a": cn(a), "r": cn(lr), "p": cn(p), "kw": cn(kw)})
            if "context" in rec:
                row["context"] = cn(ctx)
            if "actions" in rec and "actions" in d:
                row["actions"] = cn(acts)
            if "rewards" in rec and "rewards" in d and acts:
                row["rewards"] = cn([env_reward(inters[0], pairs, x) for x in acts])
            for k, v in pairs:
                if k not in RESERVED:
                    row[k] = cn(mk(v))
            rows.append(row)
        calls += preds + learns
    # unbatched order is predict_i, learn_i; with chunks of one the two coincide
    return {"kind": "ok", "calls": calls, "rows": rows}


def strip_call(c):
    return {k: v for k, v in c.items() if k in ("m", "ctx", "acts", "a", "r", "p", "kw")}


# ------------------------------------------------------------------ generators
def fq(n, d=1):
    """valspec of a number: ints stay ints, everything else a float given exactly"""
    q = Fraction(n, d)
    if q.denominator == 1:
        return int(q)
    return {"f": [q.numerator, q.denominator]}


def gen_num(rng, floaty=None):
    """small dyadic number (every float operation of the evaluated paths stays exact on these)"""
    r = rng.below(10)
    if r < 4:
        v = fq(rng.randint(-4, 9))
    elif r < 8:
        v = fq(rng.randint(-16, 32), rng.choice([2, 4, 8]))
    else:
        v = fq(rng.choice([0, 1, 1, 0, 2]))
    if floaty or (floaty is None and rng.chance(0.3)):
        if isinstance(v, int):
            v = {"f": [v, 1]}
    return v


def gen_any(rng, depth=0):
    r = rng.below(10)
    if r < 2:
        return gen_num(rng)
    if r < 4:
        return rng.choice(["a", "b", "xy", "", "L1", "0"])
    if r < 5:
        return None
    if depth < 2 and r < 7:
        return {"l": [gen_any(rng, depth + 1) for _ in range(rng.randint(0, 3))]}
    if depth < 2 and r < 8:
        return {"t": [gen_any(rng, depth + 1) for _ in range(rng.randint(0, 3))]}
    if depth < 2 and r < 9:
        return {"d": [[k, gen_any(rng, depth + 1)] for k in rng.sample(["k1", "k2", "z"], rng.randint(0, 2))]}
    return gen_num(rng)


def gen_context(rng, style):
    if style == "none":
        return None
    if style == "scalar":
        return gen_num(rng)
    if style == "str":
        return rng.choice(["c1", "c2", "ctx"])
    if style == "dense":
        items = [gen_num(rng) if rng.chance(0.85) else rng.choice(["u", "v"]) for _ in range(rng.randint(1, 4))]
        return {"t": items} if rng.chance(0.5) else {"l": items}
    if style == "sparse":
        return {"d": [[k, gen_num(rng)] for k in rng.sample(["a", "b", "c", "d"], rng.randint(0, 3))]}
    raise ValueError(style)


def gen_actions(rng, style, n):
    """n distinct actions (distinct under Python ==)"""
    from props.c06_learners import canon
    out, seen = [], set()
    tries = 0
    while len(out) < n and tries < 50:
        tries += 1
        if style == "int":
            v = rng.choice([0, 1, 2, 3, 4, 5, 7, -1, 10])
        elif style == "float":
            v = {"f": [rng.randint(-8, 24), rng.choice([1, 2, 4])]}
        elif style == "str":
            v = rng.choice(["a", "b", "c", "ab", "abc", "action_1", "xy", "q"])
        elif style == "dense":
            v = {"t": [fq(rng.randint(0, 3)) for _ in range(2 + (tries % 2))]}
        elif style == "denselist":
            v = {"l": [fq(rng.randint(0, 3)) for _ in range(3)]}
        elif style == "sparse":
            v = {"d": [[k, fq(rng.randint(1, 3))] for k in rng.sample(["a", "b", "c"], rng.randint(1, 3))]}
        else:
            raise ValueError(style)
        key = json.dumps(canon(mk(v)))
        if key not in seen:
            seen.add(key)
            out.append(v)
    return out


HASHABLE = ("int", "float", "str", "dense")
NUMERIC = ("int", "float")


def gen_rewards(rng, style, acts, kind):
    if kind == "list":
        return {"l": [gen_num(rng) for _ in acts]}
    if kind == "L1":
        return {"rfn": {"kind": "L1", "argmax": gen_num(rng)}}
    if kind == "binary":
        am = rng.choice(acts) if acts and rng.chance(0.85) else (gen_num(rng) if style in NUMERIC + ("cont",) else "zz")
        return {"rfn": {"kind": "binary", "argmax": am, "value": gen_num(rng) if rng.chance(0.6) else 1}}
    if kind in ("discrete2", "discreteM", "lambda"):
        dom = list(acts)
        if dom and rng.chance(0.3):
            dom = dom[:-1]             # last action falls to the default
        if style == "cont":
            dom = [fq(rng.randint(0, 6)) for _ in range(2)]
            dom = dom[:1] if cn(mk(dom[0])) == cn(mk(dom[1])) else dom
        if not dom:
            dom = [acts[0]] if acts else [1]
        return {"rfn": {"kind": kind, "actions": dom, "rewards": [gen_num(rng) for _ in dom], "default": gen_num(rng) if rng.chance(0.5) else 0}}
    if kind == "hamming":
        labels = [fq(x) for x in rng.sample([0, 1, 2, 3], rng.randint(1, 3))]
        return {"rfn": {"kind": "hamming", "argmax": labels}}
    raise ValueError(kind)


def reward_kinds(style):
    ks = ["binary", "discrete2", "lambda"]
    if style in HASHABLE:
        ks.append("discreteM")
    if style in NUMERIC or style == "cont":
        ks += ["L1", "L1"]
    if style in ("dense", "denselist"):
        ks.append("hamming")
    return ks


FMTS_ALL = ["A", "AP", "AK", "APK", "dA", "dAP", "dAK", "dAPK"]


def fmts_for(style):
    if style == "cont":
        return ["A", "AK", "dA", "dAP", "dAK", "dAPK"]
    if style == "sparse":
        return ["AP", "APK", "dA", "dAP", "dAK", "dAPK"]
    return FMTS_ALL


PROBS = [[1, 1], [1, 2], [1, 4], [1, 8], [1, 2], [1, 4], [3, 4], [3, 10], [1, 10], [1, 3]]


def gen_case(rng, tier="quick", boundary=False):
    learn = rng.choice(["on", "on", "off", "ips", None])
    ev = rng.choice(["on", "on", "ips", "ips", None])
    r = rng.below(10)
    if r < 3:
        record = ["reward", "action", "probability"]
    elif r < 4:
        record = list(RECORD_ALL)
    elif r < 5:
        record = [rng.choice(RECORD_ALL)]
    else:
        record = rng.shuffle(rng.subset(RECORD_ALL, 0.45))
    cfg = {"learn": learn, "eval": ev, "record": record}

    astyle = rng.choice(["int", "int", "float", "str", "dense", "denselist", "sparse", "cont"])
    cstyle = rng.choice(["none", "scalar", "str", "dense", "dense", "sparse", "sparse"])
    n = rng.choice([0, 1, 1, 2, 3, 3, 4, 5, 6, 7]) if not boundary else rng.choice([1, 2, 3, 4])
    has_ctx_key = not (cstyle == "none" and rng.chance(0.5))
    # which fields the environment carries
    wants_sim = learn == "on" or ev == "on"
    wants_log = learn in ("off", "ips") or ev == "ips"
    r = rng.below(10)
    if r < 5:
        has_actions, has_rewards, has_logged = True, wants_sim or rng.chance(0.3), wants_log or rng.chance(0.3)
    elif r < 7:
        has_actions, has_rewards, has_logged = True, True, True
    elif r < 8:
        has_actions, has_rewards, has_logged = rng.chance(0.5), rng.chance(0.6), True
    else:
        has_actions, has_rewards, has_logged = rng.chance(0.8), rng.chance(0.7), rng.chance(0.7)
    has_prob = has_logged and rng.chance(0.75)
    has_action, has_reward = has_logged, has_logged
    if rng.chance(0.08):                     # knock one key out: validation must notice
        k = rng.choice(["actions", "rewards", "action", "reward", "probability"])
        if k == "actions":
            has_actions = False
        elif k == "rewards":
            has_rewards = False
        elif k == "action":
            has_action = False
        elif k == "reward":
            has_reward = False
        else:
            has_prob = False
    if astyle == "cont" and not has_actions:
        astyle = "int"
    same_actions = rng.chance(0.3)
    rkind = "list" if (astyle != "cont" and has_actions and rng.chance(0.5)) else rng.choice(reward_kinds(astyle))
    extras = rng.sample(["L", "userid", "tag", "meta", "id", "note"], rng.choice([0, 0, 1, 1, 2, 3]))
    order_shuffle = rng.chance(0.3)
    fixed_acts = gen_actions(rng, astyle, rng.randint(1, 5)) if astyle != "cont" else []
    inters = []
    for i in range(n):
        acts = [] if astyle == "cont" else (fixed_acts if same_actions else gen_actions(rng, astyle, rng.randint(1, 5)))
        pairs = []
        if has_ctx_key:
            pairs.append(["context", gen_context(rng, cstyle)])
        if has_actions:
            pairs.append(["actions", {"l": acts}])
        if has_rewards:
            pairs.append(["rewards", gen_rewards(rng, astyle, acts, rkind)])
        if has_action:
            if acts and rng.chance(0.9):
                la = rng.choice(acts)
            elif astyle in ("cont",) + NUMERIC:
                la = gen_num(rng)
            else:
                la = (gen_actions(rng, astyle, 1) or ["zz"])[0]
            pairs.append(["action", la])
        if has_reward:
            pairs.append(["reward", gen_num(rng)])
        if has_prob:
            p = rng.choice(PROBS)
            pairs.append(["probability", {"f": p} if p != [1, 1] or rng.chance(0.5) else 1])
        for k in extras:
            pairs.append([k, gen_any(rng)])
        if order_shuffle:
            pairs = rng.shuffle(pairs) if i == 0 else [[k, idict(pairs)[k]] for k, _ in inters[0]]
        inters.append(pairs)
    batch = None if rng.chance(0.6) else rng.choice([1, 2, 2, 3, 4])
    env = {"batch": batch, "gen": rng.chance(0.5), "inters": inters}

    has_score = rng.chance(0.6 if ev == "ips" else 0.2)
    fmt = rng.choice(fmts_for(astyle if has_actions else "int"))
    kw_keys = rng.sample(["i", "tag", "z"], rng.randint(1, 2)) if fmt.endswith("K") else []
    script = []
    for _ in range(rng.randint(1, 4)):
        script.append({"idx": rng.randint(0, 5), "free": gen_num(rng), "p": None if rng.chance(0.08) else rng.choice(PROBS[:7]),
                       "kw": {k: gen_any(rng, 1) for k in kw_keys}, "s": rng.choice([[1, 2], [1, 4], [1, 1], [0, 1], [3, 4]])})
    L = {"fmt": fmt, "has_score": has_score, "batch_mode": rng.choice(["aware", "unaware"]), "kw_keys": kw_keys, "script": script}
    return {"cfg": cfg, "env": env, "learner": L}
