"""Recording learners for the C06 check (importable: they may be deep-copied / pickled by coba).

A `RecLearner` is a scripted Mealy machine: the k-th row-level predict answers with
`script[k % len(script)]` (an index into the action list it was handed, or a free value when
the action list is empty, a probability, extra outputs).  Every argument of every
predict/learn/score is logged *by value* (canonical form, see `canon`) and *by identity*
(`id()` of the context object) in `self.calls`, one entry per row-level call.

Batch handling (`batch_mode`):
  'aware'    predict/learn/score accept Batch.List arguments and answer row-major; the log
             still holds one entry per row (flag `b` = index of the batch-level call)
  'unaware'  a batched argument raises (before anything is logged) so that coba's SafeLearner
             falls back to calling the learner once per row
"""
from fractions import Fraction


def is_batch(x):
    return hasattr(x, "is_batch")


def num(x):
    """canonical number: ["q", num, den]; 0 == 0.0 == False compare equal in Python, so they get one form"""
    if isinstance(x, bool):
        x = int(x)
    if isinstance(x, int):
        return ["q", x, 1]
    if isinstance(x, float):
        if x != x:
            return ["nan"]
        if x in (float("inf"), float("-inf")):
            return ["inf", 1 if x > 0 else -1]
        f = Fraction(x)
        return ["q", f.numerator, f.denominator]
    if isinstance(x, Fraction):
        return ["q", x.numerator, x.denominator]
    raise TypeError(x)


def canon(x):
    """canonical JSON-able form of a coba value, equal for values that are == in Python"""
    if x is None:
        return None
    if isinstance(x, (bool, int, float, Fraction)):
        return num(x)
    if isinstance(x, str):
        return ["s", str(x)]
    if isinstance(x, dict):
        return ["d", sorted(([str(k), canon(v)] for k, v in x.items()), key=lambda kv: kv[0])]
    if isinstance(x, (list, tuple)):
        return ["l", [canon(v) for v in x]]
    if hasattr(x, "keys") and hasattr(x, "__getitem__"):
        return ["d", sorted(([str(k), canon(x[k])] for k in x.keys()), key=lambda kv: kv[0])]
    if hasattr(x, "__iter__"):
        return ["l", [canon(v) for v in x]]
    if callable(x):
        return ["fn", type(x).__name__]
    return ["o", repr(x)]


def _rows(x, n):
    """a batch-aware learner reads a non-batched argument (coba passes a bare None for an absent
    context / probability / action set even when everything else is batched) as one value per row"""
    return x if is_batch(x) else [x] * n


class BatchUnaware(Exception):
    pass


class RecLearner:
    def __init__(self, script, fmt="AP", has_score=False, batch_mode="aware", kw_keys=(), info=False):
        self.write_info = info
        self.script = script
        self.fmt = fmt
        self.batch_mode = batch_mode
        self.kw_keys = tuple(kw_keys)
        self.calls = []
        self.raw = []             # one entry per invocation of a method of this object (phase 5): what SafeLearner really calls
        self.probes = 0
        self.n_pred = 0
        self.n_score = 0
        self.n_bcall = 0
        if has_score:
            self.score = self._score

    @property
    def params(self):
        return {"family": "c06rec", "fmt": self.fmt}

    # ---- row-level behaviour
    def _entry(self, k):
        return self.script[k % len(self.script)]

    def _choose(self, e, actions):
        if actions:
            return actions[e["idx"] % len(actions)]
        return e["free"]

    def _prob(self, e):
        p = e.get("p")
        if p is None:
            return None
        if e.get("pint") and p[0] % p[1] == 0:
            return p[0] // p[1]          # an int probability (0 or 1), as a deterministic policy would report it
        return p[0] / p[1]

    def _kw(self, e):
        return {k: e["kw"][k] for k in self.kw_keys}

    def _fmt(self, a, p, kw):
        f = self.fmt
        if f == "A":
            return a
        if f == "AP":
            return (a, p)
        if f == "AK":
            return (a, kw)
        if f == "APK":
            return (a, p, kw)
        if f == "dA":
            return {"action": a}
        if f == "dAP":
            return {"action_prob": (a, p)}
        if f == "dAK":
            return ({"action": a}, kw)
        if f == "dAPK":
            return ({"action_prob": (a, p)}, kw)
        raise ValueError(f)

    def _info(self, d):
        """write to coba's global learning_info, as learners do to report per-interaction diagnostics; returns what was written"""
        if self.write_info and d:
            from coba.context import CobaContext
            CobaContext.learning_info.update(d)
            return canon(d)
        return None

    def _predict_row(self, context, actions, b):
        e = self._entry(self.n_pred)
        self._last_info = self._info(e.get("ip"))
        self.n_pred += 1
        if self.fmt in ("pmf", "pmfK", "pmfB"):
            # answer with a PMF over the action list; SafeLearner draws the action (the learner does not know which)
            ws = [w[0] / w[1] for w in dict((n, w) for n, w in e["pm"])[len(actions)]]
            kw = self._kw(e) if self.fmt == "pmfK" else {}
            self.calls.append({"m": "predict", "ctx": canon(context), "acts": canon(actions), "ctx_id": id(context), "b": b,
                               "ret": {"a": None, "p": None, "kw": canon(kw), "pmf": canon(ws)}, "info": self._last_info})
            if self.fmt == "pmfB":
                return list(ws)           # a bare list: SafeLearner reads it as a PMF when its sum is within 0.001 of 1
            return ({"pmf": ws}, kw) if self.fmt == "pmfK" else {"pmf": ws}
        a = self._choose(e, actions)
        has_p = self.fmt in ("AP", "APK", "dAP", "dAPK")
        has_k = self.fmt.endswith("K")
        p, kw = (self._prob(e) if has_p else None), (self._kw(e) if has_k else {})
        self.calls.append({"m": "predict", "ctx": canon(context), "acts": canon(actions), "ctx_id": id(context), "b": b,
                           "ret": {"a": canon(a), "p": canon(p), "kw": canon(kw)}, "info": self._last_info})
        return self._fmt(a, p, kw)

    # ---- Learner interface
    def predict(self, context, actions):
        if is_batch(context) or is_batch(actions):
            n = len(actions) if is_batch(actions) else len(context)
            if self.batch_mode == "unaware":
                self.raw.append({"k": "batch", "m": "predict", "ctx": [canon(c) for c in _rows(context, n)], "ok": False})
                raise BatchUnaware("batched predict")
            self.n_bcall += 1
            out = [self._predict_row(c, A, self.n_bcall) for c, A in zip(_rows(context, n), _rows(actions, n))]
            a0 = out[0] if out else None
            self.raw.append({"k": "batch", "m": "predict", "ctx": [canon(c) for c in _rows(context, n)], "ok": True,
                             "w": len(a0) if hasattr(a0, "__len__") and not (hasattr(a0, "keys") and hasattr(a0, "__getitem__")) else None})
            return out
        self.raw.append({"k": "row", "m": "predict", "ctx": [canon(context)]})
        return self._predict_row(context, actions, None)

    def learn(self, context, action, reward, probability, **kwargs):
        if any(is_batch(x) for x in (context, action, reward, probability)):
            if self.batch_mode == "unaware":
                self.raw.append({"k": "batch", "m": "learn", "ctx": [canon(c) for c in _rows(context, len(action))], "ok": False})
                raise BatchUnaware("batched learn")
            self.n_bcall += 1
            n = len(action)
            C = _rows(context, n)
            self.raw.append({"k": "batch", "m": "learn", "ctx": [canon(c) for c in C], "ok": True})
            P = list(probability) if isinstance(probability, (list, tuple)) else [probability] * n
            for i in range(n):
                self._info(self._entry(self.n_pred).get("il"))
                self.calls.append({"m": "learn", "ctx": canon(C[i]), "a": canon(action[i]), "r": canon(reward[i]),
                                   "p": canon(P[i]), "kw": canon({k: v[i] for k, v in kwargs.items()}),
                                   "ctx_id": id(C[i]), "b": self.n_bcall})
            return
        self.raw.append({"k": "row", "m": "learn", "ctx": [canon(context)]})
        self.calls.append({"m": "learn", "ctx": canon(context), "a": canon(action), "r": canon(reward), "p": canon(probability),
                           "kw": canon(kwargs), "ctx_id": id(context), "b": None})
        self.calls[-1]["info"] = self._info(self._entry(self.n_pred).get("il"))

    def _score_row(self, context, actions, action, b):
        e = self._entry(self.n_score)
        self.n_score += 1
        s = e.get("s", [1, 2])
        self.calls.append({"m": "score", "ctx": canon(context), "acts": canon(actions), "a": canon(action), "b": b,
                           "ret": canon(s[0] / s[1])})
        return s[0] / s[1]

    def _score(self, context, actions, action):
        if context is None and actions is None and action is None:
            self.probes += 1          # SafeLearner.has_score probes with (None,None,None)
            self.raw.append({"k": "probe"})
            return 0.5
        if any(is_batch(x) for x in (context, actions, action)):
            if self.batch_mode == "unaware":
                self.raw.append({"k": "batch", "m": "score", "ctx": [canon(c) for c in _rows(context, len(action))], "ok": False})
                raise BatchUnaware("batched call")
            self.n_bcall += 1
            n = len(action)
            C, acts = _rows(context, n), _rows(actions, n)
            self.raw.append({"k": "batch", "m": "score", "ctx": [canon(c) for c in C], "ok": True})
            return [self._score_row(C[i], acts[i], action[i], self.n_bcall) for i in range(n)]
        self.raw.append({"k": "row", "m": "score", "ctx": [canon(context)]})
        return self._score_row(context, actions, action, None)
