"""C08 Multi-process filtering delivers every output exactly once and never hangs."""
import collections
import json
import os
import shutil
import sys
import tempfile
import threading

from core.engine import Property, F
from core.prng import Rng

PERR_BASE = 500000           # model error id of "item i cannot be pickled" = PERR_BASE + id
NONE_CODE = 1000003          # how a `None` OUTPUT of the wrapped filter is written in the Lean model
SWALLOWED = ("AssertionError", "EOFError", "BrokenPipeError")
PLAIN_ERRS = ("ValueError", "TypeError", "KeyError", "RuntimeError", "C08Error", "ZeroDivisionError",
              "StopIteration", "StopIteration", "OSError", "FileNotFoundError", "LookupError", "C08SubError",
              "AttributeError", "AttributeError", "AttributeErrorFrom", "IndexError", "NotImplementedError", "UnicodeError",
              "AttributeErrorNatural", "AttributeErrorNatural")      # phase 5 (round g m2): an AttributeError with Python's own wording ("… has no attribute …")
# a StopIteration raised by the wrapped filter reaches the caller as RuntimeError('generator raised StopIteration')
# (PEP 479: Foreach.filter is a generator), in-process and multi-process; the message carries no item id


def stop_iteration_surfaced(oc):
    return oc.get("item") is None and oc.get("type") in ("RuntimeError", "StopIteration") and (
        "StopIteration" in (oc.get("msg") or "") or oc.get("type") == "StopIteration")


def err_matches(case, model_err, oc):
    """(A): the error the model says is raised (item id) against what the caller got"""
    if model_err >= PERR_BASE:
        return oc.get("type") == "CobaException" and "pickle" in (oc.get("msg") or "")
    it = case["items"][model_err - case.get("base", 0)]
    if it.get("err") == "StopIteration":
        return stop_iteration_surfaced(oc)
    return oc.get("item") == model_err


# ------------------------------------------------------------------ helpers on cases
def expected_outs(case):
    out = []
    for it in case["items"]:
        out += list(it["outs"])
    return out


def raising(case):
    return [i for i, it in enumerate(case["items"]) if it.get("err")]


HEADS = {"None": lambda: None, "''": lambda: "", "[]": lambda: [], "False": lambda: False, "0": lambda: 0}


def unpicklable(case):
    """items the loader cannot pickle (irrelevant on the in-process path, which does not pickle)"""
    if inprocess(case):
        return []
    return [i for i, it in enumerate(case["items"]) if it.get("unpick")]


def has_none(case):
    return any(o is None for it in case["items"] for o in it["outs"])


def inprocess(case):
    return case["n"] == 1 and case["m"] == 0


def model_cfg(case):
    b = case.get("base", 0)
    return {"n": case["n"], "m": case["m"],
            "items": [{"id": b + i, "outs": [NONE_CODE if o is None else o for o in it["outs"]],
                       "err": (b + i if it.get("err") else None),
                       "perr": (PERR_BASE + b + i if it.get("unpick") else None)} for i, it in enumerate(case["items"])]}


def calls_of(case):
    """the consecutive filter() calls of a case, each a case of its own (shared n, m, wrap; item ids are
    numbered through so that one filter object serves the whole history)"""
    hist = case.get("history")
    if not hist:
        return [case]
    out, base = [], 0
    for k, h in enumerate(hist):
        c = {"mode": case.get("mode", "sched"), "n": case["n"], "m": case["m"], "items": h["items"], "abandon": h.get("abandon"),
             "base": base, "call": k}
        if case.get("wrap"):
            c["wrap"] = True
        if h.get("iter"):
            c["iter"] = True
        sc = case.get("sched")
        if sc:
            c["sched"] = dict(sc, seed=sc.get("seed", 0) + 7919 * k)
        out.append(c)
        base += len(h["items"])
    return out


def full_table(case):
    from props import c08_filters as FL
    t = {}
    for c in calls_of(case):
        t.update(FL.table_of(c["items"], bool(case.get("wrap")), c.get("base", 0)))
    return t


def short(x, n=500):
    s_ = json.dumps(x)
    return s_ if len(s_) <= n else s_[:n] + "…(%d items)" % len(x)


def enc(o):
    return NONE_CODE if o is None else o


def err_id(exc):
    """item id carried by an exception raised by SpecFilter (None when it is not one of ours)"""
    from props import c08_filters as FL
    import re
    args = getattr(exc, "args", ())
    if len(args) == 1 and isinstance(args[0], str):
        m_ = re.search(r"c08-err-(\d+)'?( from c08)?$", args[0])
        if m_:
            return int(m_.group(1))
    return None


def err_type_name(err):
    return "AttributeError" if err in ("AttributeErrorFrom", "AttributeErrorNatural") else err


def err_text(item, err):
    from props import c08_filters as FL
    return FL.err_message(item, err)


def make_items(case):
    from props import c08_filters as FL
    b = case.get("base", 0)
    if case.get("buffer"):
        # a stream that re-uses ONE mutable object: it is filled with the next record and yielded again (readers of big
        # files, batch iterators); taken item by item the filter sees every record once
        def records(n=len(case["items"])):
            buf = [b]
            for i in range(n):
                buf[0] = b + i
                yield buf
        return records()
    xs = [(FL.BadInt(b + i) if it.get("unpick") else b + i) for i, it in enumerate(case["items"])]
    if case.get("head") and xs and b == 0 and not case["items"][0].get("unpick"):
        # the FIRST item of the stream is a falsy value (it stands for item 0): an empty-input shortcut must not mistake it for "no items"
        xs[0] = HEADS[case["head"]]()
    return iter(xs) if case.get("iter") else xs


# ------------------------------------------------------------------ running the real code
def consume(gen, case, on_abandon=None):
    """drive the generator the way a caller does; returns (outs, outcome dict)"""
    from coba.exceptions import CobaExit
    outs = []
    k = case.get("abandon")
    try:
        if k == 0:
            # abandoned before the first output was requested: nothing has run yet
            gen.close()
            return outs, {"kind": "closed"}
        for o in gen:
            outs.append(o)
            if k is not None and len(outs) >= k:
                if on_abandon:
                    on_abandon()
                try:
                    gen.close()
                except Exception as e:          # noqa
                    return outs, {"kind": "close-raised", "type": type(e).__name__, "msg": str(e)[:200]}
                return outs, {"kind": "closed"}
        return outs, {"kind": "ok"}
    except (Exception, CobaExit) as e:
        a0 = e.args[0] if len(getattr(e, "args", ())) == 1 and isinstance(e.args[0], str) else None
        return outs, {"kind": "raised", "type": type(e).__name__, "msg": str(e)[:200], "item": err_id(e), "arg": a0}


def killed(case):
    """does the case inject a process death (inside the filter: `kill`; before `run` is entered: `kill_spawn`)?"""
    return case.get("kill") is not None or case.get("kill_spawn") is not None or case.get("kill_wait") is not None


def build(case, flt):
    if case.get("kill") is not None and not inprocess(case):      # no worker process on the in-process path
        flt.kill_at = (case.get("base", 0) + case["kill"],)
    if case.get("wrap"):
        from coba.multiprocessing import CobaMultiprocessor
        return CobaMultiprocessor(flt, case["n"], case["m"])
    from coba.pipes.multiprocessing import Multiprocessor
    if case.get("read_wait"):
        return Multiprocessor(flt, case["n"], case["m"], read_wait=True)      # phase 4: processes wait until the caller has read their key
    return Multiprocessor(flt, case["n"], case["m"])


def run_scheduled(case, prefix=None, mp=None, chooser=None):
    """ONE call of the real Multiprocessor.filter under the controlled scheduler; -> dict(outs, outcome, trace, calls, …).
    `mp` = an already used Multiprocessor object (histories of calls on the same object)."""
    from props import c08_sched as S, c08_filters as FL
    import coba.pipes.multiprocessing as cpm
    import coba.pipes.lines as lines
    from coba.context import CobaContext, NullLogger, DiskCacher   # noqa
    sc = case.get("sched") or {}
    rng = Rng(sc.get("seed", 0), "c08-sched") if not sc.get("det") else None
    if chooser is None:
        chooser = S.PolicyChooser(rng, sc.get("policy"), prefix if prefix is not None else sc.get("prefix"))
    sched = S.Sched(chooser, step_limit=6000 + 400 * len(case["items"]), wall=25.0)
    sched.none_code = NONE_CODE if has_none(case) else None
    if case.get("kill_wait") is not None and not inprocess(case):
        sched.kill_wait = tuple(case["kill_wait"])
    if case.get("kill_spawn") is not None and not inprocess(case):
        sched.kill_spawn = tuple(case["kill_spawn"]) if isinstance(case["kill_spawn"], list) else (case["kill_spawn"],)
    sched.register_main()
    FP, FT = S.make_fakes(sched, lines.ProcessLine, lines.ThreadLine)
    saved = (cpm.spawn_context, cpm.MyProcessLine, cpm.ThreadLine)
    if isinstance(saved[1], type) and issubclass(saved[1], lines.ProcessLine):
        sched.real_my_process_line = saved[1]       # phase 6: the fake process executes the REAL MyProcessLine.start/run for read_wait
    saved_ctx = (CobaContext.logger, CobaContext.cacher, CobaContext.store)
    del FL.CALLS[:]
    try:
        cpm.spawn_context, cpm.MyProcessLine, cpm.ThreadLine = S.FakeContext(sched), FP, FT
        if mp is None:
            mp = build(case, FL.SpecFilter(full_table(case)))
        if not case.get("wrap"):
            sched.np_probe = lambda: getattr(mp, "_n_procs", None)
        import contextlib, io
        gen = mp.filter(make_items(case))
        if not case.get("wrap") and getattr(mp, "_n_procs", None) is None:
            # the per-call state lives on a `CallState` object local to the generator (fix C08-per-call-state): read `_n_procs` from there
            def _np(g=gen):
                fr = getattr(g, "gi_frame", None)
                return getattr(fr.f_locals.get("call"), "_n_procs", None) if fr is not None else None
            sched.np_probe = _np
        with (contextlib.redirect_stdout(io.StringIO()) if killed(case) else contextlib.nullcontext()):
            try:
                outs, outcome = consume(gen, case, on_abandon=lambda: sched.act("cAbandon"))
            except S.Hang as h:
                outs, outcome = None, {"kind": "hang", "reason": str(h.reason)}
        if outcome["kind"] != "hang":
            sched.act("mDone")
        if hasattr(chooser, "finish"):
            chooser.finish(sched)
    finally:
        cpm.spawn_context, cpm.MyProcessLine, cpm.ThreadLine = saved
        sched.shutdown()
        CobaContext.logger, CobaContext.cacher, CobaContext.store = saved_ctx
    if outs is None:
        # what the caller had received before the hang: the values of the logged cGet steps
        outs = [a["x"] for a in sched.log if a["a"] == "cGet" and a.get("x", -1) != -1]
        outs = [None if o == NONE_CODE else o for o in outs]
    calls = collections.Counter(k for k, _ in FL.CALLS)
    return {"outs": outs, "outcome": outcome, "trace": list(sched.log), "calls": dict(calls),
            "choices": list(sched.choices), "escaped": list(sched.escaped), "steps": sched.steps,
            "rw_programs": [dict(r, ops=list(r["ops"])) for r in sched.rw_programs], "rw_starts": list(sched.rw_starts)}


def run_history_scheduled(case):
    """2-3 consecutive filter() calls on the SAME Multiprocessor object under ONE scheduler: whatever an earlier call left
    running in the background (parked or still working workers, their callback threads) stays scheduled during the later
    calls, exactly like the daemon threads/processes of the real code.  Every logged action carries the index `c` of the
    call it belongs to.  -> list of runs, one per call (run["stale"] = callbacks of EARLIER calls that ran during this call)"""
    from props import c08_sched as S, c08_filters as FL
    import coba.pipes.multiprocessing as cpm
    import coba.pipes.lines as lines
    from coba.context import CobaContext
    cs = calls_of(case)
    sc = case.get("sched") or {}
    rng = Rng(sc.get("seed", 0), "c08-sched") if not sc.get("det") else None
    sched = S.Sched(S.PolicyChooser(rng, sc.get("policy"), sc.get("prefix")),
                    step_limit=6000 * len(cs) + 400 * sum(len(c["items"]) for c in cs), wall=40.0)
    sched.register_main()
    FP, FT = S.make_fakes(sched, lines.ProcessLine, lines.ThreadLine)
    saved = (cpm.spawn_context, cpm.MyProcessLine, cpm.ThreadLine)
    if isinstance(saved[1], type) and issubclass(saved[1], lines.ProcessLine):
        sched.real_my_process_line = saved[1]       # phase 6: the fake process executes the REAL MyProcessLine.start/run for read_wait
    saved_ctx = (CobaContext.logger, CobaContext.cacher, CobaContext.store)
    del FL.CALLS[:]
    runs = []
    try:
        cpm.spawn_context, cpm.MyProcessLine, cpm.ThreadLine = S.FakeContext(sched), FP, FT
        mp = build(case, FL.SpecFilter(full_table(case)))
        if not case.get("wrap"):
            sched.np_probe = lambda: getattr(mp, "_n_procs", None)
        for k, c in enumerate(cs):
            if k:
                sched.next_call()
            sched.none_code = NONE_CODE if has_none(c) else None
            obj = {"nprocs": max(0, int(getattr(mp, "_n_procs", 0) or 0)),
                   "excs": [(err_id(e) if err_id(e) is not None else 0) for e in (getattr(mp, "_exceptions", None) or [])]}
            gen = mp.filter(make_items(c))
            try:
                outs, outcome = consume(gen, c, on_abandon=lambda: sched.act("cAbandon"))
            except S.Hang as h:
                outs, outcome = None, {"kind": "hang", "reason": str(h.reason)}
            if outcome["kind"] != "hang":
                sched.act("mDone")
            runs.append({"outs": outs, "outcome": outcome, "obj": obj})
            if outcome["kind"] == "hang":
                break
    finally:
        cpm.spawn_context, cpm.MyProcessLine, cpm.ThreadLine = saved
        sched.shutdown()
        CobaContext.logger, CobaContext.cacher, CobaContext.store = saved_ctx
    marks = sched.call_marks + [len(sched.log)]
    percall = collections.defaultdict(collections.Counter)
    for key, _ in FL.CALLS:
        parts = key.split("/")
        percall[int(parts[1]) if len(parts) == 3 else -1][key] += 1
    for k, run in enumerate(runs):
        window = sched.log[marks[k]:marks[k + 1]] if k + 1 < len(marks) else []
        # (A) replays what belongs to this call up to its end; what its left-overs do later happens under the next call's
        # shared fields (self._load_stopper, self._n_procs) and is judged there
        run["trace"] = [a for a in window if a.get("c") == k]
        run["stale"] = [a for a in window if a.get("c", k) < k and a["a"] in ("wCallback", "wRaise")]
        if run["outs"] is None:
            outs = [a["x"] for a in run["trace"] if a["a"] == "cGet" and a.get("x", -1) != -1]
            run["outs"] = [None if o == NONE_CODE else o for o in outs]
        run["calls"] = dict(percall.get(k, {})) if (k or not inprocess(case)) else {}
        run.update({"choices": list(sched.choices), "escaped": list(sched.escaped), "steps": sched.steps})
    return runs


def run_overlap_scheduled(case):
    """phase 6: 2-3 filter() calls on the SAME Multiprocessor object that are ALIVE AT THE SAME TIME: the generators are created up front
    (nothing runs until the first `next`), then the caller follows `case["script"]` — a list of call indices, each entry = "pull one more
    output from that call's generator" (a call whose `abandon` count is reached is closed at that moment) — and finally drains what is
    still open, in order.  One scheduler runs the loaders, workers and callbacks of all calls together; every logged action carries the
    index `c` of the call it belongs to (the caller's own steps are labelled with the call whose generator it is driving).
    -> list of runs, one per call (same shape as run_history_scheduled)"""
    from props import c08_sched as S, c08_filters as FL
    import coba.pipes.multiprocessing as cpm
    import coba.pipes.lines as lines
    from coba.context import CobaContext
    from coba.exceptions import CobaExit
    cs = calls_of(case)
    sc = case.get("sched") or {}
    rng = Rng(sc.get("seed", 0), "c08-sched") if not sc.get("det") else None
    sched = S.Sched(S.PolicyChooser(rng, sc.get("policy"), sc.get("prefix")),
                    step_limit=6000 * len(cs) + 400 * sum(len(c["items"]) for c in cs), wall=40.0)
    sched.register_main()
    FP, FT = S.make_fakes(sched, lines.ProcessLine, lines.ThreadLine)
    saved = (cpm.spawn_context, cpm.MyProcessLine, cpm.ThreadLine)
    if isinstance(saved[1], type) and issubclass(saved[1], lines.ProcessLine):
        sched.real_my_process_line = saved[1]
    saved_ctx = (CobaContext.logger, CobaContext.cacher, CobaContext.store)
    del FL.CALLS[:]
    st = [{"outs": [], "outcome": None, "end": None} for _ in cs]
    lin = {}
    cur = [0]

    def switch(k):
        lin[cur[0]] = sched.lineages
        cur[0] = k
        sched.call = k
        sched.main.call = k
        sched.lineages = lin.get(k, 0)

    hung = [False]
    try:
        cpm.spawn_context, cpm.MyProcessLine, cpm.ThreadLine = S.FakeContext(sched), FP, FT
        mp = build(case, FL.SpecFilter(full_table(case)))
        sched.np_probe = None
        gens = [mp.filter(make_items(c)) for c in cs]
        sched.none_code = None

        def finish(k, outcome):
            st[k]["outcome"] = outcome
            if outcome["kind"] != "hang":
                sched.act("mDone")
            st[k]["end"] = len(sched.log)

        def pull(k, drain=False):
            """one `next` on call k (or all of them when draining)"""
            if st[k]["outcome"] is not None or hung[0]:
                return
            switch(k)
            c = cs[k]
            ab = c.get("abandon")
            while True:
                try:
                    o = next(gens[k])
                except StopIteration:
                    return finish(k, {"kind": "ok"})
                except S.Hang as h:
                    hung[0] = True
                    return finish(k, {"kind": "hang", "reason": str(h.reason)})
                except (Exception, CobaExit) as e:
                    a0 = e.args[0] if len(getattr(e, "args", ())) == 1 and isinstance(e.args[0], str) else None
                    return finish(k, {"kind": "raised", "type": type(e).__name__, "msg": str(e)[:200], "item": err_id(e), "arg": a0})
                st[k]["outs"].append(o)
                if ab is not None and len(st[k]["outs"]) >= ab:
                    sched.act("cAbandon")
                    try:
                        gens[k].close()
                    except S.Hang as h:
                        hung[0] = True
                        return finish(k, {"kind": "hang", "reason": str(h.reason)})
                    except Exception as e:          # noqa
                        return finish(k, {"kind": "close-raised", "type": type(e).__name__, "msg": str(e)[:200]})
                    return finish(k, {"kind": "closed"})
                if not drain:
                    return

        for k in case["script"]:
            pull(k)
        for k in range(len(cs)):
            pull(k, drain=True)
    finally:
        cpm.spawn_context, cpm.MyProcessLine, cpm.ThreadLine = saved
        sched.shutdown()
        CobaContext.logger, CobaContext.cacher, CobaContext.store = saved_ctx
    percall = collections.defaultdict(collections.Counter)
    for key, _ in FL.CALLS:
        parts = key.split("/")
        percall[int(parts[1]) if len(parts) == 3 else 0][key] += 1
    runs = []
    for k, s_ in enumerate(st):
        if s_["outcome"] is None:
            break                                   # an earlier call hung
        end = s_["end"] if s_["end"] is not None else len(sched.log)
        run = {"outs": s_["outs"], "outcome": s_["outcome"], "obj": {"nprocs": 0, "excs": []},
               "trace": [a for a in sched.log[:end] if a.get("c") == k], "stale": [],
               "calls": dict(percall.get(k, {})) if not inprocess(case) else {},
               "choices": list(sched.choices), "escaped": list(sched.escaped), "steps": sched.steps}
        if s_["outcome"]["kind"] == "hang":
            outs = [a["x"] for a in run["trace"] if a["a"] == "cGet" and a.get("x", -1) != -1]
            run["outs"] = [None if o == NONE_CODE else o for o in outs]
        runs.append(run)
    if len(runs) >= 2 and all(s_["end"] is not None for s_ in st[:2]):
        runs[0]["joint"] = [a for i, a in enumerate(sched.log) if a.get("c") in (0, 1) and i < st[a["c"]]["end"]]
    return runs


def run_real(case, timeout=60.0):
    """real spawned processes, no substitution; only the outcome is observed.  Runs in a fresh interpreter so that
    the daemon threads / worker processes the real code leaves behind (e.g. after an abandon) cannot touch later cases."""
    import subprocess
    repo = os.environ.get("COBA_REPO", "/repo")
    here = os.path.dirname(os.path.dirname(os.path.abspath(__file__)))
    env = dict(os.environ, PYTHONPATH=repo + os.pathsep + here, PYTHONWARNINGS="ignore")
    code = ("import sys, json; sys.path[:0] = [%r, %r]\n"
            "from props.c08 import _run_real_here\n"
            "if __name__ == '__main__':\n"
            "    print('C08RESULT' + json.dumps(_run_real_here(json.loads(sys.stdin.read()), %r)))\n" % (repo, here, timeout))
    ncalls = len(calls_of(case))
    try:
        p = subprocess.run([sys.executable, "-W", "ignore", "-c", code], input=json.dumps(case), capture_output=True, text=True,
                           timeout=timeout * ncalls + 15, env=env)
    except subprocess.TimeoutExpired:
        r = {"outs": [], "outcome": {"kind": "hang", "reason": "no result after %ss with real processes" % timeout},
             "trace": None, "calls": {}, "choices": [], "escaped": [], "steps": 0}
        return {"runs": [r]} if case.get("history") else r
    for ln in p.stdout.splitlines():
        if ln.startswith("C08RESULT"):
            return json.loads(ln[9:])
    raise RuntimeError("real-process runner failed: rc=%s %s" % (p.returncode, (p.stderr or p.stdout)[-800:]))


def _run_real_here(case, timeout=60.0):
    """runs in the fresh interpreter: all calls of the case on one object; -> run (single call) or {"runs": [...]} (history)"""
    from props import c08_filters as FL
    top = tempfile.mkdtemp(prefix="c08-")
    runs = []
    try:
        flt = FL.SpecFilter(full_table(case), top)
        mp = build(case, flt)
        for k, c in enumerate(calls_of(case)):
            logdir = os.path.join(top, "call%d" % k)
            os.mkdir(logdir)
            flt.logdir = logdir                 # the line is pickled at every process start, so this reaches new workers
            res = {}

            def body(c=c, res=res):
                try:
                    res["r"] = consume(mp.filter(make_items(c)), c)
                except BaseException as e:       # noqa
                    res["r"] = ([], {"kind": "raised", "type": type(e).__name__, "msg": str(e)[:200], "item": None})

            th = threading.Thread(target=body, daemon=True)
            th.start()
            th.join(timeout)
            if th.is_alive():
                outs, outcome = [], {"kind": "hang", "reason": "no result after %ss with real processes" % timeout}
            else:
                outs, outcome = res["r"]
            calls = {}
            for name in os.listdir(logdir):
                if name.endswith(".calls"):
                    with open(os.path.join(logdir, name)) as f:
                        calls[name[:-6]] = len([ln for ln in f.read().split("\n") if ln.strip()])
            import multiprocessing as _mp
            import time as _time
            _time.sleep(0.3)
            leaked = len(_mp.active_children())      # worker processes still alive after the call returned (parked daemons)
            runs.append({"outs": outs, "outcome": outcome, "trace": None, "calls": calls, "choices": [], "escaped": [], "steps": 0,
                         "leaked": leaked})
            if outcome["kind"] == "hang":
                break
        return {"runs": runs} if case.get("history") else runs[0]
    finally:
        shutil.rmtree(top, ignore_errors=True)


# ------------------------------------------------------------------ (B) the property, directly
def judge(case, run):
    """-> list of F('B', …): the statement of C08 evaluated on what the real code did"""
    fails = []
    outs, oc = run["outs"], run["outcome"]
    exp = collections.Counter(map(enc, expected_outs(case)))
    got = collections.Counter(map(enc, outs))
    rs = raising(case)
    ups = unpicklable(case)
    base = case.get("base", 0)
    desc = "n=%d m=%d items=%s abandon=%s" % (case["n"], case["m"], short(case["items"]), case.get("abandon"))
    if case.get("head") and case["items"]:
        desc += " first item of the stream = %s%s" % (case["head"], " via CobaMultiprocessor" if case.get("wrap") else "")
    if case.get("buffer"):
        desc += " input = a generator re-yielding ONE mutable buffer [id], refilled for every item"
    if case.get("call"):
        desc = "call #%d on the same Multiprocessor object, " % (case["call"] + 1) + desc
    kind = oc["kind"]
    # never hangs
    if kind == "hang":
        why = oc.get("reason", "")
        if why in ("wall-limit",):
            return [F("T", "scheduled run exceeded its wall-clock limit (%s)" % desc, "timeout")]
        cls = "abandon" if case.get("abandon") is not None else ("error" if rs else "plain")
        sig = "hang:%s:%s" % ("livelock" if why == "step-limit" else "deadlock" if why == "deadlock" else "real", cls)
        return [F("B", "the call never finished (%s): %s" % (why, desc), sig)]
    # none duplicated / nothing foreign — whatever the outcome
    extra = got - exp
    if extra:
        foreign = [o for o in extra if o not in exp]
        if foreign:
            fails.append(F("B", "yielded %r which the wrapped filter never produced (%s)" % (foreign[:5], desc), "foreign-output"))
        else:
            fails.append(F("B", "outputs delivered more than once: %r (%s)" % (dict(extra), desc), "duplicated-output"))
    if kind in ("closed", "close-raised"):
        if kind == "close-raised":
            fails.append(F("B", "abandoning the output raised %s(%s) (%s)" % (oc["type"], oc["msg"], desc), "abandon-raises"))
    elif killed(case) and not inprocess(case) and any(a["a"] in ("wKilled", "wKilledKey") for a in (run.get("trace") or [{"a": "wKilled"}])):
        # a worker process was killed while it handled an item: the statement still asks for every output or an error
        if kind == "ok" and exp - got:
            how = ("while handling item %d" % case["kill"]) if case.get("kill") is not None else "while it waited for the caller to read its key (read_wait)" if case.get("kill_wait") is not None else "before it entered run() (process start #%s, exit code 1)" % (case["kill_spawn"],)
            fails.append(F("B", "a worker process was killed (exit code != 0) %s: the call returned normally with %r, "
                           "the outputs %r are missing and no error is raised (%s)" % (how, outs, dict(exp - got), desc), "worker-killed-item-lost"))
        elif kind == "raised" and not rs:
            pass        # raising would be the acceptable reaction
    elif not rs and ups:
        if kind != "raised" or oc.get("type") != "CobaException" or "pickle" not in (oc.get("msg") or ""):
            fails.append(F("B", "item(s) %s cannot be pickled, the loader fails, but the call ended with %s %r instead of raising the "
                           "CobaException about pickling (%s)" % (ups, oc, outs, desc), "pickle-error-not-raised"))
    elif not rs:
        if kind == "raised":
            fails.append(F("B", "no item makes the filter raise, yet the call raised %s(%s) (%s)" % (oc["type"], oc["msg"], desc), "spurious-error"))
        elif exp - got:
            if has_none(case) and None not in outs and not inprocess(case):
                fails.append(F("B", "outputs after a `None` output are lost (None is read as the poison pill): got %r, expected multiset %r (%s)"
                               % (outs, expected_outs(case), desc), "none-output-truncates"))
            else:
                fails.append(F("B", "outputs lost: missing %r (%s)" % (dict(exp - got), desc), "lost-output"))
    else:
        types = sorted(set(case["items"][i]["err"] for i in rs))
        if kind == "ok":
            fails.append(F("B", "the filter raises for item(s) %s but the call returned normally with %r (%s)" % (rs, outs, desc),
                           "error-not-raised:" + "+".join(types)))
        elif (case.get("wrap") and oc.get("type") == "CobaExit" and oc.get("item") is not None and oc["item"] - base in rs
              and case["items"][oc["item"] - base]["err"] == "RuntimeError"):   # (fixed in /repo ce78b88; kept as a regression signature)
            fails.append(F("B", "CobaMultiprocessor turned the filter's RuntimeError(%s) into CobaExit (a BaseException): the caller does not get "
                           "that error (%s)" % (oc["msg"], desc), "wrapper-runtimeerror-becomes-cobaexit"))
        elif ups and oc.get("type") == "CobaException" and "pickle" in (oc.get("msg") or ""):
            pass        # the loader's pickling error is one of the errors of this call
        elif "StopIteration" in types and stop_iteration_surfaced(oc):
            pass        # exactly "the call raises": PEP 479 turns it into a RuntimeError without the item's identity
        elif case.get("wrap") and "StopIteration" in types and oc.get("type") == "CobaExit" and "StopIteration" in (oc.get("msg") or ""):
            fails.append(F("B", "CobaMultiprocessor turned the RuntimeError (from the filter's StopIteration) into CobaExit (a BaseException) (%s)" % desc,
                           "wrapper-runtimeerror-becomes-cobaexit"))
        elif (oc.get("item") is None or oc["item"] - base not in rs
              or oc.get("type") != err_type_name(case["items"][oc["item"] - base]["err"])
              or ("arg" in oc and oc["arg"] != err_text(oc["item"], case["items"][oc["item"] - base]["err"]))):
            fails.append(F("B", "the call raised %s(%s), which is not one of the filter's errors (%s)" % (oc["type"], oc["msg"], desc), "wrong-error"))
    # maxtasksperchild
    if case["m"] > 0:
        over = {k: v for k, v in run["calls"].items() if v > case["m"]}
        if over:
            fails.append(F("B", "a worker process handled %s items with maxtasksperchild=%d (%s)" % (sorted(over.values())[-1], case["m"], desc),
                           "maxtasks-exceeded"))
    return fails


# ------------------------------------------------------------------ (A) trace inclusion in the Lean model
def correspond(case, run, driver):
    """-> (fails, model answer)"""
    fails = []
    oc = run["outcome"]
    cfg = model_cfg(case)
    if run["escaped"]:
        fails.append(F("A", "an exception escaped a background thread of the real code: %s" % run["escaped"][0][:300], "A:escaped-exception"))
    if not case["items"]:
        # `if not items: return []` — nothing is started; only the outcome is compared
        if [a["a"] for a in (run["trace"] or [])] not in ([], ["mDone"]) or run["outs"] or oc["kind"] not in ("ok", "closed"):
            fails.append(F("A", "empty input: expected an immediate empty result, got %s %s" % (run["outs"], oc), "A:empty"))
        if case.get("wrap") and not driver.ask({"op": "inproc", "cfg": cfg})["wrapper_skips"]:
            fails.append(F("C", "model: wrapperSkips is false on the empty stream", "C:wrapper-guard"))
        return fails, None
    if inprocess(case):
        ans = driver.ask({"op": "inproc", "cfg": cfg})
        if case.get("wrap") and ans["wrapper_skips"]:
            fails.append(F("C", "model: wrapperSkips is true on a non-empty stream", "C:wrapper-guard"))
        k = case.get("abandon")
        m_outs, m_err = ans["outs"], ans["err"]
        if k is not None and k <= len(m_outs) and k > 0 or k == 0:
            exp_outs, exp_kind = m_outs[:k], "closed"
        else:
            exp_outs, exp_kind = m_outs, ("raised" if m_err is not None else "ok")
        got = [enc(o) for o in run["outs"]]
        if got != exp_outs or oc["kind"] != exp_kind or (exp_kind == "raised" and not err_matches(case, m_err, oc)):
            fails.append(F("A", "in-process path: implementation %s %s, model %s %s err=%s" % (got, oc, exp_outs, exp_kind, m_err), "A:inproc"))
        return fails, ans
    if run["trace"] is None:
        return fails, None
    if case.get("abandon") == 0:
        if [a["a"] for a in run["trace"]] != ["mDone"]:
            fails.append(F("A", "closing an unstarted generator ran something: %s" % run["trace"][:5], "A:unstarted"))
        return fails, None
    if any(a["a"] == "putTimeout" for a in run["trace"]):
        cfg["timeouts"] = True         # some put on the in_queue was given a finite timeout and the scheduler let it expire
    req = {"op": "trace", "cfg": cfg, "trace": run["trace"]}
    if run.get("obj") is not None:
        req["obj"] = run["obj"]        # what the previous call left on the object: the model's `startCall` must not care
    ans = driver.ask(req)
    if ans["fail"] is not None:
        at = ans["fail"]["at"]
        a = run["trace"][at] if at < len(run["trace"]) else None
        fails.append(F("A", "trace inclusion fails at step %d: action %s is %s in the model; model state %s; trace so far …%s"
                       % (at, json.dumps(a), ans["fail"]["why"], json.dumps(ans["state"]), json.dumps(run["trace"][max(0, at - 6):at])),
                       "A:trace:%s:%s" % (ans["fail"]["why"], a["a"] if a else "?")))
        return fails, ans
    if oc["kind"] == "hang":
        return fails, ans          # (B) has reported it
    mo = ans["outcome"]
    got = [enc(o) for o in run["outs"]]
    if not ans["done"]:
        fails.append(F("A", "the call finished but the model is not in its final phase: %s" % json.dumps(ans["state"]), "A:not-done"))
    elif case.get("wrap") and (ans["wrapped"]["kind"] != ("exit" if oc.get("type") == "CobaExit" else oc["kind"]) or ans["wrapped"]["outs"] != got):
        fails.append(F("A", "CobaMultiprocessor wrapper: implementation %s %s, model wrapOutcome %s" % (got, oc, json.dumps(ans["wrapped"])), "A:wrapper"))
    elif mo["kind"] != oc["kind"] or mo["outs"] != got or (mo["kind"] == "raised" and not err_matches(case, mo["err"], oc)):
        fails.append(F("A", "outcome differs: implementation %s %s, model %s" % (got, oc, json.dumps(mo)), "A:outcome"))
    names_ = [a["a"] for a in run["trace"]]
    if "cAbandon" in names_:
        own = [n_ for n_ in names_[names_.index("cAbandon") + 1:] if n_ in ("mEvent", "cGet", "drainIn", "drainOut", "mDone", "cAbandon")]
        if not own or own[-1] != "mDone" or any(n_ not in ("drainIn", "drainOut", "mDone") for n_ in own):
            fails.append(F("A", "after close() the caller's own steps are not `drain*, return` (model finishSeq): %s" % own, "A:abandon-finish"))
    if not ans["mu_decreasing"]:
        fails.append(F("C", "the termination measure did not decrease on some step of an accepted trace, or finishSeq is not a schedule at the abandon state", "C:variant"))
    if not ans["spec_holds"]:
        fails.append(F("C", "model final state violates the spec although the theorems' hypotheses hold: %s" % json.dumps(ans["state"]), "C:spec"))
    return fails, ans


def correspond_rwproto(case, run, driver):
    """phase 6, (A): what the REAL `MyProcessLine.start` / `MyProcessLine.run` did in this run (executed by the fake process on a shim of the
    real class) against the model's protocol programs (`workerProgram`, `startRegisters`; driver op `rwproto`): every process that ran to its
    end performed exactly the program, every other one a prefix of it; every start registered (event, key) iff the model says so"""
    fails = []
    cache = {}

    def model(has_wait, store, non_empty):
        k = (has_wait, store, non_empty)
        if k not in cache:
            cache[k] = driver.ask({"op": "rwproto", "cfg": model_cfg(case), "has_wait": has_wait, "store": store, "non_empty": non_empty, "is_key": True})
        return cache[k]
    for st in run.get("rw_starts") or []:
        m_ = model(True, st["store"], st["non_empty"])
        if st["registered"] != m_["registers"]:
            fails.append(F("A", "read_wait: MyProcessLine.start with a %s store %s an event and a key; the model (startRegisters) says %s"
                           % ("non-empty" if st["non_empty"] else "still empty", "registered" if st["registered"] else "did NOT register", m_["registers"]),
                           "A:rwproto:start:%s" % ("non-empty" if st["non_empty"] else "empty-store")))
        if not st["store_removed"]:
            fails.append(F("A", "read_wait: MyProcessLine.start left `_read_waiters` (the caller's dict of events) on the object that is pickled into the child",
                           "A:rwproto:start:store-not-removed"))
    for r in run.get("rw_programs") or []:
        prog = model(bool(r["has_wait"]), True, False)["program"]
        ops = r["ops"]
        if (r["done"] and ops != prog) or ops != prog[:len(ops)]:
            fails.append(F("A", "read_wait: the REAL MyProcessLine.run of lineage %d performed %s (0 = line ended, 1 = key written, 2 = waits for the caller)%s; "
                           "the model's workerProgram is %s" % (r["w"], ops, " and returned" if r["done"] else "", prog), "A:rwproto:run:%s" % "".join(map(str, ops[:4]))))
    return fails


def correspond_overlap(case, cs, runs, driver):
    """phase 6, (A)/(C) for calls that are alive together: the JOINT log (the steps of the first two calls in the order in which they happened,
    each up to the end of its call) must be a run of the product system `enabled2/step2` (Model/C08.lean) from `(init c0, init c1)`, and its two
    components must end in the outcomes the per-call replays gave (theorem overlapping_calls_project)"""
    fails = []
    if len(runs) < 2 or any(r["trace"] is None or r["outcome"]["kind"] == "hang" for r in runs[:2]) or any(inprocess(c) or not c["items"] for c in cs[:2]):
        return fails
    joint = runs[0].get("joint")
    if joint is None:
        return fails
    base = ("loadTake", "loadPut", "loadFinish", "wBegin", "wGet", "wPut", "wRaise", "wRetire", "wCallback", "mEvent", "cGet", "cAbandon", "drainIn", "drainOut", "mDone")
    if any(a["a"] not in base for a in joint):
        return fails                                # put time-outs / foreign steps: the per-call replays have reported them
    ans = driver.ask({"op": "trace2", "cfg": model_cfg(cs[0]), "cfg2": model_cfg(cs[1]), "trace": joint})
    if not ans["accepted"]:
        fails.append(F("A", "two calls alive together on one Multiprocessor object: the joint log is not a run of the product of two independent calls; first rejected step %s: %s"
                       % (ans["at"], json.dumps(joint[ans["at"]] if ans["at"] < len(joint) else None)), "A:overlap:joint-trace"))
        return fails
    for k in (0, 1):
        oc, mo = runs[k]["outcome"], ans["outcomes"][k]
        got = [enc(o) for o in runs[k]["outs"]]
        if mo["kind"] != oc["kind"] or mo["outs"] != got:
            fails.append(F("A", "two calls alive together: call #%d ended %s %s, the product model's component ended %s" % (k + 1, got, oc, json.dumps(mo)), "A:overlap:outcome"))
    if not ans["projections_agree"]:
        fails.append(F("C", "model: the product run's components differ from the runs of the projected traces (theorem overlapping_calls_project)", "C:overlap:project"))
    return fails


def correspond_readwait(case, run, driver):
    """(A) for `read_wait=True` runs: the logged trace (with `wKey` / `cKey` / `drainKey`) must be a run of the layer
    `enabledR`/`stepR` (Model/C08.lean, phase 4) and end in the model's outcome; (C): `muR` decreases, the bound of
    `terminates_readwait` holds, the base out-queue stays the key-free part of the real one, and (theorem `readwait_refines`)
    the base theorems' conclusions hold on the final state"""
    fails = []
    oc = run["outcome"]
    if run["trace"] is None or not case["items"] or case.get("abandon") == 0 or inprocess(case):
        return fails, None
    if run["escaped"]:
        fails.append(F("A", "an exception escaped a background thread of the real code: %s" % run["escaped"][0][:300], "A:escaped-exception"))
    trace = run["trace"]
    fails += correspond_rwproto(case, run, driver)
    ans = driver.ask({"op": "traceR", "cfg": model_cfg(case), "trace": trace, "read_wait": True})
    if ans["fail"] is not None:
        at = ans["fail"]["at"]
        a = trace[at] if at < len(trace) else None
        fails.append(F("A", "read_wait layer: trace inclusion fails at step %d: action %s is %s in the model (enabledR/stepR); model state %s key_pending=%s key_wait=%s; trace so far …%s"
                       % (at, json.dumps(a), ans["fail"]["why"], json.dumps(ans["state"]), ans["key_pending"], ans["key_wait"], json.dumps(trace[max(0, at - 6):at])),
                       "A:traceR:%s:%s" % (ans["fail"]["why"], a["a"] if a else "?")))
        return fails, ans
    if oc["kind"] == "hang":
        return fails, ans
    mo = ans["outcome"]
    got = [enc(o) for o in run["outs"]]
    if not ans["done"]:
        fails.append(F("A", "read_wait layer: the call finished but the model is not in its final phase: %s" % json.dumps(ans["state"]), "A:traceR:not-done"))
    elif mo["kind"] != oc["kind"] or mo["outs"] != got or (mo["kind"] == "raised" and not err_matches(case, mo["err"], oc)):
        fails.append(F("A", "read_wait layer: outcome differs: implementation %s %s, model %s" % (got, oc, json.dumps(mo)), "A:traceR:outcome"))
    if not ans["mu_decreasing"]:
        fails.append(F("C", "read_wait layer: muR did not decrease on some step of an accepted trace / the out-queues went out of sync / an incarnation exceeded m", "C:traceR:variant"))
    if not ans["within_bound"]:
        fails.append(F("C", "read_wait layer: the accepted trace is longer than 6*mu(init) (theorem terminates_readwait)", "C:traceR:bound"))
    if not ans["spec_holds"]:
        fails.append(F("C", "read_wait layer: model final state violates the spec although the theorems' hypotheses hold: %s" % json.dumps(ans["state"]), "C:traceR:spec"))
    return fails, ans


def correspond_rf(case, run, driver):
    """phase 5, (A) for read_wait runs in which a WAITING process died (`wKilledKey` = model action `wCrashKey`): the logged trace must be a run of
    `enabledRF`/`stepRF` and end in the model's outcome; (C): `muR` decreases (variant_decreases_rf), the bound of terminates_rf, nothing delivered
    twice on any state (never_duplicated_rf), the out-queues stay in sync, no incarnation exceeds m"""
    fails = []
    oc = run["outcome"]
    if run["trace"] is None or not case["items"] or case.get("abandon") == 0 or inprocess(case):
        return fails, None
    if run["escaped"]:
        fails.append(F("A", "an exception escaped a background thread of the real code: %s" % run["escaped"][0][:300], "A:escaped-exception"))
    trace = [dict(a, a="wCrashKey") if a["a"] == "wKilledKey" else a for a in run["trace"]]
    fails += correspond_rwproto(case, run, driver)
    nf = sum(1 for a in trace if a["a"] == "wCrashKey")
    ans = driver.ask({"op": "traceRF", "cfg": model_cfg(case), "trace": trace, "faults": nf})
    if ans["fail"] is not None:
        at = ans["fail"]["at"]
        a = trace[at] if at < len(trace) else None
        fails.append(F("A", "crash x read_wait: trace inclusion fails at step %d: action %s is %s in the model (enabledRF/stepRF); model state %s key_wait=%s main_err=%s; trace so far …%s"
                       % (at, json.dumps(a), ans["fail"]["why"], json.dumps(ans["state"]), ans["key_wait"], ans["main_err"], json.dumps(trace[max(0, at - 6):at])),
                       "A:traceRF:%s:%s" % (ans["fail"]["why"], a["a"] if a else "?")))
        return fails, ans
    if oc["kind"] == "hang":
        return fails, ans
    mo = ans["outcome"]
    got = [enc(o) for o in run["outs"]]
    if not ans["done"]:
        fails.append(F("A", "crash x read_wait: the call finished but the model is not in its final phase: %s" % json.dumps(ans["state"]), "A:traceRF:not-done"))
    elif mo["kind"] != oc["kind"] or mo["outs"] != got or (mo["kind"] == "raised" and not err_matches(case, mo["err"], oc)):
        fails.append(F("A", "crash x read_wait: outcome differs: implementation %s %s, model %s" % (got, oc, json.dumps(mo)), "A:traceRF:outcome"))
    if not ans["mu_decreasing"]:
        fails.append(F("C", "crash x read_wait: muR did not decrease / an output appeared twice / the out-queues went out of sync / an incarnation exceeded m on some state of an accepted trace", "C:traceRF:variant"))
    if not ans["within_bound"]:
        fails.append(F("C", "crash x read_wait: the accepted trace is longer than 6*mu(init) (theorem terminates_rf)", "C:traceRF:bound"))
    return fails, ans


def correspond_faults(case, run, driver):
    """(A) for runs in which a worker process was killed: the logged trace (`wKilled` = model action `wCrash`) must be a run of
    the fault extension `enabledF`/`stepF` (Model/C08.lean, phase 4) and end in the model's outcome; (C): `muF` decreases on every
    step, the run is within the bound of theorem `terminates_faults`, no incarnation exceeds m (`max_tasks_respected_faults`)"""
    fails = []
    oc = run["outcome"]
    if run["trace"] is None or not case["items"] or case.get("abandon") == 0:
        return fails, None
    if run["escaped"]:
        fails.append(F("A", "an exception escaped a background thread of the real code: %s" % run["escaped"][0][:300], "A:escaped-exception"))
    trace = [dict(a, a="wCrash") if a["a"] == "wKilled" else a for a in run["trace"]]
    nf = sum(1 for a in trace if a["a"] == "wCrash")
    ans = driver.ask({"op": "traceF", "cfg": model_cfg(case), "trace": trace, "faults": nf})
    if ans["fail"] is not None:
        at = ans["fail"]["at"]
        a = trace[at] if at < len(trace) else None
        fails.append(F("A", "fault extension: trace inclusion fails at step %d: action %s is %s in the model (enabledF/stepF); model state %s main_err=%s skipped=%s; trace so far …%s"
                       % (at, json.dumps(a), ans["fail"]["why"], json.dumps(ans["state"]), ans["main_err"], ans["skipped"], json.dumps(trace[max(0, at - 6):at])),
                       "A:traceF:%s:%s" % (ans["fail"]["why"], a["a"] if a else "?")))
        return fails, ans
    if not ans.get("fault_inv", True):
        fails.append(F("C", "fault extension: on some state of an accepted trace with crashes the call had not returned but no step of the code was enabled in the "
                            "model (theorems deadlock_free_faults / stuck_done_faults), or delivered + lost outputs exceed the outputs (never_duplicated_faults): %s"
                       % json.dumps(ans["state"]), "C:traceF:fault-inv"))
    if oc["kind"] == "hang":
        # the model says (deadlock_free_faults) that a step of the code is possible in the state the accepted trace ends in: the hang is the code's
        if ans.get("stuck") is False and not ans["done"]:
            fails.append(F("A", "fault extension: the real code hangs after a worker crash in a state where the model (deadlock_free_faults) has %s enabled step(s) of the code: %s"
                           % (ans.get("code_enabled"), json.dumps(ans["state"])), "A:traceF:hang-not-stuck"))
        return fails, ans
    mo = ans["outcome"]
    got = [enc(o) for o in run["outs"]]
    if not ans["done"]:
        fails.append(F("A", "fault extension: the call finished but the model is not in its final phase: %s" % json.dumps(ans["state"]), "A:traceF:not-done"))
    elif mo["kind"] != oc["kind"] or mo["outs"] != got or (mo["kind"] == "raised" and not err_matches(case, mo["err"], oc)):
        fails.append(F("A", "fault extension: outcome differs: implementation %s %s, model %s" % (got, oc, json.dumps(mo)), "A:traceF:outcome"))
    elif nf and ans["budget_left"] != 0:
        fails.append(F("C", "fault extension: %d crash(es) replayed but the budget left is %s" % (nf, ans["budget_left"]), "C:traceF:budget"))
    if not ans["mu_decreasing"]:
        fails.append(F("C", "fault extension: muF did not decrease on some step of an accepted trace, or an incarnation exceeded maxtasksperchild in the model", "C:traceF:variant"))
    if not ans["within_bound"]:
        fails.append(F("C", "fault extension: the accepted trace is longer than mu(init) + 3*faults (theorem terminates_faults)", "C:traceF:bound"))
    if not ans["spec_holds"]:
        fails.append(F("C", "fault extension: model final state delivers a duplicate/foreign output or raises a foreign error: %s" % json.dumps(ans["state"]), "C:traceF:spec"))
    return fails, ans


def trace_tags(case, run):
    """which rare orders this run visited"""
    tags = []
    tr = run["trace"] or []
    names = [a["a"] for a in tr]
    # phase 6: the REAL MyProcessLine.start/run executed by the fake process (read_wait)
    for st in run.get("rw_starts") or []:
        tags.append("rwproto:real-start:%s" % ("non-empty-store" if st["non_empty"] else "empty-store"))
    for r in run.get("rw_programs") or []:
        tags.append("rwproto:real-run:%s" % ("complete" if r["done"] else "cut-at-" + "".join(map(str, r["ops"]))))
    tags = sorted(set(tags))
    last_cb = None
    pills_started = pills_done = False
    npills = 0
    inq = 0
    for i, a in enumerate(tr):
        n = a["a"]
        if n == "loadFinish":
            pills_started = True
        if n == "loadPut":
            inq += 1
            if a.get("x") == -1:
                npills += 1
        if n in ("wGet", "drainIn"):
            inq -= 1
        if n == "loadTake" and inq >= 2 * case["n"]:
            tags.append("ev:loader-blocked-on-full-queue")
        if n in ("wRaise", "wRetire") and pills_started and "mDone" not in names[:i]:
            tags.append("ev:worker-exit-during-pills")
        if n == "wRaise" and inq >= 2 * case["n"]:
            tags.append("ev:raise-while-queue-full")
        if n == "wCallback":
            if last_cb is not None and last_cb == i - 1:
                tags.append("ev:callbacks-back-to-back")
            last_cb = i
            nxt = [b for b in tr[i + 1:] if b.get("w") == a["w"]]
            if nxt and nxt[0]["a"] == "wBegin":
                tags.append("ev:restart")
                if len(nxt) > 1 and nxt[1]["a"] == "wGet" and nxt[1].get("x") == -1:
                    tags.append("ev:retire-at-m-then-pill")
        if n == "wCallback" and a.get("np") == 0 and "mEvent" not in names[:i]:
            tags.append("ev:all-done-before-caller-woke")
    if "cAbandon" in names:
        tags.append("ev:abandon")
    if "drainIn" in names:
        tags.append("ev:drain-in")
    if "drainOut" in names:
        tags.append("ev:drain-out")
    return sorted(set(tags))


POLICIES = {
    "uniform": {},
    "workers-first": {"roles": {"W": 64, "C": 2, "L": 4, "M": 2}},
    "callbacks-late": {"roles": {"C": 1, "W": 16, "L": 16, "M": 8}},
    "callbacks-eager": {"roles": {"C": 64, "W": 4, "L": 4, "M": 4}},
    "loader-slow": {"roles": {"L": 1, "W": 16, "C": 16, "M": 8}},
    "loader-fast": {"roles": {"L": 64, "W": 2, "C": 2, "M": 2}},
    "caller-slow": {"roles": {"M": 1, "W": 16, "C": 16, "L": 16}},
    "caller-fast": {"roles": {"M": 64, "W": 4, "C": 4, "L": 4}},
    "bursty": {"sticky": 24},
}


class C08(Property):
    id = "C08"
    prop_modules = ["CobaVerif.Props.C08"]
    quick_n = 2000
    thorough_n = 22000
    search_n = 1500
    case_timeout = 900
    workers = 8
    rule = ("a case = (n_processes 1..4, maxtasksperchild 0..3 (5 for long streams), 0-10 items (up to 50 for long streams stopped early) each with 0-3 outputs, "
            "optionally an error of 15 kinds raised after them (generator or plain filter), optionally an item that cannot be pickled, optional early abandon after "
            "k outputs, optional CobaMultiprocessor wrapper, optionally a HISTORY of 2-3 calls on the same Multiprocessor object under one scheduler; schedule = PRNG "
            "seed + role/lineage weights + stickiness or an explicit choice prefix (DFS)); run on the REAL Multiprocessor.filter under the baton scheduler (or with real "
            "spawned processes), every call's trace replayed through the Lean enabled/step (extended by the put-timeout action) from startCall/init, outcome compared "
            "incl. the wrapper's translation; DFS cases with `por` enumerate all schedules up to commutation of independent steps (sleep sets over Coba.C08.indep, "
            "table cross-checked with the driver — phase 4: over Coba.C08.indep2, theorem step_comm2); killed-worker cases (family gen_fault: the process handling item i dies, "
            "every (n,m) shape, crash before/after the caller woke up) are replayed through the fault extension enabledF/stepF (`wCrash`) and on every state of the replay the driver evaluates "
            "the conclusions of deadlock_free_faults / never_duplicated_faults (`faultInvOk`: call not returned => a step of the code is enabled; delivered + lost <= all), read_wait=True cases (family "
            "gen_readwait, scheduled + real processes) through the key layer enabledR/stepR (`wKey`/`cKey`/`drainKey`); phase 6: histories whose calls are ALIVE AT THE SAME TIME (family gen_overlap + 40 corpus cases: `script` = whose generator the caller pulls next; a sibling is read while the first call is open / after it was abandoned / after it raised), judged per call by (B), replayed per call and jointly (product system, theorem overlapping_calls_project); non-trivial = at least 2 items and a trace of at least 12 steps (or a real-process run or a history); distinct by canonical JSON")
    trusted_base = [
        "thread-based fakes for spawn_context.Queue/Event, MyProcessLine and ThreadLine (harness/props/c08_sched.py): FIFO queues, bounded put blocks, put/get with a "
        "finite timeout give up when the scheduler says so, join blocks until the thread/process body has ended, a spawned process works on a pickled private copy of "
        "its line; scheduling granularity = queue put/get/get_nowait, event wait, join, thread start/exit, callback entry; each callback body is one atomic step "
        "(CPython's GIL: `_n_procs -= 1`, list.append)",
        "real OS processes, pipes, multiprocessing.Queue feeder threads and pickling are exercised only by the real-process cases (outcome compared)",
        "the sleep-set enumeration treats a scheduling segment as a set of model actions and relies on theorem step_comm for their commutation; segments "
        "without a model action are treated as dependent on everything",
        "NOT in the transition system: cloudpickle; the wrapper's logger/cacher/store marshalling is C01's.  Phase 4: exitcode != 0 / _main_err and read_wait=True ARE "
        "Lean transitions now (FState/ActionF, RState/ActionR); for read_wait the scheduled fake process replicates the three worker-side lines of MyProcessLine.start/run "
        "(create event + UniqueKey, write the key after the line ended, wait) — the caller side (`isinstance(i, UniqueKey)` … `.set()`) is the real code; the real "
        "MyProcessLine.run/start are exercised by the real-process read_wait cases only.  Phase 6: no longer replicated — the fake process executes the REAL "
        "MyProcessLine.start (on a shim object of the real class; only ProcessLine.start, which would create the OS process, is a no-op meanwhile) and the REAL "
        "MyProcessLine.run (= real ProcessLine.run, key write through the child's real QueueSink, wait on the registered event); the op sequence is compared with the "
        "model's workerProgram (driver op rwproto) and extracted into Generated/C08ReadWait.lean (obligations generated_worker_program / _start_registers / _caller_dispatch)",
        "phase 6, calls alive at the same time on one object (family gen_overlap): the caller's own steps are labelled with the call whose generator it is driving; "
        "the joint log of the first two calls is replayed through the product system enabled2/step2 (driver op trace2), each call's own steps through the single-call system",
        "translator (pre_build): Generated/C08Callback.lean is extracted with Python's ast from the current coba/pipes/multiprocessing.py (queue capacity factor, restart "
        "test, `_n_procs -= 1`, out-pill test, number of in-pills, `_main_err` test); if the source is reshaped beyond recognition defaults are written with extracted=false",
    ]
    assumptions = ["n_processes >= 1", "the wrapped filter's outputs and errors are picklable",
                   "a worker process that is KILLED is outside the theorems (fault, not `the filter raises`): open finding C08-F5 records what the code does then"]
    partial_theorems = {
        "exactly_once_faults_partial": "with worker crashes (exit code != 0) the code loses the item in hand and returns normally (finding C08-F5): proved for the "
                                       "fault budget 0; witness exactly_once_faults_counterexample (replayed on the real code: corpus kill cases)",
        "error_surfaces_faults_partial": "same forced hypothesis (no crash): a crashed process' pending error is lost with it",
        "exactly_once_nocrash_partial": "phase 5, the same clause for ANY fault budget f: forced hypothesis `s.budget = f` (no crash happened in this run); with crashes "
                                        "what IS proved for every budget: deadlock_free_faults, reaches_done_faults, stuck_done_faults, never_duplicated_faults "
                                        "(delivered + held by dead processes <= all), outputs_accounted_faults; witnesses exactly_once_faults_counterexample, "
                                        "crash_strands_items_counterexample (n=1: the queued items are stranded too; corpus kill case, replayed on the real code)",
        "error_surfaces_nocrash_partial": "phase 5, same forced hypothesis `s.budget = f`",
    }

    # ---- generators
    def gen_items(self, rng, n, m, style):
        r = rng.below(100)
        if r < 4:
            cnt = 0
        elif r < 20:
            cnt = rng.randint(1, max(1, n))            # fewer items than processes (or as many)
        elif r < 40 and m > 0:
            cnt = m * rng.randint(1, 3) * rng.choice([1, n])   # exact multiples of maxtasksperchild
        elif r < 55:
            cnt = 2 * n + rng.randint(0, 3)            # fills the bounded in_queue
        else:
            cnt = rng.randint(1, 10)
        cnt = min(cnt, 10)
        items = []
        v = 0
        for i in range(cnt):
            k = rng.wchoice([(2, 0), (6, 1), (2, 2), (1, 3)])
            if style["dups"]:
                outs = [rng.randint(0, 3) for _ in range(k)]
            else:
                outs = list(range(v, v + k))
                v += k
            gen = rng.chance(0.6) or k != 1
            items.append({"outs": outs, "err": None, "gen": bool(gen)})
        return items

    def add_errors(self, rng, items, types):
        if not items:
            return
        r = rng.below(100)
        if r < 45:
            idx = [rng.below(len(items))]
        elif r < 60:
            idx = [0]
        elif r < 70:
            idx = [len(items) - 1]
        elif r < 85:
            idx = rng.sample(list(range(len(items))), min(len(items), 2))
        else:
            idx = rng.subset(list(range(len(items))), 0.5) or [0]
        for i in idx:
            it = items[i]
            it["err"] = rng.choice(types)
            if not it["gen"]:
                it["outs"] = []          # a plain function either returns one value or raises
            elif rng.chance(0.3):
                it["outs"] = []

    def gen_policy(self, rng, n):
        name = rng.choice(list(POLICIES))
        pol = json.loads(json.dumps(POLICIES[name]))
        if rng.chance(0.4):
            pol["lineages"] = [rng.choice([1, 1, 4, 16]) for _ in range(n)]
            name += "+lineage"
        if rng.chance(0.25) and "sticky" not in pol:
            pol["sticky"] = rng.choice([4, 16])
            name += "+sticky"
        pol["name"] = name
        return pol

    def gen_case(self, rng, tier, mode=None):
        n = rng.wchoice([(3, 1), (4, 2), (3, 3), (2, 4)])
        m = rng.wchoice([(4, 0), (3, 1), (3, 2), (2, 3)])
        style = {"dups": rng.chance(0.3)}
        items = self.gen_items(rng, n, m, style)
        r = rng.below(100)
        if r < 40 and items:
            self.add_errors(rng, items, list(PLAIN_ERRS))
        if items and rng.chance(0.05):
            items[rng.below(len(items))]["unpick"] = True      # the loader's Pickler fails on this item
        case = {"mode": mode or "sched", "n": n, "m": m, "items": items, "abandon": None}
        tot = len(expected_outs(case))
        if rng.chance(0.22):
            case["abandon"] = rng.randint(0, max(1, tot)) if rng.chance(0.9) else 0
        if rng.chance(0.25):
            case["iter"] = True
        if rng.chance(0.1) and not any(it.get("unpick") for it in items):
            case["buffer"] = True          # one mutable object, mutated and yielded again for every item
        if rng.chance(0.1):
            case["wrap"] = True
        if rng.chance(0.02) and items and not case.get("wrap"):
            case["kill"] = rng.below(len(items))       # the worker process handling this item is killed (fault outside "the filter raises")
        if rng.chance(0.12) and items and not case.get("buffer"):
            case["head"] = rng.choice(["None", "None", "''", "[]", "False", "0"])
            if rng.chance(0.5):
                case["wrap"] = True
        case["sched"] = {"seed": rng.below(2 ** 32), "policy": self.gen_policy(rng, n)}
        return case

    def gen_long(self, rng, mode="sched"):
        """streams well above the in_queue capacity (2n) + what the workers hold, stopped early by an error or an abandon:
        the loader is still blocked on the full in_queue when the call has to end"""
        n = rng.choice([1, 1, 2, 2, 3])
        m = rng.choice([0, 1, 2, 3, 5, 5])
        cnt = rng.randint(2 * n + 6, 50 if mode == "sched" else 40)
        items = [{"outs": [i % 7] if rng.chance(0.9) else [], "err": None, "gen": rng.chance(0.5)} for i in range(cnt)]
        for it in items:
            if not it["outs"]:
                it["gen"] = True
        case = {"mode": mode, "n": n, "m": m, "items": items, "abandon": None}
        r = rng.below(100)
        if r < 60:
            for i in rng.sample(list(range(6)), rng.choice([1, 1, 1, 2, n])):
                items[i]["err"] = rng.choice(list(PLAIN_ERRS[:5]) + ["StopIteration", "OSError", "AttributeError"])
                if not items[i]["gen"]:
                    items[i]["outs"] = []
        elif r < 90:
            case["abandon"] = rng.randint(1, 3)
        if rng.chance(0.3):
            case["iter"] = True
        if mode == "sched":
            case["sched"] = {"seed": rng.below(2 ** 32), "policy": self.gen_policy(rng, n)}
        return case

    # ---- translator tie (phase 4): the callback's decisions, extracted from the CURRENT source with `ast`
    def pre_build(self):
        """regenerates lean/CobaVerif/Generated/C08Callback.lean from coba/pipes/multiprocessing.py: the in_queue capacity factor,
        the restart condition and the out-pill condition of `filter_finished_or_failed`, the number of pills the loader callback
        writes and the caller's `_main_err` test.  Props/C08.lean proves that they equal what the model's `step` does
        (`generated_*` theorems), so an edit of these expressions breaks a proof obligation."""
        import ast
        from core import lean as _lean
        path = os.path.join(_lean.LEAN_DIR, "CobaVerif", "Generated", "C08Callback.lean")
        src_path = os.path.join(os.environ.get("COBA_REPO", "/repo"), "coba", "pipes", "multiprocessing.py")
        got, notes = {}, []

        def attr(e):
            return e.attr if isinstance(e, ast.Attribute) else (e.id if isinstance(e, ast.Name) else None)

        def cond(e):
            """boolean expression over the atoms poisoned / exceptions / exitcode / _main_err -> Lean Bool term"""
            if isinstance(e, ast.BoolOp):
                parts = [cond(v) for v in e.values]
                return "(" + (" && " if isinstance(e.op, ast.And) else " || ").join(parts) + ")"
            if isinstance(e, ast.UnaryOp) and isinstance(e.op, ast.Not):
                return "(!" + cond(e.operand) + ")"
            if isinstance(e, ast.Compare) and len(e.ops) == 1 and isinstance(e.comparators[0], ast.Constant) and isinstance(e.comparators[0].value, int):
                a, k, op = attr(e.left), e.comparators[0].value, type(e.ops[0]).__name__
                if a == "exitcode" and k == 0 and op in ("Eq", "NotEq"):
                    return "exit0" if op == "Eq" else "(!exit0)"
                if a == "_n_procs" and k >= 0 and op in ("Eq", "LtE", "Lt", "NotEq", "Gt", "GtE"):
                    return {"Eq": "(nprocs == %d)", "LtE": "(decide (nprocs ≤ %d))", "Lt": "(decide (nprocs < %d))", "NotEq": "(nprocs != %d)",
                            "Gt": "(decide (nprocs > %d))", "GtE": "(decide (nprocs ≥ %d))"}[op] % k
                raise ValueError("comparison not understood: %s" % ast.dump(e)[:120])
            a = attr(e)
            if a == "poisoned":
                return "poisoned"
            if a == "_exceptions":
                return "(!noExc)"
            if a == "_main_err":
                return "mainErr"
            raise ValueError("atom not understood: %s" % ast.dump(e)[:120])

        def amount(e):
            """`call._n_procs`, `call._n_procs ± k` or `self._max_processes` -> Lean Nat term over nprocs / n"""
            if isinstance(e, ast.BinOp) and isinstance(e.right, ast.Constant) and isinstance(e.right.value, int) and isinstance(e.op, (ast.Add, ast.Sub)):
                return "(%s %s %d)" % (amount(e.left), "+" if isinstance(e.op, ast.Add) else "-", e.right.value)
            a = attr(e)
            if a == "_n_procs":
                return "nprocs"
            if a == "_max_processes":
                return "n"
            raise ValueError("amount not understood: %s" % ast.dump(e)[:120])

        try:
            tree = ast.parse(open(src_path, encoding="utf-8").read())
            flt = [f for c in ast.walk(tree) if isinstance(c, ast.ClassDef) and c.name == "Multiprocessor"
                   for f in c.body if isinstance(f, ast.FunctionDef) and f.name == "filter"][0]
            for node in ast.walk(flt):
                if isinstance(node, ast.Call) and attr(node.func) == "Queue":
                    for kw in node.keywords:
                        if kw.arg == "maxsize" and isinstance(kw.value, ast.BinOp) and isinstance(kw.value.op, ast.Mult):
                            l, r = kw.value.left, kw.value.right
                            if isinstance(r, ast.Constant) and attr(l) == "_max_processes":
                                got["cap"] = int(r.value)
                            elif isinstance(l, ast.Constant) and attr(r) == "_max_processes":
                                got["cap"] = int(l.value)
                if isinstance(node, ast.FunctionDef) and node.name == "filter_finished_or_failed":
                    for st in ast.walk(node):
                        if isinstance(st, ast.If) and any(isinstance(x, ast.Call) and attr(x.func) == "start" for b in st.body for x in ast.walk(b)):
                            got["restart"] = cond(st.test)
                            for st2 in st.orelse:
                                for x in ast.walk(st2):
                                    if isinstance(x, ast.If) and any(isinstance(y, ast.Call) and attr(y.func) == "write" for b in x.body for y in ast.walk(b)):
                                        got["pill"] = cond(x.test)
                                    if isinstance(x, ast.AugAssign) and attr(x.target) == "_n_procs" and isinstance(x.value, ast.Constant):
                                        got["dec"] = ("nprocs - %d" if isinstance(x.op, ast.Sub) else "nprocs + %d") % int(x.value.value)
                if isinstance(node, ast.FunctionDef) and node.name == "loader_finished_or_failed":
                    for x in ast.walk(node):
                        if isinstance(x, ast.BinOp) and isinstance(x.op, ast.Mult) and isinstance(x.left, ast.List) and len(x.left.elts) == 1:
                            got["pills"] = amount(x.right)
                if isinstance(node, ast.If) and attr(node.test.operand if isinstance(node.test, ast.UnaryOp) else node.test) == "_main_err" \
                        and any(isinstance(x, (ast.Yield, ast.YieldFrom)) for b in node.body for x in ast.walk(b)):
                    got["consumes"] = cond(node.test)
                if isinstance(node, ast.Assign) and len(node.targets) == 1 and attr(node.targets[0]) == "_n_procs" and isinstance(node.targets[0], ast.Attribute):
                    got.setdefault("init", amount(node.value))
        except Exception as e:      # noqa
            notes.append("C08 translator: extraction failed (%s: %s)" % (type(e).__name__, str(e)[:200]))
        keys = ("cap", "restart", "pill", "dec", "pills", "consumes", "init")
        ok = all(k in got for k in keys)
        if not ok:
            notes.append("C08 translator: not found in the source: %s — defaults (= the model) written, `extracted = false`" % [k for k in keys if k not in got])
            got = {"cap": 2, "restart": "((!poisoned) && (!(!noExc)) && exit0)", "pill": "(nprocs == 0)", "dec": "nprocs - 1", "pills": "nprocs",
                   "consumes": "(!mainErr)", "init": "n"}
        body = ("-- GENERATED by harness/props/c08.py (pre_build) from coba/pipes/multiprocessing.py on every run; do not edit.\n"
                "namespace Coba.Generated.C08\n"
                "/-- `spawn_context.Queue(maxsize=self._max_processes*K)` -/\n"
                "def capFactor : Nat := %d\n"
                "/-- `call._n_procs = …` at the start of the call -/\n"
                "def initProcs (n : Nat) : Nat := %s\n"
                "/-- the test guarding `MyProcessLine(worker.pipeline, …).start()` in `filter_finished_or_failed` (noExc = `call._exceptions` is empty) -/\n"
                "def restartCond (poisoned noExc exit0 : Bool) : Bool := %s\n"
                "/-- otherwise: `call._n_procs -= 1` … -/\n"
                "def afterExit (nprocs : Nat) : Nat := %s\n"
                "/-- … and the test guarding `out_put.write([OutPoison()])`, on the decremented counter -/\n"
                "def pillCond (nprocs : Nat) : Bool := %s\n"
                "/-- `[call._poison] * …` written by `loader_finished_or_failed` -/\n"
                "def pillsWritten (nprocs : Nat) : Nat := %s\n"
                "/-- the test guarding the consuming loop after `event.wait()` -/\n"
                "def consumes (mainErr : Bool) : Bool := %s\n"
                "def extracted : Bool := %s\n"
                "end Coba.Generated.C08\n" % (got["cap"], got["init"], got["restart"], got["dec"], got["pill"], got["pills"], got["consumes"], "true" if ok else "false"))
        old = open(path, encoding="utf-8").read() if os.path.exists(path) else None
        if old != body:
            os.makedirs(os.path.dirname(path), exist_ok=True)
            with open(path, "w", encoding="utf-8") as f:
                f.write(body)
        notes.append("C08 translator: cap=%s restart=%s pill=%s dec=%s pills=%s consumes=%s init=%s extracted=%s"
                     % (got["cap"], got["restart"], got["pill"], got["dec"], got["pills"], got["consumes"], got["init"], ok))
        notes += self.pre_build_readwait(src_path)
        return notes

    def pre_build_readwait(self, src_path):
        """phase 6: regenerates lean/CobaVerif/Generated/C08ReadWait.lean — the read_wait protocol read off the CURRENT source:
        the statement sequence of `MyProcessLine.run`, the registration test (and its position before `super().start()`) of
        `MyProcessLine.start`, and the caller's dispatch `if read_waiters and isinstance(i, UniqueKey): read_waiters[i].set() else: yield i`.
        Props/C08.lean proves them equal to the model's `workerProgram` / `startRegisters` / `callerSets` (`generated_worker_program`, …)."""
        import ast
        from core import lean as _lean
        path = os.path.join(_lean.LEAN_DIR, "CobaVerif", "Generated", "C08ReadWait.lean")
        got, notes = {}, []

        def attr(e):
            return e.attr if isinstance(e, ast.Attribute) else (e.id if isinstance(e, ast.Name) else None)

        def is_super_call(e, name):
            return (isinstance(e, ast.Call) and isinstance(e.func, ast.Attribute) and e.func.attr == name and isinstance(e.func.value, ast.Call)
                    and attr(e.func.value.func) == "super" and not e.args)

        def stmt_code(st):
            """one statement of `run` -> 0 (the line), 1 (write the key LAST in the line's sink), 2 (wait on the own event), 9 (anything else)"""
            if isinstance(st, ast.Expr) and isinstance(st.value, ast.Constant):
                return None                                   # docstring
            if isinstance(st, ast.Expr) and is_super_call(st.value, "run"):
                return 0
            if isinstance(st, ast.Expr) and isinstance(st.value, ast.Call) and isinstance(st.value.func, ast.Attribute):
                c_, f = st.value, st.value.func
                if (f.attr == "write" and len(c_.args) == 1 and isinstance(c_.args[0], ast.List) and len(c_.args[0].elts) == 1
                        and attr(c_.args[0].elts[0]) == "_wait_key" and isinstance(f.value, ast.Subscript) and attr(f.value.value) == "_line"
                        and isinstance(f.value.slice, ast.UnaryOp) and isinstance(f.value.slice.op, ast.USub)
                        and isinstance(f.value.slice.operand, ast.Constant) and f.value.slice.operand.value == 1):
                    return 1
                if f.attr == "wait" and attr(f.value) == "_wait" and not c_.args and not c_.keywords:
                    return 2
            return 9

        def has_wait_test(e):
            return (isinstance(e, ast.Call) and attr(e.func) == "hasattr" and len(e.args) == 2 and isinstance(e.args[1], ast.Constant)
                    and e.args[1].value == "_wait")

        def cond(e, names):
            """boolean expression over named atoms -> Lean Bool term"""
            if isinstance(e, ast.BoolOp):
                return "(" + (" && " if isinstance(e.op, ast.And) else " || ").join(cond(v, names) for v in e.values) + ")"
            if isinstance(e, ast.UnaryOp) and isinstance(e.op, ast.Not):
                return "(!" + cond(e.operand, names) + ")"
            if isinstance(e, ast.Compare) and len(e.ops) == 1 and isinstance(e.comparators[0], ast.Constant) and e.comparators[0].value is None \
                    and isinstance(e.ops[0], (ast.IsNot, ast.Is)) and attr(e.left) in names:
                t = names[attr(e.left)][0]
                return t if isinstance(e.ops[0], ast.IsNot) else "(!%s)" % t
            if isinstance(e, ast.Name) and e.id in names:
                return names[e.id][1]                         # truthiness of the dict: given AND non-empty
            if isinstance(e, ast.Call) and attr(e.func) == "isinstance" and len(e.args) == 2 and attr(e.args[1]) == "UniqueKey":
                return "isKey"
            raise ValueError("condition not understood: %s" % ast.dump(e)[:120])

        try:
            tree = ast.parse(open(src_path, encoding="utf-8").read())
            cls = [c for c in ast.walk(tree) if isinstance(c, ast.ClassDef) and c.name == "MyProcessLine"][0]
            run = [f for f in cls.body if isinstance(f, ast.FunctionDef) and f.name == "run"][0]
            start = [f for f in cls.body if isinstance(f, ast.FunctionDef) and f.name == "start"][0]
            segs = []
            for st in run.body:
                if isinstance(st, ast.If) and has_wait_test(st.test) and not st.orelse:
                    segs.append("(if hasWait then [%s] else [])" % ", ".join(str(stmt_code(x)) for x in st.body if stmt_code(x) is not None))
                elif stmt_code(st) is not None:
                    segs.append("[%d]" % stmt_code(st))
            got["prog"] = " ++ ".join(segs) if segs else "[]"
            # start(): the store is read from self._read_waiters (and removed from the object: the object is pickled into the child), the test
            # guarding `store[key] = event`, and its position before `super().start()`
            store_names = set()
            for i, st in enumerate(start.body):
                if isinstance(st, ast.Assign) and len(st.targets) == 1 and isinstance(st.targets[0], ast.Name) and attr(st.value) == "_read_waiters":
                    store_names.add(st.targets[0].id)
            pos_reg = pos_super = None
            for i, st in enumerate(start.body):
                if isinstance(st, ast.If) and pos_reg is None:
                    regs = [x for b in st.body for x in ast.walk(b) if isinstance(x, ast.Assign) and isinstance(x.targets[0], ast.Subscript)
                            and attr(x.targets[0].value) in store_names and attr(x.targets[0].slice) == "_wait_key" and attr(x.value) == "_wait"]
                    makes = set(attr(x.targets[0]) for b in st.body for x in ast.walk(b) if isinstance(x, ast.Assign))
                    if regs and {"_wait", "_wait_key"} <= makes:
                        got["start"] = cond(st.test, {nm: ("store", "(store && nonEmpty)") for nm in store_names})
                        pos_reg = i
                if isinstance(st, ast.Expr) and is_super_call(st.value, "start"):
                    pos_super = i
            if pos_reg is not None and pos_super is not None:
                got["order"] = "true" if pos_reg < pos_super else "false"
            got["deletes"] = "true" if any(isinstance(st, ast.Delete) and any(attr(t) == "_read_waiters" for t in st.targets) for st in start.body) else "false"
            # the caller's dispatch inside `for i in out_get.read()`
            flt = [f for c in ast.walk(tree) if isinstance(c, ast.ClassDef) and c.name == "Multiprocessor"
                   for f in c.body if isinstance(f, ast.FunctionDef) and f.name == "filter"][0]
            for loop in ast.walk(flt):
                if isinstance(loop, ast.For) and isinstance(loop.target, ast.Name) and isinstance(loop.iter, ast.Call) and attr(loop.iter.func) == "read":
                    v = loop.target.id
                    for st in loop.body:
                        if isinstance(st, ast.If) and any(isinstance(x, ast.Call) and attr(x.func) == "isinstance" for x in ast.walk(st.test)):
                            got["caller"] = cond(st.test, {"read_waiters": ("rw", "rw")})
                            b = st.body
                            ok_set = (len(b) == 1 and isinstance(b[0], ast.Expr) and isinstance(b[0].value, ast.Call) and attr(b[0].value.func) == "set"
                                      and not b[0].value.args and isinstance(b[0].value.func.value, ast.Subscript)
                                      and attr(b[0].value.func.value.value) == "read_waiters" and attr(b[0].value.func.value.slice) == v)
                            got["keyact"] = 1 if ok_set else 0
                            o = st.orelse
                            got["else"] = "true" if (len(o) == 1 and isinstance(o[0], ast.Expr) and isinstance(o[0].value, ast.Yield)
                                                     and attr(o[0].value.value) == v) else "false"
        except Exception as e:      # noqa
            notes.append("C08 translator (read_wait): extraction failed (%s: %s)" % (type(e).__name__, str(e)[:200]))
        keys = ("prog", "start", "order", "deletes", "caller", "keyact", "else")
        ok = all(k in got for k in keys)
        if not ok:
            notes.append("C08 translator (read_wait): not found in the source: %s — defaults (= the model) written, `extracted = false`" % [k for k in keys if k not in got])
            got = {"prog": "[0] ++ (if hasWait then [1, 2] else [])", "start": "store", "order": "true", "deletes": "true", "caller": "(rw && isKey)",
                   "keyact": 1, "else": "true"}
        body = ("-- GENERATED by harness/props/c08.py (pre_build_readwait) from coba/pipes/multiprocessing.py on every run; do not edit.\n"
                "set_option linter.unusedVariables false\n"
                "namespace Coba.Generated.C08RW\n"
                "/-- the statements of `MyProcessLine.run` in source order: 0 = `super().run()` (the line), 1 = `self._line[-1].write([self._wait_key])`,\n"
                "2 = `self._wait.wait()`, 9 = anything else; hasWait = `hasattr(self,'_wait')` -/\n"
                "def workerProgramCodes (hasWait : Bool) : List Nat := %s\n"
                "/-- `MyProcessLine.start`: the test guarding `self._wait = Event(); self._wait_key = UniqueKey(); store[key] = event`\n"
                "(store = a dict was handed in, nonEmpty = it already holds a key) -/\n"
                "def startRegisters (store nonEmpty : Bool) : Bool := %s\n"
                "/-- … which stands before `super().start()` (the child is pickled with `_wait`/`_wait_key`) -/\n"
                "def registersBeforeStart : Bool := %s\n"
                "/-- `del self._read_waiters` (the caller's dict does not travel to the child) -/\n"
                "def storeRemoved : Bool := %s\n"
                "/-- the caller's test on a value `i` read from the out queue (rw = `read_waiters`, isKey = `isinstance(i, UniqueKey)`) -/\n"
                "def callerSets (rw isKey : Bool) : Bool := %s\n"
                "/-- its body: 1 = exactly `read_waiters[i].set()`, 0 = anything else -/\n"
                "def callerKeyAction : Nat := %d\n"
                "/-- its else branch is exactly `yield i` -/\n"
                "def callerElseYields : Bool := %s\n"
                "def extracted : Bool := %s\n"
                "end Coba.Generated.C08RW\n" % (got["prog"], got["start"], got["order"], got["deletes"], got["caller"], got["keyact"], got["else"],
                                                 "true" if ok else "false"))
        old = open(path, encoding="utf-8").read() if os.path.exists(path) else None
        if old != body:
            os.makedirs(os.path.dirname(path), exist_ok=True)
            with open(path, "w", encoding="utf-8") as f:
                f.write(body)
        notes.append("C08 translator (read_wait): run=%s start=%s before-super-start=%s del-store=%s caller=%s key-action=%s else-yields=%s extracted=%s"
                     % (got["prog"], got["start"], got["order"], got["deletes"], got["caller"], got["keyact"], got["else"], ok))
        return notes

    def gen_fault(self, rng):
        """phase 4: a worker process is killed while it handles an item (scheduled runs; replayed through the fault extension):
        every (n, m) shape, early items (so that the crash can precede the caller's wake-up) and late ones, with / without a raising item"""
        n = rng.choice([1, 1, 2, 2, 3])
        m = rng.choice([0, 0, 1, 1, 2, 3])
        if n == 1 and m == 0:
            m = rng.choice([1, 2])           # the in-process path has no worker process
        cnt = rng.randint(1, 8)
        items = [{"outs": [i] if rng.chance(0.7) else [i, i + 10], "err": None, "gen": True} for i in range(cnt)]
        for it in items:
            if not rng.chance(0.75):
                it["gen"] = False
                it["outs"] = it["outs"][:1]
        if rng.chance(0.25):
            i = rng.below(cnt)
            items[i]["err"] = rng.choice(list(PLAIN_ERRS[:5]))
            if not items[i]["gen"]:
                items[i]["outs"] = []
        case = {"mode": "sched", "n": n, "m": m, "items": items, "abandon": None,
                "kill": 0 if rng.chance(0.4) else rng.below(cnt)}
        if rng.chance(0.35):
            # phase 5: a process dies before it enters run() (missing `__main__` guard: exit code 1) — the first one started (the caller then skips), a later
            # one, or a replacement; sometimes together with a crash inside the filter
            ks = 0 if rng.chance(0.4) else rng.randint(1, n + 2)
            case["kill_spawn"] = [ks] if rng.chance(0.8) else sorted({ks, rng.randint(0, n + 3)})
            if rng.chance(0.7):
                case["kill"] = None
        if rng.chance(0.15):
            case["abandon"] = rng.randint(1, 2)
        if rng.chance(0.3):
            case["iter"] = True
        pol = self.gen_policy(rng, n)
        case["sched"] = {"seed": rng.below(2 ** 32), "policy": pol}
        return case

    def gen_keywait(self, rng):
        """phase 5: read_wait=True and the k-th process that begins to wait for the caller dies while waiting (crash x read_wait)"""
        c = self.gen_readwait(rng)
        c["mode"] = "sched"
        c.pop("history", None)
        k = 0 if rng.chance(0.4) else rng.randint(1, c["n"] + 1)
        c["kill_wait"] = [k] if rng.chance(0.7) else sorted({k, rng.randint(0, c["n"] + 2)})
        return c

    def gen_readwait(self, rng, mode="sched"):
        """phase 4: `Multiprocessor(f, n, m, read_wait=True)`: a process exits only after the caller has read its key"""
        c = self.gen_case(rng, "quick", mode if mode == "real" else None)
        for k in ("wrap", "kill", "kill_spawn", "head", "buffer"):
            c.pop(k, None)
        for it in c["items"]:
            it.pop("unpick", None)
        if c["n"] == 1 and c["m"] == 0:
            c["m"] = rng.choice([1, 2, 3])
        if mode == "real":
            c["n"] = min(c["n"], 3)
            c["items"] = c["items"][:6]
            for it in c["items"]:
                it["outs"] = it["outs"][:2] if it["gen"] else it["outs"]
            if c["abandon"] is not None:
                c["abandon"] = min(c["abandon"], max(1, len(expected_outs(c))))
            c.pop("sched", None)
        c["read_wait"] = True
        return c

    def gen_history(self, rng, mode="sched"):
        """2-3 consecutive filter() calls on the same Multiprocessor object: raising / fine / abandoned in random order"""
        n = rng.choice([1, 1, 2, 2, 3])
        m = rng.choice([0, 1, 1, 2, 3])
        k = rng.choice([2, 2, 3])
        kinds = [rng.choice(["raise", "raise", "fine", "abandon"]) for _ in range(k)]
        if "raise" not in kinds[:-1] and rng.chance(0.7):
            kinds[0] = "raise"
        if mode == "real":
            # with real processes an abandoned call leaves workers behind that share `self._n_procs`/`_exceptions`
            # with the next call; only the last call may be abandoned
            kinds = [("fine" if kk == "abandon" and j < k - 1 else kk) for j, kk in enumerate(kinds)]
        hist = []
        for kk in kinds:
            cnt = rng.randint(1, 6)
            items = [{"outs": [rng.randint(0, 5)] if rng.chance(0.85) else [], "err": None, "gen": True} for _ in range(cnt)]
            h = {"items": items, "abandon": None}
            if kk == "raise":
                self.add_errors(rng, items, list(PLAIN_ERRS[:5]) + ["StopIteration", "C08SubError", "AttributeError", "AttributeErrorFrom", "AttributeErrorNatural"])
            elif kk == "abandon":
                h["abandon"] = rng.randint(1, max(1, sum(len(it["outs"]) for it in items)))
            hist.append(h)
        case = {"mode": mode, "n": n, "m": m, "items": [], "abandon": None, "history": hist}
        if mode == "sched":
            case["sched"] = {"seed": rng.below(2 ** 32), "policy": self.gen_policy(rng, n)}
        return case

    def gen_overlap(self, rng):
        """phase 6: 2-3 calls on the same Multiprocessor object alive at the same time; the caller switches between their generators
        (`script`), abandons one while a sibling is still open, lets one raise while a sibling is open"""
        case = self.gen_history(rng, "sched")
        total = [sum(len(it["outs"]) for it in h["items"]) for h in case["history"]]
        k = len(total)
        style = rng.below(3)
        if style == 0:          # start every call, then round robin
            script = list(range(k)) * rng.randint(1, 3)
        elif style == 1:        # a sibling is opened first, then the first call runs to its end / abandon / error, then the sibling again
            script = [1] + [0] * (total[0] + 1) + [1]
        else:
            script = [rng.below(k) for _ in range(rng.randint(2, sum(total) + 2))]
        case["script"] = script
        return case

    def generate(self, rng, tier):
        r = rng.below(1000)
        if 40 <= r < 65:
            return self.gen_overlap(rng)
        if r < (9 if tier == "quick" else 3):
            k = rng.below(10)
            return self.gen_history(rng, "real") if k < 3 else self.gen_long(rng, "real") if k < 5 else self.gen_real(rng)
        if r >= 850:
            return self.gen_history(rng) if r >= 925 else self.gen_long(rng)
        if r >= 800:
            return self.gen_fault(rng)
        if r >= 740:
            return self.gen_readwait(rng, "real" if (r == 740 and tier == "quick") else "sched")
        if r >= 715:
            return self.gen_keywait(rng)            # phase 5: crash x read_wait
        if r < (13 if tier == "quick" else 20):
            return self.gen_dfs(rng, tier)
        if r < 40:
            return self.gen_probe(rng)
        return self.gen_case(rng, tier)

    def gen_real(self, rng):
        c = self.gen_case(rng, "quick", "real")
        c["n"] = rng.choice([1, 2, 2, 3])
        c["m"] = rng.choice([0, 0, 1, 2])
        c["items"] = c["items"][:6]
        for it in c["items"]:
            it["outs"] = it["outs"][:2] if it["gen"] else it["outs"]
        if c["abandon"] is not None:
            c["abandon"] = min(c["abandon"], max(1, len(expected_outs(c))))
        c.pop("sched", None)
        return c

    def gen_probe(self, rng):
        """inputs around the two recorded defects: a `None` output, errors of the types QueueSink.write swallows"""
        c = self.gen_case(rng, "quick")
        c["abandon"] = None
        for it in c["items"]:
            it["err"] = None
            if not it["gen"] and not it["outs"]:
                it["outs"] = [7]
        if not c["items"]:
            c["items"] = [{"outs": [0], "err": None, "gen": True}]
        if rng.chance(0.5):
            it = rng.choice(c["items"])
            if it["gen"]:
                it["outs"] = it["outs"][:1] + [None] + it["outs"][1:]
            else:
                it["outs"] = [None]
        else:
            self.add_errors(rng, c["items"], [rng.choice(list(SWALLOWED))])
        return c

    def gen_dfs(self, rng, tier):
        n = rng.choice([1, 2, 2])
        m = rng.choice([0, 1, 1, 2])
        if n == 1 and m == 0:
            m = 1
        cnt = rng.randint(1, 3)
        items = [{"outs": [i] if rng.chance(0.7) else [], "err": None, "gen": True} for i in range(cnt)]
        if rng.chance(0.4):
            items[rng.below(cnt)]["err"] = "ValueError"
        c = {"mode": "dfs", "n": n, "m": m, "items": items, "abandon": None, "budget": 40 if tier == "quick" else 400,
             "depth": rng.choice([8, 12, 16]), "skip": rng.randint(0, 20)}
        if rng.chance(0.2):
            c["abandon"] = 1
        return c

    def search(self, rng, tier):
        # B-only search: small configurations, many schedules, biased policies
        r = rng.below(100)
        if r < 15:
            return self.gen_history(rng)
        if r < 30:
            return self.gen_long(rng)
        if r < 38:
            return self.gen_overlap(rng)        # phase 6: calls alive at the same time on one object
        c = self.gen_case(rng, tier)
        if rng.chance(0.5):
            c["n"] = rng.choice([1, 2, 2, 3])
            c["items"] = c["items"][: rng.randint(1, 6)]
        c.pop("wrap", None)
        if rng.chance(0.15):
            return self.gen_probe(rng)
        return c

    def corpus(self):
        cs = []
        P = lambda name: {"seed": 1, "policy": dict(POLICIES[name], name=name)}
        one = lambda v: {"outs": [v], "err": None, "gen": False}
        # boundary: fewer items than processes, exact multiples of m, m=1, empty
        for n, m, cnt in ((1, 0, 3), (1, 1, 1), (1, 1, 3), (2, 0, 1), (4, 0, 2), (2, 2, 4), (2, 2, 5), (3, 1, 3), (2, 3, 6), (4, 3, 10), (2, 0, 0), (1, 2, 2)):
            for pol in ("uniform", "workers-first", "callbacks-late", "loader-fast", "caller-slow"):
                cs.append({"mode": "sched", "n": n, "m": m, "items": [one(i) for i in range(cnt)], "abandon": None, "sched": P(pol)})
        # phase 4: read_wait=True (keys in the out-queue; the worker side of it only runs with real processes) and killed workers
        for n, m, cnt in ((2, 0, 4), (1, 2, 4), (2, 1, 3), (3, 2, 7)):
            for pol in ("uniform", "callbacks-eager", "caller-slow"):
                cs.append({"mode": "sched", "n": n, "m": m, "items": [one(i) for i in range(cnt)], "abandon": None, "read_wait": True, "sched": P(pol)})
            cs.append({"mode": "sched", "n": n, "m": m, "items": [{"outs": [i], "err": ("ValueError" if i == 1 else None), "gen": True} for i in range(cnt)],
                       "abandon": None, "read_wait": True, "sched": P("uniform")})
            cs.append({"mode": "sched", "n": n, "m": m, "items": [one(i) for i in range(cnt)], "abandon": 2, "read_wait": True, "sched": P("workers-first")})
        cs.append({"mode": "real", "n": 2, "m": 0, "items": [one(i) for i in range(4)], "abandon": None, "read_wait": True})
        cs.append({"mode": "real", "n": 2, "m": 1, "items": [{"outs": [i], "err": ("ValueError" if i == 2 else None), "gen": True} for i in range(4)], "abandon": None, "read_wait": True})
        for n, m, k in ((2, 1, 0), (1, 1, 0), (3, 0, 2), (2, 2, 3), (1, 3, 1)):
            for pol in ("uniform", "callbacks-eager", "caller-slow", "workers-first"):
                cs.append({"mode": "sched", "n": n, "m": m, "items": [one(i) for i in range(5)], "abandon": None, "kill": k, "sched": P(pol)})
        # the closed Lean witnesses exactly_once_faults_counterexample (n=2, m=0, items -> [1], [2], the process holding the first item dies: `ok [2]`)
        # and crash_before_event_skips_counterexample (n=2, m=1, one item, the crash's callback runs before the caller wakes up: `ok []`), on the real code
        cs.append({"mode": "sched", "n": 2, "m": 0, "items": [one(1), one(2)], "abandon": None, "kill": 0, "sched": P("uniform")})
        for pol in ("caller-slow", "callbacks-eager"):
            cs.append({"mode": "sched", "n": 2, "m": 1, "items": [one(1)], "abandon": None, "kill": 0, "sched": P(pol)})
        # phase 5: crash x read_wait — the k-th process that begins to wait for the caller dies while waiting (n=1, m=1 one item = the Lean `example` beside never_duplicated_rf)
        for pol in ("uniform", "caller-slow", "workers-first", "callbacks-eager"):
            cs.append({"mode": "sched", "n": 1, "m": 1, "items": [one(1)], "abandon": None, "read_wait": True, "kill_wait": [0], "sched": P(pol)})
            cs.append({"mode": "sched", "n": 1, "m": 1, "items": [one(i) for i in range(3)], "abandon": None, "read_wait": True, "kill_wait": [0], "sched": P(pol)})
            cs.append({"mode": "sched", "n": 2, "m": 1, "items": [one(i) for i in range(5)], "abandon": None, "read_wait": True, "kill_wait": [1], "sched": P(pol)})
            cs.append({"mode": "sched", "n": 2, "m": 0, "items": [{"outs": [i], "err": ("ValueError" if i == 1 else None), "gen": True} for i in range(4)],
                       "abandon": None, "read_wait": True, "kill_wait": [0], "sched": P(pol)})
            cs.append({"mode": "sched", "n": 3, "m": 2, "items": [one(i) for i in range(7)], "abandon": None, "read_wait": True, "kill_wait": [0, 2], "sched": P(pol)})
        # phase 5: crash_strands_items_counterexample (n=1, m=2, two items, the only process dies holding the first: `ok []`, the queued item is stranded) and
        # more single-process / late-crash shapes for the fault invariant (deadlock_free_faults, never_duplicated_faults evaluated on every state)
        for pol in ("uniform", "caller-slow", "workers-first", "loader-fast"):
            # a process that dies before run(): the first one (the callback sets `_main_err` and the event: the caller starts nothing else and returns `[]`), a later one, a replacement
            cs.append({"mode": "sched", "n": 2, "m": 0, "items": [one(i) for i in range(4)], "abandon": None, "kill": None, "kill_spawn": [0], "sched": P(pol)})
            cs.append({"mode": "sched", "n": 3, "m": 0, "items": [one(i) for i in range(5)], "abandon": None, "kill": None, "kill_spawn": [1], "sched": P(pol)})
            cs.append({"mode": "sched", "n": 2, "m": 1, "items": [one(i) for i in range(5)], "abandon": None, "kill": None, "kill_spawn": [3], "sched": P(pol)})
            cs.append({"mode": "sched", "n": 1, "m": 1, "items": [one(i) for i in range(3)], "abandon": None, "kill": None, "kill_spawn": [1], "sched": P(pol)})
            cs.append({"mode": "sched", "n": 2, "m": 2, "items": [one(i) for i in range(6)], "abandon": None, "kill": 4, "kill_spawn": [0, 2], "sched": P(pol)})
            cs.append({"mode": "sched", "n": 1, "m": 2, "items": [one(1), one(2)], "abandon": None, "kill": 0, "sched": P(pol)})
            cs.append({"mode": "sched", "n": 1, "m": 1, "items": [one(i) for i in range(3)], "abandon": None, "kill": 1, "sched": P(pol)})
            cs.append({"mode": "sched", "n": 3, "m": 1, "items": [{"outs": [i, i], "err": None, "gen": True} for i in range(6)], "abandon": None, "kill": 4, "sched": P(pol)})
        # errors: first / last / every item; error while the loader is blocked on a full in_queue
        for n, m in ((1, 1), (2, 0), (2, 1), (3, 2)):
            for bad in ([0], [5], [0, 1, 2, 3, 4, 5], [2, 3]):
                items = [{"outs": [i], "err": ("ValueError" if i in bad else None), "gen": True} for i in range(6)]
                for pol in ("uniform", "loader-fast", "callbacks-late"):
                    cs.append({"mode": "sched", "n": n, "m": m, "items": items, "abandon": None, "sched": P(pol)})
        # abandon
        for n, m, k in ((2, 0, 1), (2, 1, 2), (1, 1, 1), (3, 2, 3), (1, 0, 1)):
            cs.append({"mode": "sched", "n": n, "m": m, "items": [one(i) for i in range(6)], "abandon": k, "sched": P("uniform")})
        # wrapper
        cs.append({"mode": "sched", "n": 2, "m": 1, "items": [one(i) for i in range(4)], "abandon": None, "wrap": True, "sched": P("uniform")})
        # complete (up to commutation) enumeration of a tiny configuration by sleep sets
        cs.append({"mode": "dfs", "por": True, "n": 1, "m": 1, "items": [one(0)], "abandon": None, "budget": 400})
        # exhaustive small scopes
        cs.append({"mode": "dfs", "n": 1, "m": 1, "items": [one(0)], "abandon": None, "budget": 60, "depth": 30, "skip": 0})
        cs.append({"mode": "dfs", "n": 2, "m": 1, "items": [{"outs": [0], "err": "ValueError", "gen": True}, one(1)], "abandon": None, "budget": 40, "depth": 10, "skip": 0})
        # long stream, early error: every worker is gone while the loader is parked on the full in_queue
        for n, m, cnt, bad in ((1, 5, 40, 3), (1, 0, 12, 0), (2, 1, 30, 1), (2, 3, 50, 4)):
            items = [{"outs": [i % 5], "err": ("ValueError" if i == bad or (n > 1 and i == bad + 1) else None), "gen": True} for i in range(cnt)]
            for pol in ("uniform", "loader-fast", "callbacks-eager"):
                cs.append({"mode": "sched", "n": n, "m": m, "items": items, "abandon": None, "sched": P(pol)})
        cs.append({"mode": "sched", "n": 1, "m": 2, "items": [one(i) for i in range(30)], "abandon": 1, "sched": P("loader-fast")})
        # the same object used again: raising call, then a fine one (and with m>0: retired workers must still be replaced)
        bad3 = [{"outs": [i], "err": ("ValueError" if i == 1 else None), "gen": True} for i in range(3)]
        fine4 = [{"outs": [i], "err": None, "gen": True} for i in range(4)]
        for n, m in ((1, 1), (2, 0), (2, 2), (3, 1)):
            cs.append({"mode": "sched", "n": n, "m": m, "items": [], "abandon": None, "sched": P("uniform"),
                       "history": [{"items": bad3, "abandon": None}, {"items": fine4, "abandon": None}]})
        cs.append({"mode": "sched", "n": 2, "m": 1, "items": [], "abandon": None, "sched": P("uniform"),
                   "history": [{"items": fine4, "abandon": 2}, {"items": bad3, "abandon": None}, {"items": fine4, "abandon": None}]})
        cs.append({"mode": "real", "n": 2, "m": 1, "items": [], "abandon": None,
                   "history": [{"items": bad3, "abandon": None}, {"items": fine4, "abandon": None}]})
        # phase 6: the calls of a history ALIVE AT THE SAME TIME on one object (`script` = whose generator the caller pulls next): a sibling is read
        # while the first call is open / after it was abandoned / after it raised; every call must deliver its own outputs exactly once
        for n, m in ((2, 0), (1, 1), (2, 1), (3, 2), (1, 0)):
            for pol in ("uniform", "callbacks-eager"):
                cs.append({"mode": "sched", "n": n, "m": m, "items": [], "abandon": None, "sched": P(pol), "script": [0, 1, 0, 1, 0, 1],
                           "history": [{"items": fine4, "abandon": None}, {"items": fine4, "abandon": None}]})
                cs.append({"mode": "sched", "n": n, "m": m, "items": [], "abandon": None, "sched": P(pol), "script": [1, 0, 1],
                           "history": [{"items": fine4, "abandon": 1}, {"items": fine4, "abandon": None}]})
                cs.append({"mode": "sched", "n": n, "m": m, "items": [], "abandon": None, "sched": P(pol), "script": [1, 0, 1],
                           "history": [{"items": bad3, "abandon": None}, {"items": fine4, "abandon": None}]})
            cs.append({"mode": "sched", "n": n, "m": m, "items": [], "abandon": None, "sched": P("loader-fast"), "script": [0, 1, 2, 0, 2, 1],
                       "history": [{"items": fine4, "abandon": None}, {"items": fine4, "abandon": 1}, {"items": bad3, "abandon": None}]})
            cs.append({"mode": "sched", "n": n, "m": m, "items": [], "abandon": None, "sched": P("caller-slow"), "script": [0, 1, 0],
                       "history": [{"items": fine4, "abandon": 2}, {"items": fine4, "abandon": 1}]})
        cs.append({"mode": "real", "n": 1, "m": 5, "abandon": None,
                   "items": [{"outs": [i % 5], "err": ("ValueError" if i == 3 else None), "gen": True} for i in range(40)]})
        # an item that cannot be pickled: the loader thread dies, its callback records the CobaException and still writes the pills
        for n, m, bad in ((2, 0, 0), (2, 0, 3), (1, 2, 2), (3, 1, 5)):
            items = [dict(one(i), unpick=(i == bad)) for i in range(6)]
            for pol in ("uniform", "loader-slow"):
                cs.append({"mode": "sched", "n": n, "m": m, "items": items, "abandon": None, "sched": P(pol)})
        cs.append({"mode": "real", "n": 2, "m": 1, "items": [dict(one(i), unpick=(i == 2)) for i in range(5)], "abandon": None})
        # a worker process is killed while it handles an item (SIGKILL / OOM): recorded finding C08-F5
        for n, m, k in ((2, 0, 1), (1, 2, 1), (2, 1, 0)):
            cs.append({"mode": "sched", "n": n, "m": m, "items": [one(i) for i in range(4)], "abandon": None, "kill": k, "sched": P("uniform")})
        # falsy values at the head of the stream, and the empty stream, through Multiprocessor and through CobaMultiprocessor
        gone = lambda v: {"outs": [v], "err": None, "gen": True}
        for n, m in ((1, 0), (2, 0), (1, 2)):
            for wrap in (False, True):
                for head in ("None", "''", "[]", "False", "0"):
                    c = {"mode": "sched", "n": n, "m": m, "items": [gone(i) for i in range(3)], "abandon": None, "head": head, "sched": P("uniform")}
                    if wrap:
                        c["wrap"] = True
                    cs.append(c)
                c = {"mode": "sched", "n": n, "m": m, "items": [], "abandon": None, "iter": True, "sched": P("uniform")}
                if wrap:
                    c["wrap"] = True
                cs.append(c)
        cs.append({"mode": "real", "n": 2, "m": 0, "items": [gone(i) for i in range(3)], "abandon": None, "head": "None", "wrap": True})
        cs.append({"mode": "real", "n": 1, "m": 0, "items": [gone(i) for i in range(3)], "abandon": None, "head": "None", "wrap": True, "iter": True})
        # a stream that re-yields one mutable buffer; the filter's own AttributeError (also worded like pickle's lookup error)
        for n, m in ((1, 0), (2, 0), (1, 2), (3, 1)):
            cs.append({"mode": "sched", "n": n, "m": m, "items": [one(i) for i in range(6)], "abandon": None, "buffer": True, "sched": P("uniform")})
            for kind in ("AttributeError", "AttributeErrorFrom", "AttributeErrorNatural"):
                items = [{"outs": ([] if i == 2 else [i]), "err": (kind if i == 2 else None), "gen": False} for i in range(5)]
                cs.append({"mode": "sched", "n": n, "m": m, "items": items, "abandon": None, "sched": P("uniform")})
        cs.append({"mode": "real", "n": 2, "m": 1, "items": [one(i) for i in range(5)], "abandon": None, "buffer": True})
        cs.append({"mode": "real", "n": 2, "m": 0, "abandon": None,
                   "items": [{"outs": ([] if i == 1 else [i]), "err": ("AttributeError" if i == 1 else None), "gen": False} for i in range(4)]})
        # StopIteration from a plain (non-generator) and from a generator filter: the call must raise (in-process and multi-process)
        for n, m in ((1, 0), (2, 0), (1, 2), (3, 1)):
            for g in (False, True):
                items = [{"outs": ([] if (i == 2 and not g) else [i]), "err": ("StopIteration" if i == 2 else None), "gen": g} for i in range(6)]
                cs.append({"mode": "sched", "n": n, "m": m, "items": items, "abandon": None, "sched": P("uniform")})
        cs.append({"mode": "real", "n": 2, "m": 0, "abandon": None,
                   "items": [{"outs": ([] if i == 2 else [i]), "err": ("StopIteration" if i == 2 else None), "gen": False} for i in range(5)]})
        # a slow item keeps the bounded in_queue full for > 5 s: nothing may be given up on meanwhile
        cs.append({"mode": "real", "n": 1, "m": 5, "abandon": None,
                   "items": [{"outs": [i], "err": None, "gen": False, "sleep": (6.5 if i == 0 else 0)} for i in range(8)]})
        # real processes
        cs.append({"mode": "real", "n": 2, "m": 1, "items": [one(i) for i in range(3)], "abandon": None})
        cs.append({"mode": "real", "n": 2, "m": 0, "items": [{"outs": [i, i], "err": ("C08Error" if i == 1 else None), "gen": True} for i in range(3)], "abandon": None})
        cs.append({"mode": "real", "n": 1, "m": 2, "items": [one(i) for i in range(4)], "abandon": 2, "wrap": True})
        return cs

    def exhaustive(self, tier):
        """complete enumeration (bounded only by the budget, which is not reached: tag `dfs:complete`) of ALL schedules of the
        smallest configurations: every interleaving of loader, one worker lineage incl. its replacement, callbacks and caller"""
        one = lambda v: {"outs": [v], "err": None, "gen": False}
        cfgs = [(1, 1, [one(0)]), (1, 2, [one(0)]), (1, 1, [{"outs": [], "err": "ValueError", "gen": False}]),
                (1, 1, [{"outs": [], "err": None, "gen": True}])]
        plain = [{"mode": "dfs", "n": n, "m": m, "items": items, "abandon": None, "budget": 8000, "depth": 400, "skip": 0} for n, m, items in cfgs]
        # sleep-set enumeration (complete up to commutation of independent steps, theorem step_comm): beyond n=1 / one item
        bad = {"outs": [], "err": "ValueError", "gen": False}
        por = [(1, 1, [one(0)]), (1, 1, [one(0), one(1)]), (1, 2, [one(0), one(1)]), (2, 0, [one(0)]), (2, 1, [one(0)]), (2, 1, [bad]),
               (1, 1, [bad, one(1)]), (2, 0, [one(0), one(1)]), (2, 1, [one(0), one(1)]), (2, 1, [bad, one(1)])]
        small = [{"mode": "dfs", "por": True, "n": n, "m": m, "items": items, "abandon": None, "budget": 60000, "wall": 240} for n, m, items in por[:7]]
        # n=2, m=0, two items: ~25 000 schedule classes, split into subtrees that run on all workers (complete);
        # n=2, m=1 with two items: one wall-limited case each (the restarts multiply the classes: not complete in the time allowed)
        big = self.por_roots({"mode": "dfs", "por": True, "n": 2, "m": 0, "items": [one(0), one(1)], "abandon": None, "budget": 60000, "wall": 200}, want=48)
        big += [{"mode": "dfs", "por": True, "n": n, "m": m, "items": items, "abandon": None, "budget": 60000, "wall": 200} for n, m, items in por[8:]]
        # phase 4: with the larger independence table (indep2: wPut–cGet, loadPut–wGet; theorem step_comm2) n=2, m=1 with two items is COMPLETE
        # (52 122 schedule classes unsplit); split into subtrees like the m=0 case, fine/fine and raising/fine
        for items in ([one(0), one(1)], [bad, one(1)]):
            big += self.por_roots({"mode": "dfs", "por": True, "n": 2, "m": 1, "items": items, "abandon": None, "budget": 200000, "wall": 400}, want=64)
        return big + small + plain

    # ---- evaluation
    def evaluate(self, case, driver):
        mode = case.get("mode", "sched")
        if mode == "dfs":
            return self.evaluate_dfs(case, driver)
        if case.get("history"):
            return self.evaluate_history(case, driver, mode)
        if mode == "real":
            run = run_real(case)
            if run["outcome"]["kind"] == "hang":        # an overloaded machine is not a hang: once more, generously
                run = run_real(case, timeout=150.0)
        else:
            run = run_scheduled(case)
        return self.verdict(case, run, driver, mode)

    def verdict(self, case, run, driver, mode):
        fails = judge(case, run)
        model = None
        ftags = []
        if driver is not None and not fails and mode != "real" and not killed(case) and case.get("read_wait") and not inprocess(case) and case["items"] and case.get("abandon") != 0:
            afails, model = correspond_readwait(case, run, driver)
            fails += afails
        elif driver is not None and not fails and mode != "real" and not killed(case):
            afails, model = correspond(case, run, driver)
            fails += afails
        elif (driver is not None and mode != "real" and case.get("kill_wait") is not None and case.get("read_wait") and not inprocess(case)
              and all(f["sig"] == "worker-killed-item-lost" for f in fails)):
            afails, model = correspond_rf(case, run, driver)
            fails += afails
            if model is not None and model.get("fail") is None:
                ftags = ["fault:keywait:replayed", "fault:keywait:%s" % ("crashed" if any(a["a"] == "wKilledKey" for a in run["trace"]) else "caller-was-first")]
                if model.get("skipped"):
                    ftags.append("fault:keywait:caller-skipped")
        elif (driver is not None and mode != "real" and killed(case) and not inprocess(case)
              and all(f["sig"] == "worker-killed-item-lost" for f in fails)):
            # phase 4: killed-worker runs are replayed through the fault extension of the model (the recorded finding C08-F5 is what the model predicts)
            afails, model = correspond_faults(case, run, driver)
            fails += afails
            if model is not None and model.get("fail") is None:
                ftags = ["fault:replayed"] + (["fault:caller-skipped"] if model.get("skipped") else []) + (["fault:lost-outputs"] if model.get("lost_outs") else ["fault:nothing-lost"])
                # phase 5: the driver evaluated `faultInvOk` (not done ⇒ a step of the code enabled; delivered + lost ≤ all) on every state of the replay
                ftags.append("fault:inv-checked:%s" % ("stuck-and-done" if model.get("stuck") else "done-background-still-enabled" if model.get("done") else "not-done"))
        rs = raising(case)
        ni = len(case["items"])
        tags = ["mode:" + mode, "n:%d" % case["n"], "m:%d" % case["m"], "items:%s" % (ni if ni <= 10 else "11-25" if ni <= 25 else "26-50"),
                "outcome:" + run["outcome"]["kind"], "errs:%s" % ("0" if not rs else "1" if len(rs) == 1 else "2+")]
        if inprocess(case):
            tags.append("path:in-process")
        if case.get("wrap"):
            tags.append("wrap:CobaMultiprocessor")
        if case.get("abandon") is not None:
            tags.append("abandon:%s" % ("0" if case["abandon"] == 0 else "k"))
        if case["items"] and len(case["items"]) < case["n"]:
            tags.append("shape:fewer-items-than-processes")
        if case["m"] > 0 and case["items"] and len(case["items"]) % case["m"] == 0:
            tags.append("shape:multiple-of-m")
        if run.get("leaked") is not None:
            tags.append("leaked-processes:%s:%s" % (run["outcome"]["kind"], "0" if run["leaked"] == 0 else "1+"))
        if case.get("read_wait"):
            names_ = [a["a"] for a in (run.get("trace") or [])]
            tags.append("read_wait:%s" % mode)
            if "wKey" in names_:
                tags.append("read_wait:keys:%s" % ("1" if names_.count("wKey") == 1 else "2-3" if names_.count("wKey") <= 3 else "4+"))
            if "drainKey" in names_:
                tags.append("read_wait:key-drained")
            if "wKey" in names_ and names_.count("wKey") > names_.count("cKey") + names_.count("drainKey"):
                tags.append("read_wait:process-left-waiting")
        if killed(case):
            tags.append("fault:worker-killed")
            tags += ftags
            for a in (run.get("trace") or []):
                if a["a"] == "wKilled" and a.get("spawned"):
                    tags.append("fault:spawn-crash:%s" % ("first-process" if a["w"] == 0 and "mEvent" not in [b["a"] for b in run["trace"][:run["trace"].index(a)]] else "later-process"))
            if any(a["a"] == "wKilled" for a in (run.get("trace") or [])):
                tags.append("fault:killed:m=%s" % ("0" if case["m"] == 0 else "1" if case["m"] == 1 else "2+"))
        if case.get("head") and case["items"]:
            tags.append("head:%s:%s" % (case["head"], "wrap" if case.get("wrap") else "plain"))
        if case.get("buffer"):
            tags.append("stream:reused-buffer")
        if unpicklable(case):
            tags.append("err:unpicklable-item")
        if has_none(case):
            tags.append("probe:none-output")
        for i in rs:
            tags.append("err:%s:%s" % (case["items"][i]["err"], "gen" if case["items"][i].get("gen", True) else "plain"))
        if any(case["items"][i]["err"] in SWALLOWED for i in rs):
            tags.append("probe:swallowed-error-type")
        if ni > 2 * case["n"] + 4 and (rs and rs[0] <= 5 or (case.get("abandon") or 99) <= 3):
            tags.append("shape:long-stream-early-stop")
        if mode == "sched":
            tags.append("policy:" + ((case.get("sched") or {}).get("policy") or {}).get("name", "uniform").split("+")[0])
            tags += trace_tags(case, run)
        nontrivial = mode == "real" or (len(case["items"]) >= 2 and len(run["trace"] or []) >= 12)
        impl = {"outs": run["outs"], "outcome": run["outcome"], "calls": run["calls"], "leaked_processes": run.get("leaked"), "trace_len": len(run["trace"] or []),
                "trace": (run["trace"] or [])[:400]}
        return {"fails": fails, "nontrivial": nontrivial, "tags": tags, "impl": impl,
                "model": None if model is None else {k: model.get(k) for k in ("outcome", "steps", "done", "mu0", "outs", "err")}}

    def evaluate_history(self, case, driver, mode):
        """consecutive calls on one Multiprocessor object: every call must satisfy the property on its own, and (A) replays
        each call's trace from the model's `init` (the per-call state `_n_procs`, `_exceptions`, … starts afresh)"""
        cs = calls_of(case)
        if mode == "real":
            runs = run_real(case)["runs"]
            if runs and runs[-1]["outcome"]["kind"] == "hang":
                runs = run_real(case, timeout=150.0)["runs"]
        elif case.get("script") is not None:
            runs = run_overlap_scheduled(case)          # phase 6: the calls are alive at the same time
        else:
            runs = run_history_scheduled(case)
        agg = {"fails": [], "nontrivial": False, "tags": [], "impl": [], "model": []}
        kinds = []
        for c, run in zip(cs, runs):
            out = self.verdict(c, run, driver, mode)
            prev_abandoned = any(cc.get("abandon") is not None for cc in cs[:c.get("call", 0)])
            if prev_abandoned and run.get("stale") and any(f["kind"] in ("A", "B") for f in out["fails"]):
                # the one cross-call interference of the real code: a worker left behind by an ABANDONED call ended (by an
                # error or a pill) during this call and its callback changed the shared self._n_procs / self._exceptions
                out["fails"] = [dict(f, sig="stale-callback-after-abandon", what="after an abandoned call on the same object, a left-over "
                                     "worker's callback ran during the next call (%s): " % json.dumps(run["stale"][:2]) + f["what"])
                                if f["kind"] == "B" else
                                dict(f, kind="B", sig="stale-callback-after-abandon", what="after an abandoned call on the same object, a left-over "
                                     "worker's callback changed self._n_procs/_exceptions of the next call (%s); this time the call still ended, "
                                     "under other schedules it hangs: " % json.dumps(run["stale"][:2]) + f["what"]) if f["kind"] == "A" else f
                                for f in out["fails"]]
                agg["tags"].append("ev:stale-callback-after-abandon")
            elif run.get("stale"):
                agg["tags"].append("ev:stale-callback-harmless")
            agg["fails"] += out["fails"]
            agg["nontrivial"] = agg["nontrivial"] or out["nontrivial"]
            agg["tags"] += [t for t in out["tags"] if t.startswith(("ev:", "outcome:"))]
            agg["impl"].append(out["impl"])
            agg["model"].append(out["model"])
            kinds.append("abandon" if c.get("abandon") is not None else "raise" if raising(c) else "fine")
            if out["fails"]:
                break
        agg["tags"] = sorted(set(agg["tags"])) + ["mode:" + mode, "n:%d" % case["n"], "m:%d" % case["m"], "history:%d" % len(cs),
                                                   "hist:" + ">".join(kinds[:2])]
        if case.get("script") is not None:
            sw = sum(1 for a, b in zip(case["script"], case["script"][1:]) if a != b)
            agg["tags"] += ["overlap:calls-alive-together", "overlap:%d-calls" % len(cs), "overlap:switches:%s" % ("0" if sw == 0 else "1-2" if sw <= 2 else "3+"),
                            "overlap:kinds:" + "+".join(sorted(kinds))]
            if driver is not None and not agg["fails"] and mode != "real":
                agg["fails"] += correspond_overlap(case, cs, runs, driver)
        if case.get("wrap"):
            agg["tags"].append("wrap:CobaMultiprocessor")
        return agg

    def por_roots(self, case, want=24, maxdepth=12):
        """split ONE sleep-set enumeration into subtrees that run as separate cases (on all workers): a subtree = the choices
        imposed at the first scheduling points + the sleep set the sequential enumeration would have at its root (siblings
        explored earlier whose pending segment is independent of everything executed since).  Same total work, same coverage."""
        from props import c08_sched as S
        base = dict(case, mode="sched", sched={"det": True})

        def probe(r, sleep):
            frames = []
            run_scheduled(base, chooser=S.PorChooser(frames, r, sleep))
            return frames

        nodes, leaves = [([], {})], []
        while nodes and len(nodes) + len(leaves) < want:
            r, sleep = nodes.pop(0)
            if len(r) >= maxdepth:
                leaves.append((r, sleep))
                continue
            frames = probe(r, sleep)
            if len(frames) <= len(r):
                leaves.append((r, sleep))          # the schedule ends at this point
                continue
            names = frames[len(r)]["runnable"]
            done = {}
            for nm in names:
                if nm in sleep:
                    continue
                fr2 = probe(r + [nm], {})
                seg = (fr2[len(r)]["seg"] or []) if len(fr2) > len(r) else []
                cand = dict(sleep)
                cand.update(done)
                child_sleep = {u: sg for u, sg in cand.items() if S.seg_indep(sg, seg)}
                nodes.append((r + [nm], child_sleep))
                done[nm] = seg
        return [dict(case, root=r, root_sleep=sl) for r, sl in leaves + nodes]

    def evaluate_por(self, case, driver):
        """COMPLETE enumeration of the schedules of one configuration up to commutation of independent steps: stateless DFS
        with sleep sets over the independence table `Coba.C08.indep` (sound by theorem `step_comm` / `swap_adjacent`: every
        schedule is equivalent, by swapping adjacent independent steps, to an enumerated one and reaches the same state)"""
        from props import c08_sched as S
        budget = case.get("budget", 2000)
        base = dict(case, mode="sched", sched={"det": True})
        frames, runs, pruned, complete, agg, pairs = [], 0, 0, False, None, []
        import time as _t
        t_end = _t.time() + case.get("wall", 240)
        forced = list(case.get("root") or [])
        while runs < budget and _t.time() < t_end:
            ch = S.PorChooser(frames, forced, case.get("root_sleep"))
            run = run_scheduled(base, chooser=ch)
            runs += 1
            for pr in ch.pairs:
                if len(pairs) < 150:
                    pairs.append(pr)
            if ch.pruned:
                pruned += 1
            else:
                out = self.verdict(base, run, driver, "sched")
                if agg is None or out["fails"]:
                    agg = out
                if out["fails"]:
                    sched_desc = [f["chosen"] for f in frames][:60]
                    out["fails"] = [dict(f, what=f["what"] + " [schedule %s]" % sched_desc) for f in out["fails"]]
                    break
            while len(frames) > len(forced):
                fr = frames[-1]
                if fr["chosen"] is not None:
                    fr["done"][fr["chosen"]] = fr["seg"] or []
                free = [nm for nm in fr["runnable"] if nm not in fr["done"] and nm not in fr["sleep"]]
                if free:
                    fr["chosen"], fr["seg"] = free[0], None
                    break
                frames.pop()
            if len(frames) <= len(forced):
                complete = True           # the whole (sub)tree below the imposed root has been enumerated
                break
        if agg is None:
            agg = {"fails": [], "tags": [], "impl": {}, "model": None}
        if driver is not None and pairs and not agg["fails"]:
            strip = lambda a: {k: v for k, v in a.items() if k in ("a", "w")}
            ans = driver.ask({"op": "indep", "cfg": model_cfg(base), "pairs": [[strip(a), strip(b)] for a, b, _ in pairs]})
            bad = [(a["a"], b["a"]) for (a, b, r), m_ in zip(pairs, ans["indep2" if S.USE_INDEP2 else "indep"]) if bool(r) != bool(m_)]
            if bad:
                agg["fails"].append(F("A", "the harness' independence table differs from Coba.C08.indep2 on %s" % bad[:5], "A:indep-table"))
        agg["tags"] = [t for t in agg["tags"] if not t.startswith("mode:")] + [
            "mode:por", "por:runs:%s" % ("<100" if runs < 100 else "<1000" if runs < 1000 else "<10000" if runs < 10000 else "10000+")] + (
            ["por:complete"] if complete else ["por:stopped-at-failure"] if agg["fails"] else ["por:budget-exhausted"])
        agg["nontrivial"] = True
        agg.setdefault("impl", {}).update({"por_runs": runs, "por_pruned": pruned, "por_complete": complete})
        return agg

    def evaluate_dfs(self, case, driver):
        """bounded depth-first enumeration of the schedules of one small configuration"""
        if case.get("por"):
            return self.evaluate_por(case, driver)
        budget, depth = case.get("budget", 40), case.get("depth", 12)
        prefix = []
        runs = 0
        complete = False
        deepest = 0
        agg = None
        skip = case.get("skip", 0)
        base = dict(case, mode="sched", sched={"det": True})
        # `skip` rotates the starting point so that different cases cover different parts of the tree
        if skip:
            prefix = [skip % 2, (skip // 2) % 2, (skip // 4) % 3]
        while runs < budget:
            run = run_scheduled(base, prefix=prefix)
            runs += 1
            out = self.verdict(base, run, driver, "sched")
            if agg is None:
                agg = out
            if out["fails"]:
                out["fails"] = [dict(f, what=f["what"] + " [schedule prefix %s]" % prefix) for f in out["fails"]]
                agg = out
                break
            deepest = max(deepest, len(run["choices"]))
            ch = [c for c in run["choices"]][:depth]
            j = len(ch) - 1
            while j >= 0 and ch[j][0] + 1 >= ch[j][1]:
                j -= 1
            if j < 0:
                complete = True
                break
            prefix = [c[0] for c in ch[:j]] + [ch[j][0] + 1]
        agg["tags"] = [t for t in agg["tags"] if not t.startswith("mode:")] + ["mode:dfs", "dfs:runs:%s" % ("<50" if runs < 50 else "<400" if runs < 400 else "400+")] + (
            ["dfs:complete" if deepest <= depth and not skip else "dfs:complete-to-depth"] if complete else [])
        agg["nontrivial"] = True
        agg.setdefault("impl", {})["dfs_runs"] = runs
        return agg

    # ---- shrinking
    def shrink(self, case):
        if case.get("mode") == "real":
            return                      # a hanging real-process run costs a full time-out per candidate
        hist = case.get("history")
        if hist:
            if len(hist) > 1:
                for k in range(len(hist)):
                    yield dict(case, history=hist[:k] + hist[k + 1:])
            else:
                yield dict({kk: v for kk, v in case.items() if kk != "history"}, items=hist[0]["items"], abandon=hist[0].get("abandon"))
            for k, h in enumerate(hist):
                for j in range(len(h["items"])):
                    h2 = dict(h, items=h["items"][:j] + h["items"][j + 1:])
                    if h2.get("abandon") is not None:
                        h2["abandon"] = min(h2["abandon"], max(1, sum(len(it["outs"]) for it in h2["items"])))
                    yield dict(case, history=hist[:k] + [h2] + hist[k + 1:])
            if case["n"] > 1:
                yield dict(case, n=case["n"] - 1)
            if case["m"] > 1:
                yield dict(case, m=case["m"] - 1)
            return
        items = case["items"]
        for k in range(len(items)):
            c = dict(case, items=items[:k] + items[k + 1:])
            if c.get("abandon") is not None:
                c["abandon"] = min(c["abandon"], max(0, len(expected_outs(c))))
            yield c
        if case["n"] > 1:
            yield dict(case, n=case["n"] - 1)
        if case["m"] > 1:
            yield dict(case, m=case["m"] - 1)
        if case.get("wrap"):
            yield {k: v for k, v in case.items() if k != "wrap"}
        if case.get("iter"):
            yield {k: v for k, v in case.items() if k != "iter"}
        if case.get("buffer"):
            yield {k: v for k, v in case.items() if k != "buffer"}
        if case.get("head") and case["head"] != "None":
            yield dict(case, head="None")
        for k, it in enumerate(items):
            if len(it["outs"]) > 1 and it.get("gen", True):
                yield dict(case, items=items[:k] + [dict(it, outs=it["outs"][:-1])] + items[k + 1:])
            if it.get("err") and len([1 for x in items if x.get("err")]) > 1:
                yield dict(case, items=items[:k] + [dict(it, err=None, outs=it["outs"] or [0])] + items[k + 1:])
        sc = case.get("sched")
        if sc and sc.get("policy") and sc["policy"].get("name") != "uniform":
            yield dict(case, sched={"seed": sc.get("seed", 0), "policy": {"name": "uniform"}})
        if sc and sc.get("seed", 0) > 9:
            for s in range(4):
                yield dict(case, sched=dict(sc, seed=s))

    def snippet(self, case):
        repo = os.environ.get("COBA_REPO", "/repo")
        if case.get("history") and case.get("mode") != "real":
            return ("# consecutive filter() calls on ONE Multiprocessor object, each under the baton scheduler\n"
                    "import sys; sys.path[:0]=[%r,'/verif/harness']\nimport json\nfrom props.c08 import run_history_scheduled, calls_of, judge\n"
                    "case = json.loads(%r)\nfor c, r in zip(calls_of(case), run_history_scheduled(case)):\n"
                    "    print(r['outs'], r['outcome'], judge(c, r))\n" % (repo, json.dumps(case)))
        if case.get("mode") == "real" or inprocess(case):
            return ("# real processes, no harness scheduling\nimport sys; sys.path[:0]=[%r,'/verif/harness']\nimport json\n"
                    "from props.c08 import run_real\nif __name__ == '__main__':\n    case = json.loads(%r)\n"
                    "    r = run_real(case)\n    print(r['outs'], r['outcome'], r['calls'])\n" % (repo, json.dumps(case)))
        return ("# the schedule is replayed by the baton scheduler of /verif/harness/props/c08_sched.py (substituted from outside;\n"
                "# coba itself is unmodified); judge() evaluates the property statement on the result\n"
                "import sys; sys.path[:0]=[%r,'/verif/harness']\nimport json\nfrom props.c08 import run_scheduled, judge\n"
                "case = json.loads(%r)\nr = run_scheduled(case)\nprint(r['outs'], r['outcome'])\n"
                "print(' '.join('%%s%%s' %% (a['a'], a.get('w', '')) for a in r['trace']))\nprint(judge(case, r))\n" % (repo, json.dumps(case)))


PROPERTY = C08()
